import Generated.Facts
