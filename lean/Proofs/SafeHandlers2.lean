/- Safe theorems, part 2: OAuth2 callback, second-factor validation, remember middleware. -/
import Proofs.SafeHandlers

namespace AuthbossModel.M
attribute [local irreducible] Frame Lic Safe

/-! ### oauth2.End -/

def LicOAuth (c0 : Ctx) (U : Bytes) : Prop :=
  c0.sess.get .oauthState = some c0.req.state ∧ c0.req.oerr = [] ∧
  ∃ puid, c0.req.provUid = some puid ∧ U = makeOAuth2PID c0.req.provider puid

set_option maxHeartbeats 4000000 in
theorem oauth2End_safe (c0 : Ctx) : Safe (LicOAuth c0) oauth2End c0 := by
  unfold oauth2End
  safe_auto
  all_goals (
    obtain ⟨rfl, rfl⟩ := get_ok (by assumption)
    have hst := ‹c0.sess.get SKey.oauthState = some _›
    have hne := ‹¬(c0.req.state != _) = true›
    have he := ‹¬(!List.isEmpty c0.req.oerr) = true›
    have hp := ‹c0.req.provUid = some _›
    unfold Lic LicOAuth
    refine ⟨?_, ?_, _, hp, rfl⟩
    · simp at hne; rw [hst, hne]
    · simpa using he)

/-! ### Second-factor validation and the remember middleware

For these three the licence is stated through the success of the verifying
sub-computation (`totpValidate`, `smsVerdict`, `useToken`); what that success means in
terms of the stored secrets is the subject of C02 / C07 / C12. -/

def LicTotp (c0 : Ctx) (U : Bytes) : Prop :=
  ∃ u c', totpValidate c0 = (.ok (some (u, .success)), c') ∧ u.pid = U

set_option maxHeartbeats 4000000 in
theorem totpValidate_safe (c0 : Ctx) : Safe (LicTotp c0) totpPostValidate c0 := by
  unfold totpPostValidate
  safe_auto
  all_goals (
    have h := ‹totpValidate c0 = _›
    have hs := ‹¬(_ != TotpStatus.success) = true›
    simp at hs
    subst hs
    unfold Lic LicTotp
    exact ⟨_, _, h, rfl⟩)

theorem Frame.smsSendCodePage (pg u) : Frame (M.smsSendCodePage pg u) := by
  unfold M.smsSendCodePage
  apply Frame.bind Frame.get; intro c; dsimp only; frame_all

def LicSmsCode (pg : SmsPage) (u : User) (U : Bytes) : Prop :=
  pg = .validate ∧ ∃ u' c2 c3, smsVerdict pg u c2 = (.ok (u', true), c3) ∧ u'.pid = U

set_option maxHeartbeats 8000000 in
theorem smsValidateCode_safe (pg : SmsPage) (u : User) (c : Ctx) :
    Safe (LicSmsCode pg u) (smsValidateCode pg u) c := by
  unfold smsValidateCode
  safe_auto
  have hv := ‹smsVerdict SmsPage.validate u _ = _›
  have hb := ‹¬(!_) = true›
  simp at hb
  subst hb
  unfold Lic LicSmsCode
  exact ⟨rfl, _, _, _, hv, rfl⟩

def LicSms (c0 : Ctx) (U : Bytes) : Prop :=
  ∃ u c1, tfaUser .smsPending c0 = (.ok (.found u), c1) ∧ LicSmsCode .validate u U

theorem Safe.mono {α} {P Q : Bytes → Prop} {h : H α} {c} (hs : Safe P h c) (hpq : ∀ U, P U → Q U) :
    Safe Q h c := by
  unfold Safe at hs ⊢
  intro U hU
  rcases hs U hU with h1 | h1
  · exact Or.inl h1
  · exact Or.inr (hpq U h1)

theorem smsValidate_safe (c0 : Ctx) : Safe (LicSms c0) (smsPost .validate) c0 := by
  unfold smsPost
  apply Safe.bind (Frame.safe (by unfold tfaUser; frame_all) _ _)
  intro r c1 hr
  split
  · rename_i u
    apply Safe.bind (Frame.safe Frame.get _ _)
    intro c c2 hg
    dsimp only
    apply Safe.ite
    · intro _; exact Frame.safe (Frame.smsSendCodePage _ _) _ _
    · intro _
      exact Safe.mono (smsValidateCode_safe .validate u c2) (fun U hU => ⟨u, c1, hr, hU⟩)
  · exact Frame.safe (Frame.fail _) _ _

end AuthbossModel.M
