/-
  `CU h`: handler `h` leaves the context user (`CTXKeyUser`) alone.
-/
import Proofs.SafeHandlers

namespace AuthbossModel.M

/-- `CU h`: `h` leaves the context user alone. -/
def CU {α} (h : H α) : Prop := ∀ c, (h c).2.ctxUser = c.ctxUser

theorem CU.pure {α} (a : α) : CU (Pure.pure a : H α) := fun _ => rfl
theorem CU.get : CU M.get := fun _ => rfl
theorem CU.stop {α} (s) : CU (M.stop s : H α) := fun _ => rfl
theorem CU.fail {α} (e) : CU (M.fail e : H α) := fun _ => rfl
theorem CU.backend : CU M.backend := fun _ => rfl
theorem CU.modify (f : Ctx → Ctx) (hf : ∀ c, (f c).ctxUser = c.ctxUser) : CU (M.modify f) := fun c => hf c
theorem CU.act (a : Act) : CU (M.act a) := CU.modify _ (fun _ => rfl)
theorem CU.logf (f a) : CU (M.logf f a) := CU.modify _ (fun _ => rfl)
theorem CU.bind {α β} {m : H α} {f : α → H β} (hm : CU m) (hf : ∀ a, CU (f a)) : CU (m >>= f) := by
  intro c
  rw [bind_apply]
  have h1 := hm c
  generalize m c = r at h1
  obtain ⟨res, c'⟩ := r
  cases res with
  | ok a => exact (hf a c').trans h1
  | stop s => exact h1
theorem CU.ite {α} {b : Prop} [Decidable b] {x y : H α} (hx : CU x) (hy : CU y) : CU (if b then x else y) := by
  by_cases h : b <;> simp [h] <;> assumption

syntax "cu_auto" : tactic
macro_rules
  | `(tactic| cu_auto) => `(tactic|
    repeat' (first
      | exact CU.pure _ | exact CU.get | exact CU.stop _ | exact CU.fail _ | exact CU.backend
      | exact CU.act _ | exact CU.logf _ _
      | (apply CU.modify; intro _; rfl)
      | assumption
      | apply CU.ite | apply CU.bind | split | intro _))

theorem CU.render : CU M.render := by unfold M.render; cu_auto
theorem CU.redirect (p ok f fl) : CU (M.redirect p ok f fl) := by
  unfold M.redirect; have := CU.render; cu_auto
theorem CU.smsSendCode (p n) : CU (M.smsSendCode p n) := by unfold M.smsSendCode; cu_auto
theorem CU.totpHijack (b) : CU (M.totpHijack b) := by
  unfold M.totpHijack; have := CU.redirect; cu_auto
theorem CU.smsHijack (b) : CU (M.smsHijack b) := by
  unfold M.smsHijack; have := CU.redirect; have := CU.smsSendCode; cu_auto

theorem CU.load (p) : CU (M.load p) := by unfold M.load; cu_auto
theorem CU.save (u) : CU (M.save u) := by unfold M.save; cu_auto
theorem CU.currentUserID : CU M.currentUserID := by unfold M.currentUserID; cu_auto
theorem CU.currentUser : CU M.currentUser := by
  unfold M.currentUser; have := CU.currentUserID; have := CU.load; cu_auto
theorem CU.rememberAfterReset (b) : CU (M.rememberAfterReset b) := by
  unfold M.rememberAfterReset; have := CU.currentUser; cu_auto

theorem cu_step {α} {h : H α} (hr : CU h) {c : Ctx} {a : α} {c' : Ctx} (he : h c = (Res.ok a, c')) :
    c'.ctxUser = c.ctxUser := by
  have := hr c; rw [he] at this; exact this

/-- `fireAfter EventRecoverEnd` (only `remember` listens) leaves the context user alone. -/
theorem CU.fireAfter_recoverEnd : CU (M.fireAfter .recoverEnd) := by
  have hcall : ∀ (hs : List EvHandler), (∀ h ∈ hs, h = M.rememberAfterReset) → ∀ b, CU (M.callHandlers hs b) := by
    intro hs
    induction hs with
    | nil => intro _ b; exact CU.pure _
    | cons h hs ih =>
      intro hall b
      have hh := hall h (by simp)
      subst hh
      unfold M.callHandlers
      exact CU.bind (CU.rememberAfterReset b) (fun i => ih (fun h' hm => hall h' (by simp [hm])) _)
  unfold M.fireAfter
  apply CU.bind CU.get; intro c
  apply hcall
  intro h hm
  obtain ⟨u, _, hu⟩ := List.mem_flatMap.mp hm
  unfold Unit.after at hu
  split at hu <;> simp_all

end AuthbossModel.M
