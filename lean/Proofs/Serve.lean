/- `serve` (the whole middleware stack + route) is safe; the jar lemma; the step theorem. -/
import Proofs.Dispatch

namespace AuthbossModel.M
attribute [local irreducible] Frame Lic

theorem Safe.swallowErr {P} {h : H PUnit} {c} (hs : Safe P h c) : Safe P (M.swallowErr h) c := by
  unfold Safe at hs ⊢
  intro U hU
  apply hs U
  unfold M.swallowErr at hU
  generalize h c = r at hU ⊢
  obtain ⟨res, c'⟩ := r
  cases res with
  | ok a => exact hU
  | stop s => cases s <;> exact hU

theorem rememberMW_safe (c : Ctx) : Safe (LicRemember c) rememberMW c := by
  unfold rememberMW
  apply Safe.bind (Frame.safe Frame.currentUserID _ _)
  intro id c1 h1
  have hc : c1 = c := (by
    unfold M.currentUserID at h1
    simp only [bind_apply, M.get] at h1
    cases hp : c.ctxPid <;> simp [hp, pure_apply] at h1 <;> exact h1.2.symm)
  subst hc
  apply Safe.ite
  · intro _; exact Safe.swallowErr (rememberAuthenticate_safe c1)
  · intro _; exact Frame.safe (Frame.pure _) _ _

theorem Frame.expireMW : Frame M.expireMW := by unfold M.expireMW; frame_all

theorem keeps_of_ok {α} {h : H α} (hk : Keeps h) {c a c'} (he : h c = (Res.ok a, c')) : MwReach c c' := by
  have := hk c; rw [he] at this; exact this

/-- What licenses a new session for `U` in one request: the remember cookie presented by
the browser, or the route's own credential check, evaluated in a context that differs
from the request's initial one only by what the middlewares may change (`MwReach`). -/
def ServeLic (rt : Route) (c0 : Ctx) (U : Bytes) : Prop :=
  LicRemember c0 U ∨ ∃ c1, MwReach c0 c1 ∧ Licensed rt c1 U

theorem serve_tail (rt : Route) (c0 cA : Ctx) (rA : MwReach c0 cA) (b : Prop) [Decidable b] :
    Safe (ServeLic rt c0) (if b then expireMW >>= fun _ => dispatch rt else dispatch rt) cA := by
  apply Safe.ite
  · intro _
    apply Safe.bind (Frame.safe Frame.expireMW _ _)
    intro _ cB hB
    have rB : MwReach cA cB := keeps_of_ok Keeps.expireMW hB
    exact Safe.mono (dispatch_safe rt cB) (fun U h => Or.inr ⟨cB, MwReach.trans rA rB, h⟩)
  · intro _
    exact Safe.mono (dispatch_safe rt cA) (fun U h => Or.inr ⟨cA, rA, h⟩)

theorem serve_safe (rt : Route) (c0 : Ctx) : Safe (ServeLic rt c0) (serve rt) c0 := by
  unfold serve
  apply Safe.bind (Frame.safe Frame.get _ _); intro c cx hg
  obtain ⟨rfl, rfl⟩ := get_ok hg
  dsimp only
  apply Safe.ite
  · intro _
    apply Safe.bind (Safe.mono (rememberMW_safe c0) (fun U h => Or.inl h))
    intro _ cA hA
    exact serve_tail rt c0 cA (keeps_of_ok Keeps.rememberMW hA) _
  · intro _
    exact serve_tail rt c0 c0 (MwReach.refl _) _

end AuthbossModel.M
