/-
  `App h`: handler `h` only ever appends to the list of actions (session / cookie events and
  responses) — nothing already queued is removed or reordered.
-/
import Proofs.SafeHandlers

namespace AuthbossModel.M

def App {α} (h : H α) : Prop := ∀ c, ∃ ext, (h c).2.acts = c.acts ++ ext

theorem App.pure {α} (a : α) : App (Pure.pure a : H α) := fun _ => ⟨[], by simp [pure_apply]⟩
theorem App.get : App M.get := fun _ => ⟨[], by simp [M.get]⟩
theorem App.stop {α} (s) : App (M.stop s : H α) := fun _ => ⟨[], by simp [M.stop]⟩
theorem App.fail {α} (e) : App (M.fail e : H α) := fun _ => ⟨[], by simp [M.fail, M.stop]⟩
theorem App.backend : App M.backend := fun _ => ⟨[], by simp [M.backend]⟩
theorem App.modify (f : Ctx → Ctx) (hf : ∀ c, (f c).acts = c.acts) : App (M.modify f) :=
  fun c => ⟨[], by simp [M.modify, hf c]⟩
theorem App.act (a : Act) : App (M.act a) := fun c => ⟨[a], by simp [M.act, M.modify]⟩
theorem App.logf (f a) : App (M.logf f a) := App.modify _ (fun _ => rfl)
theorem App.setCtxUser (u) : App (M.setCtxUser u) := App.modify _ (fun _ => rfl)
theorem App.writeBack (u) : App (M.writeBack u) := by
  apply App.modify; intro c; cases c.ctxUser <;> rfl

theorem App.bind {α β} {m : H α} {f : α → H β} (hm : App m) (hf : ∀ a, App (f a)) : App (m >>= f) := by
  intro c
  rw [bind_apply]
  obtain ⟨e1, h1⟩ := hm c
  generalize m c = r at h1
  obtain ⟨res, c'⟩ := r
  cases res with
  | ok a =>
    obtain ⟨e2, h2⟩ := hf a c'
    exact ⟨e1 ++ e2, by simp only at h1 ⊢; rw [h2, h1, List.append_assoc]⟩
  | stop s => exact ⟨e1, h1⟩

theorem App.ite {α} {b : Prop} [Decidable b] {x y : H α} (hx : App x) (hy : App y) : App (if b then x else y) := by
  by_cases h : b <;> simp [h] <;> assumption

theorem App.swallowErr {h : H PUnit} (hn : App h) : App (M.swallowErr h) := by
  intro c
  obtain ⟨e, he⟩ := hn c
  unfold M.swallowErr
  generalize h c = r at he
  obtain ⟨res, c'⟩ := r
  cases res with
  | ok a => exact ⟨e, he⟩
  | stop s => cases s <;> exact ⟨e, he⟩

syntax "app_step" : tactic
macro_rules
  | `(tactic| app_step) => `(tactic|
    (first
      | exact App.pure _ | exact App.get | exact App.stop _ | exact App.fail _ | exact App.backend
      | exact App.act _ | exact App.logf _ _ | exact App.setCtxUser _ | exact App.writeBack _
      | (apply App.modify; intro _; rfl)
      | assumption
      | apply App.ite | apply App.bind | split | intro _))
syntax "app_auto" : tactic
macro_rules
  | `(tactic| app_auto) => `(tactic| repeat' app_step)

theorem App.load (p) : App (M.load p) := by unfold M.load; app_auto
theorem App.save (u) : App (M.save u) := by unfold M.save; app_auto
theorem App.render : App M.render := by unfold M.render; app_auto
theorem App.hash : App M.hash := by unfold M.hash; app_auto
theorem App.respond (p t) : App (M.respond p t) := by unfold M.respond; have := App.render; app_auto
theorem App.redirect (p ok f fl) : App (M.redirect p ok f fl) := by
  unfold M.redirect; have := App.render; app_auto
theorem App.currentUserID : App M.currentUserID := by unfold M.currentUserID; app_auto
theorem App.currentUser : App M.currentUser := by
  unfold M.currentUser; have := App.currentUserID; have := App.load; app_auto
theorem App.sendMail (to k t) : App (M.sendMail to k t) := by unfold M.sendMail; have := App.render; app_auto
theorem App.lockUpdate (w b) : App (M.lockUpdate w b) := by
  unfold M.lockUpdate; have := App.currentUser; have := App.save; have := App.redirect; app_auto
theorem App.lockSuccess (b) : App (M.lockSuccess b) := by
  unfold M.lockSuccess; have := App.currentUser; have := App.save; app_auto
theorem App.confirmPrevent (b) : App (M.confirmPrevent b) := by
  unfold M.confirmPrevent; have := App.currentUser; have := App.redirect; app_auto
theorem App.startConfirmation (u) : App (M.startConfirmation u) := by
  unfold M.startConfirmation; have := App.save; have := App.sendMail; app_auto
theorem App.confirmStartWeb (b) : App (M.confirmStartWeb b) := by
  unfold M.confirmStartWeb; have := App.currentUser; have := App.startConfirmation; have := App.redirect; app_auto
theorem App.rememberAfterAuth (b) : App (M.rememberAfterAuth b) := by
  unfold M.rememberAfterAuth; have := App.currentUser; app_auto
theorem App.rememberAfterReset (b) : App (M.rememberAfterReset b) := by
  unfold M.rememberAfterReset; have := App.currentUser; app_auto
theorem App.refreshExpiry : App M.refreshExpiry := by unfold M.refreshExpiry; app_auto
theorem App.expireAfterAuth (b) : App (M.expireAfterAuth b) := by
  unfold M.expireAfterAuth; have := App.refreshExpiry; app_auto
theorem App.smsSendCode (p n) : App (M.smsSendCode p n) := by unfold M.smsSendCode; app_auto
theorem App.totpHijack (b) : App (M.totpHijack b) := by unfold M.totpHijack; have := App.redirect; app_auto
theorem App.smsHijack (b) : App (M.smsHijack b) := by
  unfold M.smsHijack; have := App.redirect; have := App.smsSendCode; app_auto

theorem App.callHandlers (hs : List EvHandler) (hh : ∀ h ∈ hs, ∀ b, App (h b)) (b : Bool) : App (M.callHandlers hs b) := by
  induction hs generalizing b with
  | nil => exact App.pure _
  | cons h hs ih =>
    unfold M.callHandlers
    exact App.bind (hh h (by simp) b) (fun i => ih (fun h' hm => hh h' (by simp [hm])) _)

theorem handler_app (u : Unit) (e : Ev) : (∀ h ∈ u.before e, ∀ b, App (h b)) ∧ (∀ h ∈ u.after e, ∀ b, App (h b)) := by
  constructor
  · intro h hm b
    unfold Unit.before at hm
    split at hm <;> simp at hm <;> subst hm
    · exact App.lockUpdate _ _
    · exact App.lockUpdate _ _
    · exact App.confirmPrevent _
    · exact App.totpHijack _
    · exact App.smsHijack _
  · intro h hm b
    unfold Unit.after at hm
    split at hm <;> simp at hm <;> subst hm
    · exact App.lockSuccess _
    · exact App.lockUpdate _ _
    · exact App.confirmStartWeb _
    · exact App.rememberAfterAuth _
    · exact App.rememberAfterAuth _
    · exact App.rememberAfterReset _
    · exact App.expireAfterAuth _
    · exact App.expireAfterAuth _
    · exact App.expireAfterAuth _

theorem App.fireBefore (e : Ev) : App (M.fireBefore e) := by
  unfold M.fireBefore
  apply App.bind App.get; intro c
  apply App.callHandlers
  intro h hm b
  obtain ⟨u, _, hu⟩ := List.mem_flatMap.mp hm
  exact (handler_app u e).1 h hu b

theorem App.fireAfter (e : Ev) : App (M.fireAfter e) := by
  unfold M.fireAfter
  apply App.bind App.get; intro c
  apply App.callHandlers
  intro h hm b
  obtain ⟨u, _, hu⟩ := List.mem_flatMap.mp hm
  exact (handler_app u e).2 h hu b

end AuthbossModel.M
