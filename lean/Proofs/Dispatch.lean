/- Every route other than the seven login routes is a frame; `dispatch` and `serve` are safe. -/
import Proofs.Keeps

namespace AuthbossModel.M
attribute [local irreducible] Frame Lic Safe Keeps

theorem Frame.tfaUser (k) : Frame (M.tfaUser k) := by unfold M.tfaUser; frame_all
theorem Frame.totpValidate : Frame M.totpValidate := by
  unfold M.totpValidate; have := Frame.tfaUser; frame_all
theorem Frame.smsVerdict (pg u) : Frame (M.smsVerdict pg u) := by
  unfold M.smsVerdict; apply Frame.bind Frame.get; intro c; dsimp only; frame_all

theorem Frame.otpAddPost : Frame M.otpAddPost := by unfold M.otpAddPost; frame_all
theorem Frame.otpClearPost : Frame M.otpClearPost := by unfold M.otpClearPost; frame_all
theorem Frame.confirmGet : Frame M.confirmGet := by
  unfold M.confirmGet; apply Frame.bind Frame.get; intro c; dsimp only; frame_all
theorem Frame.recoverStartPost : Frame M.recoverStartPost := by unfold M.recoverStartPost; frame_all
theorem Frame.logoutHandler : Frame M.logoutHandler := by unfold M.logoutHandler; frame_all
theorem Frame.oauth2Start : Frame M.oauth2Start := by
  unfold M.oauth2Start; apply Frame.bind Frame.get; intro c; dsimp only; frame_all
theorem Frame.totpPostSetup : Frame M.totpPostSetup := by unfold M.totpPostSetup; frame_all
theorem Frame.totpGetSetup : Frame M.totpGetSetup := by unfold M.totpGetSetup; frame_all
theorem Frame.totpPostConfirm : Frame M.totpPostConfirm := by unfold M.totpPostConfirm; frame_all
theorem Frame.totpPostRemove : Frame M.totpPostRemove := by
  unfold M.totpPostRemove; have := Frame.totpValidate; frame_all
theorem Frame.smsGetSetup : Frame M.smsGetSetup := by unfold M.smsGetSetup; frame_all
theorem Frame.smsPostSetup : Frame M.smsPostSetup := by unfold M.smsPostSetup; frame_all
theorem Frame.recoveryPostRegen : Frame M.recoveryPostRegen := by unfold M.recoveryPostRegen; frame_all
theorem Frame.emailVerifyPostStart : Frame M.emailVerifyPostStart := by unfold M.emailVerifyPostStart; frame_all
theorem Frame.emailVerifyEnd (p) : Frame (M.emailVerifyEnd p) := by
  unfold M.emailVerifyEnd; apply Frame.bind Frame.get; intro c; dsimp only; frame_all
theorem Frame.emailVerifyWrap (k) : Frame (M.emailVerifyWrap k) := by unfold M.emailVerifyWrap; frame_all
theorem Frame.probe : Frame M.probe := by unfold M.probe; frame_all

/-! ### Middlewares wrap a handler without adding session writes of their own -/

theorem Frame.loadCurrentUser : Frame M.loadCurrentUser := by unfold M.loadCurrentUser; frame_all

syntax "safe_mw" : tactic
macro_rules
  | `(tactic| safe_mw) => `(tactic|
    repeat' (first
      | (refine Frame.safe ?_ _ _; (have := Frame.loadCurrentUser); frame_all; done)
      | (apply_assumption; done)
      | apply Safe.bind
      | apply Safe.ite
      | split
      | intro _))

theorem accessMW_safe {P} (mp reqs fl path rq) (next : H PUnit) (hn : ∀ c, Safe P next c) (c : Ctx) :
    Safe P (accessMW mp reqs fl path rq next) c := by
  unfold accessMW
  apply Safe.bind (Frame.safe Frame.get _ _); intro c1 c2 _
  dsimp only
  safe_mw

theorem moduleMW_safe {P} (reqs path) (next : H PUnit) (hn : ∀ c, Safe P next c) (c : Ctx) :
    Safe P (moduleMW reqs path next) c := by
  unfold moduleMW
  apply Safe.bind (Frame.safe Frame.get _ _); intro c1 c2 _
  exact accessMW_safe _ _ _ _ _ next hn c2

theorem verified_safe {P} (sms path) (h : H PUnit) (hn : ∀ c, Safe P h c) (c : Ctx) :
    Safe P (verified sms path h) c := by
  unfold verified
  apply moduleMW_safe
  intro c'
  apply Safe.bind (Frame.safe (Frame.emailVerifyWrap _) _ _); intro b c2 _
  apply Safe.ite
  · intro _; exact hn c2
  · intro _; exact Frame.safe (Frame.pure _) _ _

theorem lockMW_safe {P} (next : H PUnit) (hn : ∀ c, Safe P next c) (c : Ctx) : Safe P (lockMW next) c := by
  unfold lockMW; safe_mw
theorem confirmMW_safe {P} (next : H PUnit) (hn : ∀ c, Safe P next c) (c : Ctx) : Safe P (confirmMW next) c := by
  unfold confirmMW; safe_mw

/-! ### dispatch -/

/-- The licence of a route, evaluated in the context the route handler starts in. -/
def Licensed (rt : Route) (c : Ctx) (U : Bytes) : Prop :=
  match rt with
  | .login => LicLogin c U
  | .otpLogin => LicOtp c U
  | .register => LicRegister c U
  | .recoverEnd => LicRecover c U
  | .oauth2End => LicOAuth c U
  | .totpValidate => LicTotp c U
  | .smsValidate => LicSms c U
  | _ => False

theorem smsOther_safe (pg : SmsPage) (hpg : pg ≠ .validate) (c : Ctx) : Safe (fun _ => False) (smsPost pg) c := by
  unfold smsPost
  apply Safe.bind (Frame.safe (Frame.tfaUser _) _ _)
  intro r c1 hr
  split
  · rename_i u
    apply Safe.bind (Frame.safe Frame.get _ _)
    intro c' c2 hg
    dsimp only
    apply Safe.ite
    · intro _; exact Frame.safe (Frame.smsSendCodePage _ _) _ _
    · intro _
      exact Safe.mono (smsValidateCode_safe pg u c2) (fun U hU => hpg hU.1)
  · exact Frame.safe (Frame.fail _) _ _

theorem fr {α} {h : H α} (hf : Frame h) : ∀ c, Safe (fun _ => False) h c := fun c => Frame.safe hf _ c

theorem dispatch_safe (rt : Route) (c : Ctx) : Safe (Licensed rt c) (dispatch rt) c := by
  unfold dispatch
  apply Safe.bind (Frame.safe Frame.get _ _); intro c1 c2 hg
  obtain ⟨rfl, rfl⟩ := get_ok hg
  dsimp only
  apply Safe.ite
  · intro _; exact Frame.safe (Frame.status _) _ _
  · intro _
    cases rt with
    | login => exact authLogin_safe c
    | otpLogin => exact otpLogin_safe c
    | register => exact register_safe c
    | recoverEnd => exact recoverEnd_safe c
    | oauth2End => exact oauth2End_safe c
    | totpValidate => exact totpValidate_safe c
    | smsValidate => exact smsValidate_safe c
    | otpAdd => exact moduleMW_safe _ _ _ (fr Frame.otpAddPost) c
    | otpClear => exact moduleMW_safe _ _ _ (fr Frame.otpClearPost) c
    | confirm => exact fr Frame.confirmGet c
    | recoverStart => exact fr Frame.recoverStartPost c
    | logout => exact fr Frame.logoutHandler c
    | oauth2Start => exact fr Frame.oauth2Start c
    | totpGetSetup => exact verified_safe _ _ _ (fr Frame.totpGetSetup) c
    | totpSetup => exact verified_safe _ _ _ (fr Frame.totpPostSetup) c
    | totpConfirm => exact verified_safe _ _ _ (fr Frame.totpPostConfirm) c
    | totpRemove => exact moduleMW_safe _ _ _ (fr Frame.totpPostRemove) c
    | smsGetSetup => exact verified_safe _ _ _ (fr Frame.smsGetSetup) c
    | smsSetup => exact verified_safe _ _ _ (fr Frame.smsPostSetup) c
    | smsConfirm => exact verified_safe _ _ _ (smsOther_safe .confirm (by decide)) c
    | smsRemove => exact moduleMW_safe _ _ _ (smsOther_safe .remove (by decide)) c
    | recoveryRegen => exact moduleMW_safe _ _ _ (fr Frame.recoveryPostRegen) c
    | verifyStart sms =>
      apply Safe.ite
      · intro _; exact Frame.safe (Frame.status _) _ _
      · intro _; exact moduleMW_safe _ _ _ (fr Frame.emailVerifyPostStart) c
    | verifyEnd sms =>
      apply Safe.ite
      · intro _; exact Frame.safe (Frame.status _) _ _
      · intro _; exact moduleMW_safe _ _ _ (fr (Frame.emailVerifyEnd _)) c
    | protected_ reqs fl mp path => exact accessMW_safe _ _ _ _ _ _ (fr Frame.probe) c
    | open_ => exact fr Frame.probe c
    | lockmw => exact lockMW_safe _ (fr Frame.probe) c
    | confirmmw => exact confirmMW_safe _ (fr Frame.probe) c
    | rootmw => exact confirmMW_safe _ (lockMW_safe _ (fr Frame.probe)) c
    | notFound => exact Frame.safe (Frame.status _) _ _

end AuthbossModel.M
