import Proofs.Ret
/-! Veto lemmas for C03: a locked / unconfirmed context user makes `FireBefore` report handled, wherever the vetoing unit sits in the load order. -/
namespace AuthbossModel.M
attribute [local irreducible] Ret Post Frame

/-- Never returns normally with `false`. -/
def Vetoes (h : H Bool) (c : Ctx) : Prop := ∀ c', h c ≠ (.ok false, c')

theorem callHandlers_true (hs : List EvHandler) (c : Ctx) : Vetoes (callHandlers hs true) c := by
  induction hs generalizing c with
  | nil => intro c' h; simp [callHandlers, pure_apply] at h
  | cons h hs ih =>
    intro c' he
    unfold callHandlers at he
    rw [bind_apply] at he
    generalize h true c = r at he
    obtain ⟨res, c1⟩ := r
    cases res with
    | ok i => simp only [Bool.true_or] at he; exact ih c1 c' he
    | stop s => simp at he

/-- The context invariant carried along the handler chain: the context user is locked now. -/
def LockedCtx (c : Ctx) : Prop := ∃ u, c.ctxUser = some u ∧ u.locked > c.now

theorem currentUser_ctx {c : Ctx} {u : User} (h : c.ctxUser = some u) :
    M.currentUser c = (.ok (.found u), c) := by
  unfold M.currentUser
  simp only [bind_apply, M.get, h, pure_apply]

theorem lockUpdate_true_ret (c : Ctx) (h : LockedCtx c) (b : Bool) :
    Ret (fun r _ => r = true) (lockUpdate true b) c := by
  obtain ⟨u, hu, hl⟩ := h
  unfold lockUpdate
  ret_auto
  · -- the "not locked" exit is unreachable
    have hcu := ‹M.currentUser c = _›
    rw [currentUser_ctx hu] at hcu
    simp only [Prod.mk.injEq, Res.ok.injEq, LoadRes.found.injEq] at hcu
    obtain ⟨rfl, rfl⟩ := hcu
    obtain ⟨rfl, rfl⟩ := get_ok ‹M.get c = _›
    have hn := ‹(!Lock.isLocked c.now _) = true›
    simp [Lock.isLocked, Lock.update, User.withL, User.lstate] at hn
    exact ((Int.not_lt.mpr hn) hl).elim
  · unfold Post; rfl

theorem lockUpdate_true_vetoes (c : Ctx) (h : LockedCtx c) (b : Bool) : Vetoes (lockUpdate true b) c := by
  intro c' he
  have hr := lockUpdate_true_ret c h b
  unfold Ret at hr
  have := hr false c' he
  cases this

/-- The context user is not confirmed. -/
def UnconfCtx (c : Ctx) : Prop := ∃ u, c.ctxUser = some u ∧ u.confirmed = false

theorem confirmPrevent_ret (c : Ctx) (h : UnconfCtx c) (b : Bool) :
    Ret (fun r _ => r = true) (confirmPrevent b) c := by
  obtain ⟨u, hu, hc⟩ := h
  unfold confirmPrevent
  ret_auto
  · have hcu := ‹M.currentUser c = _›
    rw [currentUser_ctx hu] at hcu
    simp only [Prod.mk.injEq, Res.ok.injEq, LoadRes.found.injEq] at hcu
    obtain ⟨rfl, rfl⟩ := hcu
    have := ‹u.confirmed = true›
    rw [hc] at this; cases this
  · unfold Post; rfl

theorem confirmPrevent_vetoes (c : Ctx) (h : UnconfCtx c) (b : Bool) : Vetoes (confirmPrevent b) c := by
  intro c' he
  have hr := confirmPrevent_ret c h b
  unfold Ret at hr
  have := hr false c' he
  cases this

/-! ### The invariants survive the other before-handlers -/

theorem modify_ok {f : Ctx → Ctx} {c a c'} (h : M.modify f c = (Res.ok a, c')) : c' = f c := by
  simp [M.modify] at h; exact h.symm

theorem save_ok {u c b c'} (h : M.save u c = (Res.ok b, c')) :
    c'.ctxUser = c.ctxUser ∧ c'.now = c.now ∧ c'.cfg = c.cfg := by
  unfold M.save at h
  rw [bind_apply, backend_eq] at h
  generalize oracle c = o at h
  cases o with
  | some k => simp [pure_apply] at h; rw [← h.2]; exact ⟨rfl, rfl, rfl⟩
  | none =>
    simp only [bind_apply, M.modify, pure_apply] at h
    simp at h; rw [← h.2]; exact ⟨rfl, rfl, rfl⟩

theorem writeBack_ok {u c a c'} (h : M.writeBack u c = (Res.ok a, c')) (hc : c.ctxUser.isSome) :
    c'.ctxUser = some u ∧ c'.now = c.now ∧ c'.cfg = c.cfg := by
  have := modify_ok h
  subst this
  cases hcu : c.ctxUser with
  | none => rw [hcu] at hc; cases hc
  | some x => simp [hcu]

/-- Fields an invariant on the context user may depend on: everything except the attempt
counter and the last-attempt time (the only fields `lock.BeforeAuth` rewrites). -/
@[reducible] def StableQ (Q : Int → User → Prop) : Prop :=
  ∀ (t : Int) (u : User) (s : Lock.LState), Q t u → Q t (u.withL { s with locked := u.locked })

@[reducible] def UserInv (Q : Int → User → Prop) (c : Ctx) : Prop := ∃ u, c.ctxUser = some u ∧ Q c.now u

theorem redirect_ok {p ok f fl c a c'} (h : M.redirect p ok f fl c = (Res.ok a, c')) :
    c'.ctxUser = c.ctxUser ∧ c'.now = c.now := by
  have hk : ∀ c, (M.redirect p ok f fl c).2.ctxUser = c.ctxUser ∧ (M.redirect p ok f fl c).2.now = c.now := by
    intro c
    unfold M.redirect
    simp only [bind_apply, M.get]
    cases hj : c.cfg.json
    · cases ok <;> cases f <;>
        simp [hj, M.putS, M.act, M.modify, bind_apply, pure_apply]
    · simp only [hj, if_true, M.render, bind_apply, backend_eq]
      cases oracle c <;> simp [pure_apply, M.fail, M.stop, M.act, M.modify, tick]
  have := hk c; rw [h] at this; exact this

/-- What `Redirector.Redirect` queues: at most the two flash messages, then the response. -/
theorem redirect_acts (p : Bytes) (ok f : Option Txt) (fl : Bool) (c : Ctx) :
    ∃ ext, (M.redirect p ok f fl c).2.acts = c.acts ++ ext ∧
      ∀ a ∈ ext, (∃ v, a = Act.sess (.put .flashOk v)) ∨ (∃ v, a = Act.sess (.put .flashErr v)) ∨ (∃ r, a = Act.respond r) := by
  unfold M.redirect
  simp only [bind_apply, M.get]
  cases hj : c.cfg.json
  · cases ok <;> cases f <;>
      simp only [Bool.false_eq_true, if_false, M.putS, M.act, M.modify, bind_apply, pure_apply, List.append_assoc] <;>
      refine ⟨_, rfl, ?_⟩ <;> intro a ha <;> simp at ha
    · exact Or.inr (Or.inr ⟨_, ha⟩)
    · rcases ha with ha | ha
      · exact Or.inr (Or.inl ⟨_, ha⟩)
      · exact Or.inr (Or.inr ⟨_, ha⟩)
    · rcases ha with ha | ha
      · exact Or.inl ⟨_, ha⟩
      · exact Or.inr (Or.inr ⟨_, ha⟩)
    · rcases ha with ha | ha | ha
      · exact Or.inl ⟨_, ha⟩
      · exact Or.inr (Or.inl ⟨_, ha⟩)
      · exact Or.inr (Or.inr ⟨_, ha⟩)
  · simp only [if_true, M.render, bind_apply, backend_eq]
    cases oracle c
    · simp only [pure_apply, Bool.false_eq_true, if_false, M.act, M.modify, tick]
      exact ⟨_, rfl, by intro a ha; simp at ha; exact Or.inr (Or.inr ⟨_, ha⟩)⟩
    · simp only [pure_apply, if_true, M.fail, M.stop, tick]
      exact ⟨[], by simp, by intro a ha; cases ha⟩

theorem lockUpdate_true_keeps (Q) (hQ : StableQ Q) (c : Ctx) (hi : UserInv Q c) (b : Bool) :
    Ret (fun _ c' => UserInv Q c') (lockUpdate true b) c := by
  obtain ⟨u, hu, hq⟩ := hi
  unfold lockUpdate
  ret_auto
  all_goals (
    have hcu := ‹M.currentUser c = _›
    rw [currentUser_ctx hu] at hcu
    simp only [Prod.mk.injEq, Res.ok.injEq, LoadRes.found.injEq] at hcu
    obtain ⟨rfl, rfl⟩ := hcu
    obtain ⟨rfl, rfl⟩ := get_ok ‹M.get c = _›
    have hw := writeBack_ok ‹M.writeBack _ c = _› (by simp [hu])
    have hs := save_ok ‹M.save _ _ = _›
    unfold Post UserInv)
  · refine ⟨_, hs.1.trans hw.1, ?_⟩
    rw [hs.2.1, hw.2.1]
    have := hQ c.now u (Lock.update (lockCfg c.cfg) c.now true u.lstate) hq
    simpa [Lock.update, User.lstate] using this
  · have hr := redirect_ok ‹M.redirect _ _ _ _ _ = _›
    refine ⟨_, hr.1.trans (hs.1.trans hw.1), ?_⟩
    rw [hr.2, hs.2.1, hw.2.1]
    have := hQ c.now u (Lock.update (lockCfg c.cfg) c.now true u.lstate) hq
    simpa [Lock.update, User.lstate] using this

theorem confirmPrevent_keeps (Q) (c : Ctx) (hi : UserInv Q c) (b : Bool) :
    Ret (fun _ c' => UserInv Q c') (confirmPrevent b) c := by
  obtain ⟨u, hu, hq⟩ := hi
  unfold confirmPrevent
  ret_auto
  all_goals (
    have hcu := ‹M.currentUser c = _›
    rw [currentUser_ctx hu] at hcu
    simp only [Prod.mk.injEq, Res.ok.injEq, LoadRes.found.injEq] at hcu
    obtain ⟨rfl, rfl⟩ := hcu
    have hl := modify_ok ‹M.logf _ _ c = _›
    subst hl
    unfold Post UserInv)
  · exact ⟨_, hu, hq⟩
  · have hr := redirect_ok ‹M.redirect _ _ _ _ _ = _›
    exact ⟨_, hr.1.trans hu, by rw [hr.2]; exact hq⟩

/-- **Veto at any position.** If every handler of a chain keeps an invariant `J` (or stops)
and some handler of the chain vetoes whenever `J` holds, the chain never reports
"not handled" from a context satisfying `J` — wherever in the chain the vetoing handler sits
and whatever the incoming `handled` flag. -/
theorem veto_chain (J : Ctx → Prop) (hs : List EvHandler)
    (hkeep : ∀ h ∈ hs, ∀ b c, J c → ∀ r c', h b c = (.ok r, c') → J c')
    (hveto : ∃ h ∈ hs, ∀ b c, J c → Vetoes (h b) c) :
    ∀ b c, J c → Vetoes (callHandlers hs b) c := by
  induction hs with
  | nil => obtain ⟨h, hm, _⟩ := hveto; cases hm
  | cons h hs ih =>
    intro b c hj c' he
    unfold callHandlers at he
    rw [bind_apply] at he
    generalize hr : h b c = r at he
    obtain ⟨res, c1⟩ := r
    cases res with
    | stop s => simp at he
    | ok i =>
      have hj1 : J c1 := hkeep h (by simp) b c hj i c1 hr
      obtain ⟨hv, hvm, hvv⟩ := hveto
      rcases List.mem_cons.mp hvm with rfl | hin
      · -- this handler is the vetoing one: it interrupted
        have : i = true := by
          cases i
          · exact absurd hr (hvv b c hj c1)
          · rfl
        subst this
        simp only [Bool.or_true] at he
        exact callHandlers_true hs c1 c' he
      · exact ih (fun h' hm => hkeep h' (by simp [hm])) ⟨hv, hin, hvv⟩ _ c1 hj1 c' he

theorem ret_elim {α} {Q : α → Ctx → Prop} {h : H α} {c} (hr : Ret Q h c) {a c'} (he : h c = (.ok a, c')) : Q a c' := by
  unfold Ret at hr; exact hr a c' he

/-- Handlers registered before `EventAuth` / `EventOAuth2`, by any unit. -/
theorem before_auth_handlers (u : Unit) (e : Ev) (he : e = .auth ∨ e = .oauth2) :
    ∀ h ∈ u.before e, h = lockUpdate true ∨ h = confirmPrevent := by
  intro h hm
  unfold Unit.before at hm
  rcases he with rfl | rfl <;> split at hm <;> simp_all

theorem fireBefore_vetoes (e : Ev) (he : e = .auth ∨ e = .oauth2) (Q : Int → User → Prop) (hQ : StableQ Q)
    (vetoer : EvHandler) (hv : ∀ b c, UserInv Q c → Vetoes (vetoer b) c)
    (c : Ctx) (hreg : ∃ u ∈ c.cfg.units, vetoer ∈ u.before e) (hi : UserInv Q c) :
    Vetoes (fireBefore e) c := by
  intro c' hf
  unfold fireBefore at hf
  simp only [bind_apply, M.get] at hf
  refine veto_chain (UserInv Q) _ ?_ ?_ false c hi c' hf
  · intro h hm b c0 hj r c1 hr
    simp only [List.mem_flatMap] at hm
    obtain ⟨u, _, hu⟩ := hm
    rcases before_auth_handlers u e he h hu with rfl | rfl
    · exact ret_elim (lockUpdate_true_keeps Q hQ c0 hj b) hr
    · exact ret_elim (confirmPrevent_keeps Q c0 hj b) hr
  · obtain ⟨u, hu, hm⟩ := hreg
    exact ⟨vetoer, List.mem_flatMap.mpr ⟨u, hu, hm⟩, hv⟩

end AuthbossModel.M
