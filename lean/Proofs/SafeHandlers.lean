/-
  Where can a session for `U` come from?  One `Safe` theorem per computation that writes
  the session key `uid`; everything else is a `Frame`.
-/
import Proofs.Frames

namespace AuthbossModel.M

/-- Marker for the licence obligations left over by `safe_auto`. -/
def Lic (P : Bytes → Prop) (U : Bytes) : Prop := P U
theorem Safe.putUid' {P} {pid : Bytes} {c} (h : Lic P pid) : Safe P (putS .uid pid) c := Safe.putUid h

attribute [local irreducible] Frame Lic

/-- `frame_auto` knowing every frame lemma of the machine. -/
syntax "frame_all" : tactic
macro_rules
  | `(tactic| frame_all) => `(tactic|
    repeat' (first
      | exact Frame.pure _ | exact Frame.get | exact Frame.stop _ | exact Frame.fail _ | exact Frame.backend
      | exact Frame.logf _ _ | exact Frame.setCtxUser _ | exact Frame.writeBack _
      | exact Frame.delS _ | exact Frame.delAllS _ | exact Frame.putRm _ | exact Frame.delRm
      | exact Frame.status _ | exact Frame.respondAct _ | exact Frame.putS_ne _ _ (by decide)
      | exact Frame.load _ | exact Frame.save _ | exact Frame.render | exact Frame.hash
      | exact Frame.respond _ _ | exact Frame.redirect _ _ _ _ | exact Frame.currentUserID | exact Frame.currentUser
      | exact Frame.sendMail _ _ _ | exact Frame.fireBefore _ | exact Frame.fireAfter _
      | exact Frame.refreshExpiry | exact Frame.smsSendCode _ _ | exact Frame.startConfirmation _
      | (apply Frame.swallowErr)
      | (apply Frame.modify; intro _; rfl)
      | assumption
      | apply Frame.ite
      | apply Frame.bind
      | split
      | intro _))

syntax "safe_auto" : tactic
macro_rules
  | `(tactic| safe_auto) => `(tactic|
    repeat' (first
      | (refine Frame.safe ?_ _ _; frame_all; done)
      | apply Safe.putUid'
      | apply Safe.bind
      | apply Safe.ite
      | split
      | intro _))

/-! ### Equational characterisations of the primitives (to read path conditions) -/

theorem bind_apply {α β} (m : H α) (f : α → H β) (c : Ctx) :
    (m >>= f) c = match m c with
      | (.ok a, c') => f a c'
      | (.stop s, c') => (.stop s, c') := rfl
theorem pure_apply {α} (a : α) (c : Ctx) : (pure a : H α) c = (.ok a, c) := rfl

/-- The fault oracle's answer for the next backend call. -/
def oracle (c : Ctx) : Option ErrKind :=
  match c.fault with
  | some f => if f.idx = c.calls then some f.kind else none
  | none => none

def tick (c : Ctx) : Ctx := { c with calls := c.calls + 1 }

theorem backend_eq (c : Ctx) : backend c = (.ok (oracle c), tick c) := rfl

theorem get_ok {c a c'} (h : M.get c = (Res.ok a, c')) : c = a ∧ c = c' := by
  simp [M.get] at h; exact ⟨h.1, h.2⟩

theorem load_eq (pid : Bytes) (c : Ctx) : M.load pid c =
    (match oracle c with
     | some .notFound => (.ok .notFound, tick c)
     | some _ => (.ok .error, tick c)
     | none => match c.store.find pid with
       | some u => (.ok (.found u), tick c)
       | none => (.ok .notFound, tick c)) := by
  unfold M.load
  rw [bind_apply, backend_eq]
  generalize oracle c = r
  cases r with
  | some k => cases k <;> rfl
  | none =>
    show (M.get >>= fun c' => match c'.store.find pid with
          | some u => pure (LoadRes.found u)
          | none => pure LoadRes.notFound) (tick c) = _
    rw [bind_apply]
    show (match (tick c).store.find pid with
          | some u => (pure (LoadRes.found u) : H LoadRes)
          | none => pure LoadRes.notFound) (tick c) = _
    have : (tick c).store = c.store := rfl
    rw [this]
    cases c.store.find pid <;> rfl

/-- A successful `Load` returns exactly what storage holds (and changes nothing but the
call counter). -/
theorem load_found {pid c u c'} (h : M.load pid c = (Res.ok (LoadRes.found u), c')) :
    c.store.find pid = some u ∧ c' = tick c := by
  rw [load_eq] at h
  generalize oracle c = r at h
  cases r with
  | some k => cases k <;> simp at h
  | none =>
    cases hf : c.store.find pid with
    | none => simp [hf] at h
    | some u' => simp [hf] at h; exact ⟨by rw [h.1], h.2.symm⟩

theorem load_store {pid c r c'} (h : M.load pid c = (Res.ok r, c')) : c' = tick c := by
  rw [load_eq] at h
  generalize oracle c = o at h
  cases o with
  | some k => cases k <;> simp at h <;> exact h.2.symm
  | none => cases hf : c.store.find pid <;> simp [hf] at h <;> exact h.2.symm

/-! ### auth.LoginPost -/

def LicLogin (c0 : Ctx) (U : Bytes) : Prop :=
  U = c0.req.pid ∧ ∃ u, c0.store.find U = some u ∧ u.pw = c0.req.pw ∧ u.pw ≠ []

theorem authLogin_safe (c0 : Ctx) : Safe (LicLogin c0) authLoginPost c0 := by
  unfold authLoginPost
  safe_auto
  obtain ⟨rfl, rfl⟩ := get_ok (by assumption)
  have hf := (load_found (by assumption)).1
  have hpw := ‹¬(List.isEmpty _ || _ != c0.req.pw) = true›
  unfold Lic LicLogin
  refine ⟨rfl, _, hf, ?_, ?_⟩
  · simp at hpw; exact hpw.2
  · simp at hpw; intro h; simp [h] at hpw

theorem findIdx_mem {l : List Bytes} {x : Bytes} {i : Nat}
    (h : List.findIdx? (fun y => y == x) l = some i) : x ∈ l := by
  induction l generalizing i with
  | nil => simp at h
  | cons a l ih =>
    simp only [List.findIdx?_cons] at h
    split at h
    · rename_i heq; simp at heq; simp [heq]
    · simp at h; obtain ⟨j, hj, _⟩ := h; exact List.mem_cons_of_mem _ (ih hj)

/-! ### otp.LoginPost -/

def LicOtp (c0 : Ctx) (U : Bytes) : Prop :=
  U = c0.req.pid ∧ ∃ u, c0.store.find U = some u ∧ c0.req.pw ∈ u.otps

set_option maxHeartbeats 2000000 in
theorem otpLogin_safe (c0 : Ctx) : Safe (LicOtp c0) otpLoginPost c0 := by
  unfold otpLoginPost
  safe_auto
  obtain ⟨rfl, rfl⟩ := get_ok (by assumption)
  have hf := (load_found (by assumption)).1
  have hi := ‹List.findIdx? _ _ = some _›
  unfold Lic LicOtp
  exact ⟨rfl, _, hf, findIdx_mem hi⟩

/-! ### register.Post -/

theorem tick_store (c : Ctx) : (tick c).store = c.store := rfl
theorem tick_req (c : Ctx) : (tick c).req = c.req := rfl
theorem tick_sess (c : Ctx) : (tick c).sess = c.sess := rfl

theorem hash_ok {c b c'} (h : M.hash c = (Res.ok b, c')) : c' = tick c := by
  unfold M.hash at h
  rw [bind_apply, backend_eq] at h
  generalize oracle c = o at h
  cases o <;> simp [pure_apply] at h <;> exact h.2.symm

theorem createUser_created {u c c'} (h : createUser u c = (Res.ok (some true), c')) :
    c.store.find u.pid = none := by
  unfold createUser at h
  rw [bind_apply, backend_eq] at h
  generalize oracle c = o at h
  cases o with
  | some k => cases k <;> simp [pure_apply] at h
  | none =>
    simp only [bind_apply, M.get] at h
    have : (tick c).store = c.store := rfl
    rw [this] at h
    cases hf : c.store.find u.pid with
    | none => rfl
    | some x => simp [hf, pure_apply] at h

def LicRegister (c0 : Ctx) (U : Bytes) : Prop :=
  U = c0.req.pid ∧ c0.store.find U = none ∧ c0.req.valid = true

set_option maxHeartbeats 2000000 in
theorem register_safe (c0 : Ctx) : Safe (LicRegister c0) registerPost c0 := by
  unfold registerPost
  safe_auto
  obtain ⟨rfl, rfl⟩ := get_ok (by assumption)
  have hh := hash_ok ‹M.hash _ = _›
  subst hh
  have hc := createUser_created ‹createUser _ _ = _›
  have hv := ‹¬(!c0.req.valid) = true›
  unfold Lic LicRegister
  refine ⟨rfl, ?_, ?_⟩
  · simpa [tick_store] using hc
  · simpa using hv

/-! ### recover.EndPost -/

/-- The selector lookup of `LoadByRecoverSelector` / `LoadByConfirmSelector`. -/
def LicRecover (c0 : Ctx) (U : Bytes) : Prop :=
  c0.cfg.recoverLogin = true ∧ c0.req.valid = true ∧
  ∃ raw u, c0.req.token = some raw ∧ raw.length = tokenSize ∧ u ∈ c0.store.users ∧ u.pid = U ∧
    u.recoverSel = some (raw.take 32) ∧ u.recoverVer = some (raw.drop 32) ∧ ¬ (c0.now > u.recoverExpiry)

set_option maxHeartbeats 4000000 in
theorem recoverEnd_safe (c0 : Ctx) : Safe (LicRecover c0) recoverEndPost c0 := by
  unfold recoverEndPost
  safe_auto
  obtain ⟨rfl, rfl⟩ := get_ok (by assumption)
  have hfind := ‹List.find? _ c0.store.users = some _›
  have htok := ‹c0.req.token = some _›
  have hlen := ‹¬(List.length _ != tokenSize) = true›
  have hv := ‹¬(!c0.req.valid) = true›
  have hexp := ‹¬c0.now > _›
  have hver := ‹¬(_ != some (List.drop 32 _)) = true›
  unfold Lic LicRecover
  refine ⟨‹_›, by simpa using hv, _, _, htok, by simpa using hlen, List.mem_of_find?_eq_some hfind, rfl, ?_, ?_, hexp⟩
  · have := List.find?_some hfind; simpa using this
  · simpa using hver

end AuthbossModel.M
