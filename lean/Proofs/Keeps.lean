/-
  `Keeps R h`: running `h` relates the context before and after by `R` (a preorder).
  Instantiated with `MwReach` — what the remember / expire middlewares may change before
  the route handler runs.
-/
import Proofs.SafeTop

namespace AuthbossModel.M

/-- What the middlewares in front of a route handler leave alone: the request, the
configuration, the clock, every user record; apart from the half-auth mark (which the remember
middleware adds for the request it authenticates) the session view can only shrink. -/
def MwReach (c c' : Ctx) : Prop :=
  c'.req = c.req ∧ c'.cfg = c.cfg ∧ c'.now = c.now ∧ c'.store.users = c.store.users ∧
  (∀ k v, k ≠ SKey.halfauth → c'.sess.get k = some v → c.sess.get k = some v)

theorem MwReach.refl (c : Ctx) : MwReach c c := ⟨rfl, rfl, rfl, rfl, fun _ _ _ h => h⟩
theorem MwReach.trans {a b c : Ctx} (h1 : MwReach a b) (h2 : MwReach b c) : MwReach a c :=
  ⟨h2.1.trans h1.1, h2.2.1.trans h1.2.1, h2.2.2.1.trans h1.2.2.1, h2.2.2.2.1.trans h1.2.2.2.1,
   fun k v hk h => h1.2.2.2.2 k v hk (h2.2.2.2.2 k v hk h)⟩

def Keeps {α} (h : H α) : Prop := ∀ c, MwReach c (h c).2

theorem Keeps.pure {α} (a : α) : Keeps (pure a : H α) := fun c => MwReach.refl c
theorem Keeps.get : Keeps M.get := fun c => MwReach.refl c
theorem Keeps.stop {α} (s) : Keeps (M.stop s : H α) := fun c => MwReach.refl c
theorem Keeps.fail {α} (e) : Keeps (M.fail e : H α) := fun c => MwReach.refl c
theorem Keeps.backend : Keeps M.backend := fun c => ⟨rfl, rfl, rfl, rfl, fun _ _ _ h => h⟩
theorem Keeps.modify (f : Ctx → Ctx) (hf : ∀ c, MwReach c (f c)) : Keeps (M.modify f) := fun c => hf c

theorem Keeps.bind {α β} {m : H α} {f : α → H β} (hm : Keeps m) (hf : ∀ a, Keeps (f a)) :
    Keeps (m >>= f) := by
  intro c
  rw [bind_apply]
  have h1 := hm c
  generalize m c = r at h1 ⊢
  obtain ⟨res, c'⟩ := r
  cases res with
  | ok a => exact MwReach.trans h1 (hf a c')
  | stop s => exact h1

theorem Keeps.ite {α} {b : Prop} [Decidable b] {x y : H α} (hx : Keeps x) (hy : Keeps y) :
    Keeps (if b then x else y) := by
  by_cases h : b <;> simp [h] <;> assumption

theorem Keeps.swallowErr {h : H PUnit} (hf : Keeps h) : Keeps (M.swallowErr h) := by
  intro c
  have := hf c
  unfold M.swallowErr
  generalize h c = r at this ⊢
  obtain ⟨res, c'⟩ := r
  cases res with
  | ok a => exact this
  | stop s => cases s <;> exact this

theorem find_filter_key_none (j : Jar) (q : SKey → Bool) (k : SKey) (hq : q k = false) :
    (j.filter (fun x => q x.1)).find? (fun x => x.1 == k) = none := by
  induction j with
  | nil => rfl
  | cons x xs ih =>
    by_cases hp : q x.1 = true
    · have hne : (x.1 == k) = false := by
        cases hk : (x.1 == k)
        · rfl
        · have : x.1 = k := by simpa using hk
          rw [this] at hp; rw [hp] at hq; cases hq
      simp [List.filter_cons, hp, List.find?_cons, hne, ih]
    · simp [List.filter_cons, hp, ih]

/-- Restricting a jar by a predicate on the *key* can only remove entries. -/
theorem filter_get {j : Jar} {q : SKey → Bool} {k : SKey} {v : Bytes}
    (h : Jar.get (j.filter (fun x => q x.1)) k = some v) : Jar.get j k = some v := by
  unfold Jar.get at h ⊢
  induction j with
  | nil => simp at h
  | cons x xs ih =>
    by_cases hk : (x.1 == k) = true
    · have hxk : x.1 = k := by simpa using hk
      by_cases hp : q x.1 = true
      · simpa [List.filter_cons, hp, List.find?_cons, hk] using h
      · have hqk : q k = false := by rw [← hxk]; simpa using hp
        have := find_filter_key_none xs q k hqk
        simp [List.filter_cons, hp, this] at h
    · by_cases hp : q x.1 = true
      · simp only [List.filter_cons, hp, if_true, List.find?_cons, hk] at h ⊢
        exact ih h
      · simp only [List.filter_cons, hp, List.find?_cons, hk] at h ⊢
        exact ih (by simpa using h)

/-! ### Jar lemmas -/

theorem Jar.get_append (j1 j2 : Jar) (k : SKey) :
    Jar.get (j1 ++ j2) k = (Jar.get j1 k).or (Jar.get j2 k) := by
  unfold Jar.get
  rw [List.find?_append]
  cases List.find? (fun x => x.1 == k) j1 <;> simp

theorem Jar.get_del_sub {j : Jar} {k k' : SKey} {v : Bytes} (h : (j.del k).get k' = some v) :
    j.get k' = some v := by
  unfold Jar.del at h
  exact filter_get (q := fun x => x != k) h

theorem Jar.get_delAll_sub {j : Jar} {wl : List SKey} {k' : SKey} {v : Bytes}
    (h : (j.delAll wl).get k' = some v) : j.get k' = some v := by
  unfold Jar.delAll at h
  exact filter_get (q := fun x => wl.contains x) h

theorem Jar.get_del_self (j : Jar) (k : SKey) : (j.del k).get k = none := by
  unfold Jar.del Jar.get
  have := find_filter_key_none j (fun x => x != k) k (by simp)
  simp [this]

theorem Jar.get_put {j : Jar} {k k' : SKey} {v v' : Bytes} (h : (j.put k v).get k' = some v') :
    (k' = k ∧ v' = v) ∨ (k' ≠ k ∧ j.get k' = some v') := by
  unfold Jar.put at h
  rw [Jar.get_append] at h
  by_cases hk : k' = k
  · subst hk
    rw [Jar.get_del_self] at h
    left; refine ⟨rfl, ?_⟩
    simp [Jar.get] at h; exact h.symm
  · right; refine ⟨hk, ?_⟩
    cases hd : (j.del k).get k' with
    | some x =>
      rw [hd] at h; simp at h; subst h; exact Jar.get_del_sub hd
    | none =>
      rw [hd] at h
      simp [Jar.get] at h
      exact absurd h.1.symm hk


/-! ### The middlewares -/

syntax "keeps_auto" : tactic
macro_rules
  | `(tactic| keeps_auto) => `(tactic|
    repeat' (first
      | exact Keeps.pure _ | exact Keeps.get | exact Keeps.stop _ | exact Keeps.fail _ | exact Keeps.backend
      | assumption
      | (apply Keeps.modify; intro c; exact ⟨rfl, rfl, rfl, rfl, fun _ _ _ h => h⟩)
      | apply Keeps.swallowErr
      | apply Keeps.ite
      | apply Keeps.bind
      | split
      | intro _))

attribute [local irreducible] Keeps

theorem Keeps.act (a) : Keeps (M.act a) := by unfold M.act; keeps_auto
theorem Keeps.logf (f a) : Keeps (M.logf f a) := by unfold M.logf; keeps_auto
theorem Keeps.putS (k v) : Keeps (M.putS k v) := Keeps.act _
theorem Keeps.delS (k) : Keeps (M.delS k) := Keeps.act _
theorem Keeps.delAllS (k) : Keeps (M.delAllS k) := Keeps.act _
theorem Keeps.putRm (k) : Keeps (M.putRm k) := Keeps.act _
theorem Keeps.delRm : Keeps M.delRm := Keeps.act _
theorem Keeps.currentUserID : Keeps M.currentUserID := by unfold M.currentUserID; keeps_auto
theorem Keeps.useToken (p r) : Keeps (M.useToken p r) := by
  unfold M.useToken; keeps_auto
theorem Keeps.refreshExpiry : Keeps M.refreshExpiry := by
  unfold M.refreshExpiry; have := Keeps.putS; keeps_auto

theorem Keeps.rememberAuthenticate : Keeps M.rememberAuthenticate := by
  unfold M.rememberAuthenticate
  have := Keeps.delRm; have := Keeps.logf; have := Keeps.useToken; have := Keeps.putS; have := Keeps.putRm
  repeat' (first
    | (apply Keeps.modify; intro c
       refine ⟨rfl, rfl, rfl, rfl, fun k v hk h => ?_⟩
       rcases Jar.get_put h with ⟨h1, _⟩ | ⟨_, h2⟩
       · exact absurd h1 hk
       · exact h2)
    | keeps_auto)

theorem Keeps.rememberMW : Keeps M.rememberMW := by
  unfold M.rememberMW
  have := Keeps.currentUserID; have := Keeps.rememberAuthenticate
  keeps_auto

theorem Keeps.expireMW : Keeps M.expireMW := by
  unfold M.expireMW
  have := Keeps.delAllS; have := Keeps.delS; have := Keeps.refreshExpiry
  apply Keeps.bind Keeps.get; intro c
  apply Keeps.ite
  · apply Keeps.ite
    · apply Keeps.bind (Keeps.delAllS _); intro _
      apply Keeps.bind (Keeps.delS _); intro _
      apply Keeps.bind (Keeps.delS _); intro _
      apply Keeps.modify
      intro c'
      exact ⟨rfl, rfl, rfl, rfl, fun k v _ h => filter_get (q := fun k => c'.cfg.whitelist.contains k) h⟩
    · exact Keeps.refreshExpiry
  · exact Keeps.pure _

end AuthbossModel.M
