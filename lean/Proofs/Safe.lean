/-
  A small program logic for the handler monad, specialised to one question:
  *where can a `PutSession(SessionKey, …)` come from?*

  `Safe P h c` : every user id that `h`, started in context `c`, adds to the pending
  session writes either was already pending in `c` or satisfies `P`.
-/
import AuthbossModel.Machine.Step

namespace AuthbossModel.M

/-- The user ids written to the session key `uid` by a list of acts. -/
def uidPuts (acts : List Act) : List Bytes :=
  acts.filterMap fun a => match a with
    | .sess (.put .uid v) => some v
    | _ => none

@[simp] theorem uidPuts_append (a b : List Act) : uidPuts (a ++ b) = uidPuts a ++ uidPuts b := by
  simp [uidPuts, List.filterMap_append]

def Safe {α} (P : Bytes → Prop) (h : H α) (c : Ctx) : Prop :=
  ∀ U ∈ uidPuts (h c).2.acts, U ∈ uidPuts c.acts ∨ P U

/-- `h` never changes the pending acts' uid writes at all (frame property). -/
def Frame {α} (h : H α) : Prop := ∀ c, uidPuts (h c).2.acts = uidPuts c.acts

theorem Frame.safe {α} {h : H α} (hf : Frame h) (P) (c) : Safe P h c := by
  intro U hU; left; rw [hf c] at hU; exact hU

theorem Safe.pure {α} (P) (a : α) (c) : Safe P (pure a : H α) c := by
  intro U hU; left; exact hU

theorem Safe.bind {α β} {P} {m : H α} {f : α → H β} {c : Ctx}
    (hm : Safe P m c)
    (hf : ∀ a c', m c = (.ok a, c') → Safe P (f a) c') :
    Safe P (m >>= f) c := by
  intro U hU
  show U ∈ uidPuts c.acts ∨ P U
  have hb : (m >>= f) c = match m c with
      | (.ok a, c') => f a c'
      | (.stop s, c') => (.stop s, c') := rfl
  rw [hb] at hU
  generalize hmc : m c = r at hU hm hf
  obtain ⟨res, c'⟩ := r
  cases res with
  | ok a =>
    have h1 := hf a c' rfl U hU
    rcases h1 with h1 | h1
    · have := hm U (by simpa [hmc] using h1)
      exact this
    · exact Or.inr h1
  | stop s =>
    exact hm U (by simpa [hmc] using hU)

theorem Safe.ite {α} {P} {b : Prop} [Decidable b] {x y : H α} {c}
    (hx : b → Safe P x c) (hy : ¬b → Safe P y c) : Safe P (if b then x else y) c := by
  by_cases h : b
  · simp only [h, if_true]; exact hx h
  · simp only [h, if_false]; exact hy h

theorem Safe.putUid {P} {pid : Bytes} {c} (h : P pid) : Safe P (putS .uid pid) c := by
  intro U hU
  simp [putS, act, modify, uidPuts] at hU
  rcases hU with hU | hU
  · left; simpa [uidPuts] using hU
  · right; rw [hU]; exact h

/-! ### Frame lemmas for the primitives -/

theorem Frame.pure {α} (a : α) : Frame (pure a : H α) := fun _ => rfl
theorem Frame.get : Frame get := fun _ => rfl
theorem Frame.stop {α} (s) : Frame (stop s : H α) := fun _ => rfl
theorem Frame.fail {α} (e) : Frame (fail e : H α) := fun _ => rfl
theorem Frame.modify (f : Ctx → Ctx) (hf : ∀ c, (f c).acts = c.acts) : Frame (modify f) := by
  intro c; simp [M.modify, hf]
theorem Frame.logf (f a) : Frame (logf f a) := Frame.modify _ (fun _ => rfl)
theorem Frame.setCtxUser (u) : Frame (setCtxUser u) := Frame.modify _ (fun _ => rfl)
theorem Frame.writeBack (u) : Frame (writeBack u) := by
  apply Frame.modify; intro c; cases c.ctxUser <;> rfl

theorem Frame.bind {α β} {m : H α} {f : α → H β} (hm : Frame m) (hf : ∀ a, Frame (f a)) :
    Frame (m >>= f) := by
  intro c
  have hb : (m >>= f) c = match m c with
      | (.ok a, c') => f a c'
      | (.stop s, c') => (.stop s, c') := rfl
  rw [hb]
  generalize hmc : m c = r
  obtain ⟨res, c'⟩ := r
  have h1 := hm c
  rw [hmc] at h1
  cases res with
  | ok a => simp only; rw [hf a c', h1]
  | stop s => exact h1

theorem Frame.act_notUid (a : Act) (h : ∀ v, a ≠ .sess (.put .uid v)) : Frame (act a) := by
  intro c
  simp only [act, M.modify, uidPuts_append]
  suffices uidPuts [a] = [] by simp [this]
  cases a with
  | sess e =>
    cases e with
    | put k v =>
      cases k <;> first | (exact absurd rfl (h v)) | rfl
    | del k => rfl
    | delAll wl => rfl
  | cook e => rfl
  | respond r => rfl

theorem Frame.delS (k) : Frame (delS k) := Frame.act_notUid _ (by intro v h; cases h)
theorem Frame.delAllS (wl) : Frame (delAllS wl) := Frame.act_notUid _ (by intro v h; cases h)
theorem Frame.putRm (v) : Frame (putRm v) := Frame.act_notUid _ (by intro v h; cases h)
theorem Frame.delRm : Frame delRm := Frame.act_notUid _ (by intro v h; cases h)
theorem Frame.status (n) : Frame (status n) := Frame.act_notUid _ (by intro v h; cases h)
theorem Frame.putS_ne (k v) (hk : k ≠ .uid) : Frame (putS k v) :=
  Frame.act_notUid _ (by intro v' h; injection h with h; injection h with h1 _; exact hk h1)
theorem Frame.respondAct (r) : Frame (act (.respond r)) := Frame.act_notUid _ (by intro v h; cases h)

theorem Frame.backend : Frame backend := fun _ => rfl

theorem Frame.ite {α} {b : Prop} [Decidable b] {x y : H α} (hx : Frame x) (hy : Frame y) :
    Frame (if b then x else y) := by
  by_cases h : b <;> simp [h] <;> assumption

end AuthbossModel.M
