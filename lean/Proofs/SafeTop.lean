/- Safe theorems, part 3: remember middleware, the frame of every other route, dispatch, serve. -/
import Proofs.SafeHandlers2

namespace AuthbossModel.M
attribute [local irreducible] Frame Lic Safe

theorem useToken_true {pid raw c c'} (h : useToken pid raw c = (Res.ok (some true), c')) :
    (pid, raw) ∈ c.store.tokens := by
  unfold useToken at h
  rw [bind_apply, backend_eq] at h
  generalize oracle c = o at h
  cases o with
  | some k => cases k <;> simp [pure_apply] at h
  | none =>
    simp only [bind_apply, M.get] at h
    have : (tick c).store = c.store := rfl
    rw [this] at h
    by_cases hc : (pid, raw) ∈ c.store.tokens
    · exact hc
    · simp only [List.contains_eq_mem, decide_eq_true_eq, hc, if_false] at h
      simp [pure_apply] at h

def LicRemember (c0 : Ctx) (U : Bytes) : Prop :=
  ∃ raw, c0.rm = some (.raw raw) ∧ rememberPid raw = some U ∧ (U, raw) ∈ c0.store.tokens

set_option maxHeartbeats 4000000 in
theorem rememberAuthenticate_safe (c0 : Ctx) : Safe (LicRemember c0) rememberAuthenticate c0 := by
  unfold rememberAuthenticate
  safe_auto
  obtain ⟨rfl, rfl⟩ := get_ok (by assumption)
  have h1 := ‹c0.rm = some (Cookie.raw _)›
  have h2 := ‹rememberPid _ = some _›
  have h3 := useToken_true ‹useToken _ _ c0 = _›
  unfold Lic LicRemember
  exact ⟨_, h1, h2, h3⟩

end AuthbossModel.M
