/- From pending acts to the browser's jar: the session's `uid` can only become `U` through
a pending `put uid U`. -/
import Proofs.Serve

namespace AuthbossModel.M

theorem applyActs_uid (acts : List Act) (br : Browser) (U : Bytes)
    (h : (applyActs br acts).sess.get .uid = some U) :
    br.sess.get .uid = some U ∨ U ∈ uidPuts acts := by
  induction acts generalizing br with
  | nil => left; exact h
  | cons a rest ih =>
    unfold applyActs at h
    simp only [List.foldl_cons] at h
    have := ih _ h
    rcases this with h1 | h1
    · cases a with
      | sess e =>
        cases e with
        | put k v =>
          simp only [Jar.apply] at h1
          rcases Jar.get_put h1 with ⟨hk, hv⟩ | ⟨_, hg⟩
          · right; subst hk; subst hv; simp [uidPuts]
          · left; exact hg
        | del k => left; exact Jar.get_del_sub h1
        | delAll wl => left; exact Jar.get_delAll_sub h1
      | cook e => left; exact h1
      | respond r => left; exact h1
    · right
      simp only [uidPuts, List.filterMap_cons] at h1 ⊢
      split <;> simp_all

theorem uidPuts_sublist {a b : List Act} (h : a.Sublist b) : ∀ U ∈ uidPuts a, U ∈ uidPuts b := by
  intro U hU
  exact (List.Sublist.filterMap _ h).subset hU

theorem setBrowser_browser (s : State) (b : Bytes) (br : Browser) : (s.setBrowser b br).browser b = br := by
  unfold State.setBrowser State.browser
  simp only
  rw [List.find?_append]
  have : List.find? (fun x => x.1 == b) (List.filter (fun x => x.1 != b) s.browsers) = none := by
    apply List.find?_eq_none.mpr
    intro x hx
    simp only [List.mem_filter] at hx
    simpa using hx.2
  simp [this]

theorem setBrowser_other (s : State) (b b' : Bytes) (br : Browser) (h : b' ≠ b) :
    (s.setBrowser b br).browser b' = s.browser b' := by
  unfold State.setBrowser State.browser
  simp only
  rw [List.find?_append]
  have h1 : List.find? (fun x => x.1 == b') (List.filter (fun x => x.1 != b) s.browsers)
      = List.find? (fun x => x.1 == b') s.browsers := by
    induction s.browsers with
    | nil => rfl
    | cons x xs ih =>
      by_cases hx : x.1 = b
      · have : (x.1 == b') = false := by
          cases hq : (x.1 == b')
          · rfl
          · exact absurd ((by simpa using hq : x.1 = b').symm.trans hx) h
        have hb : (b == b') = false := by rw [← hx]; exact this
        simp [List.filter_cons, hx, List.find?_cons, hb, ih]
      · simp only [List.filter_cons, bne_iff_ne, ne_eq, hx, not_false_eq_true, decide_true, if_true, List.find?_cons]
        rw [ih]
  rw [h1]
  cases hf : List.find? (fun x => x.1 == b') s.browsers with
  | some x => simp
  | none =>
    have : ((b, br).1 == b') = false := by
      cases hq : (b == b')
      · rfl
      · exact absurd ((by simpa using hq : b = b').symm) h
    simp [List.find?_cons, this]

/-- **Step theorem.** If serving one request makes the browser's session name `U` (and it
did not before), the request was licensed for `U`. -/
theorem stepHttp_uid (cfg : Config) (s : State) (b : Bytes) (rt : Route) (req : Req) (fault : Option Fault)
    (U : Bytes)
    (hnew : ((stepHttp cfg s b rt req fault).1.browser b).sess.get .uid = some U)
    (hold : (s.browser b).sess.get .uid ≠ some U) :
    ServeLic rt (initCtx cfg s b req fault) U := by
  unfold stepHttp at hnew
  simp only at hnew
  have hacts0 : uidPuts (initCtx cfg s b req fault).acts = [] := rfl
  generalize initCtx cfg s b req fault = c0 at hnew hacts0 ⊢
  have hsafe := serve_safe rt c0
  unfold Safe at hsafe
  generalize hsv : serve rt c0 = r at hnew hsafe
  obtain ⟨res, c⟩ := r
  simp only [setBrowser_browser] at hnew
  -- the acts that reach the jar
  have key : ∀ acts, uidPuts acts = uidPuts c.acts →
      ((if (firstResp acts).isSome then applyActs (s.browser b) (effective acts) else s.browser b).sess.get .uid = some U) →
      ServeLic rt c0 U := by
    intro acts hu hj
    by_cases hw : (firstResp acts).isSome = true
    · simp only [hw, if_true] at hj
      rcases applyActs_uid _ _ _ hj with h1 | h1
      · exact absurd h1 hold
      · have h2 : U ∈ uidPuts acts :=
          uidPuts_sublist (List.takeWhile_sublist _) U h1
        rw [hu] at h2
        have := hsafe U (by simpa using h2)
        rcases this with h3 | h3
        · rw [hacts0] at h3; cases h3
        · exact h3
    · simp only [hw] at hj
      exact absurd hj hold
  cases res with
  | ok a => exact key c.acts rfl (by simpa using hnew)
  | stop st =>
    cases st with
    | done => exact key c.acts rfl (by simpa using hnew)
    | panic e => exact key c.acts rfl (by simpa using hnew)
    | err e =>
      by_cases h5 : cfg.err500 = true
      · exact key (c.acts ++ [.respond (.status 500)]) (by simp [uidPuts]) (by simpa [h5] using hnew)
      · exact key c.acts rfl (by simpa [h5] using hnew)

/-- A request from browser `b` leaves every other browser's client state alone. -/
theorem stepHttp_other (cfg : Config) (s : State) (b b' : Bytes) (rt : Route) (req : Req) (fault : Option Fault)
    (h : b' ≠ b) : (stepHttp cfg s b rt req fault).1.browser b' = s.browser b' := by
  unfold stepHttp
  simp only
  rw [setBrowser_other _ _ _ _ h]
  rfl

end AuthbossModel.M
