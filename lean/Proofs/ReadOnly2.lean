import Proofs.ReadOnly
import Proofs.Veto
namespace AuthbossModel.M

theorem RO.logf (f a) : RO (M.logf f a) := RO.modify _ (fun _ => ⟨rfl, rfl, rfl⟩)
theorem RO.setCtxUser (u) : RO (M.setCtxUser u) := RO.modify _ (fun _ => ⟨rfl, rfl, rfl⟩)
theorem RO.writeBack (u) : RO (M.writeBack u) := by
  apply RO.modify; intro c; cases c.ctxUser <;> exact ⟨rfl, rfl, rfl⟩
theorem RO.render : RO M.render := by unfold M.render; ro_auto
theorem RO.hash : RO M.hash := by unfold M.hash; ro_auto

syntax "ro_all" : tactic
macro_rules
  | `(tactic| ro_all) => `(tactic|
    repeat' (first
      | exact RO.pure _ | exact RO.get | exact RO.stop _ | exact RO.fail _ | exact RO.backend | exact RO.act _
      | exact RO.logf _ _ | exact RO.setCtxUser _ | exact RO.writeBack _ | exact RO.render | exact RO.hash
      | exact RO.load _ | exact RO.save _ | exact RO.currentUser | exact RO.currentUserID
      | (apply RO.modify; intro _; exact ⟨rfl, rfl, rfl⟩)
      | assumption
      | apply RO.ite | apply RO.bind | split | intro _))

theorem RO.redirect (p ok f fl) : RO (M.redirect p ok f fl) := by unfold M.redirect; ro_all
theorem RO.sendMail (to k t) : RO (M.sendMail to k t) := by unfold M.sendMail; ro_all
theorem RO.lockUpdate (w b) : RO (M.lockUpdate w b) := by
  unfold M.lockUpdate; repeat' (first | exact RO.redirect _ _ _ _ | ro_all)
theorem RO.lockSuccess (b) : RO (M.lockSuccess b) := by unfold M.lockSuccess; ro_all
theorem RO.confirmPrevent (b) : RO (M.confirmPrevent b) := by
  unfold M.confirmPrevent; repeat' (first | exact RO.redirect _ _ _ _ | ro_all)
theorem RO.startConfirmation (u) : RO (M.startConfirmation u) := by
  unfold M.startConfirmation; repeat' (first | exact RO.sendMail _ _ _ | ro_all)
theorem RO.confirmStartWeb (b) : RO (M.confirmStartWeb b) := by
  unfold M.confirmStartWeb; repeat' (first | exact RO.redirect _ _ _ _ | exact RO.startConfirmation _ | ro_all)
theorem RO.rememberAfterAuth (b) : RO (M.rememberAfterAuth b) := by unfold M.rememberAfterAuth; ro_all
theorem RO.rememberAfterReset (b) : RO (M.rememberAfterReset b) := by unfold M.rememberAfterReset; ro_all
theorem RO.refreshExpiry : RO M.refreshExpiry := by unfold M.refreshExpiry; ro_all
theorem RO.expireAfterAuth (b) : RO (M.expireAfterAuth b) := by
  unfold M.expireAfterAuth; have := RO.refreshExpiry; ro_all
theorem RO.smsSendCode (p n) : RO (M.smsSendCode p n) := by unfold M.smsSendCode; ro_all
theorem RO.totpHijack (b) : RO (M.totpHijack b) := by
  unfold M.totpHijack; repeat' (first | exact RO.redirect _ _ _ _ | ro_all)
theorem RO.smsHijack (b) : RO (M.smsHijack b) := by
  unfold M.smsHijack; repeat' (first | exact RO.redirect _ _ _ _ | exact RO.smsSendCode _ _ | ro_all)

theorem RO.callHandlers (hs : List EvHandler) (hh : ∀ h ∈ hs, ∀ b, RO (h b)) (b : Bool) : RO (M.callHandlers hs b) := by
  induction hs generalizing b with
  | nil => exact RO.pure _
  | cons h hs ih =>
    unfold M.callHandlers
    exact RO.bind (hh h (by simp) b) (fun i => ih (fun h' hm => hh h' (by simp [hm])) _)

theorem handler_ro (u : Unit) (e : Ev) : (∀ h ∈ u.before e, ∀ b, RO (h b)) ∧ (∀ h ∈ u.after e, ∀ b, RO (h b)) := by
  constructor
  · intro h hm b
    unfold Unit.before at hm
    split at hm <;> simp at hm <;> subst hm
    · exact RO.lockUpdate _ _
    · exact RO.lockUpdate _ _
    · exact RO.confirmPrevent _
    · exact RO.totpHijack _
    · exact RO.smsHijack _
  · intro h hm b
    unfold Unit.after at hm
    split at hm <;> simp at hm <;> subst hm
    · exact RO.lockSuccess _
    · exact RO.lockUpdate _ _
    · exact RO.confirmStartWeb _
    · exact RO.rememberAfterAuth _
    · exact RO.rememberAfterAuth _
    · exact RO.rememberAfterReset _
    · exact RO.expireAfterAuth _
    · exact RO.expireAfterAuth _
    · exact RO.expireAfterAuth _

theorem RO.fireBefore (e : Ev) : RO (M.fireBefore e) := by
  unfold M.fireBefore
  apply RO.bind RO.get; intro c
  apply RO.callHandlers
  intro h hm b
  obtain ⟨u, _, hu⟩ := List.mem_flatMap.mp hm
  exact (handler_ro u e).1 h hu b

theorem RO.fireAfter (e : Ev) : RO (M.fireAfter e) := by
  unfold M.fireAfter
  apply RO.bind RO.get; intro c
  apply RO.callHandlers
  intro h hm b
  obtain ⟨u, _, hu⟩ := List.mem_flatMap.mp hm
  exact (handler_ro u e).2 h hu b

end AuthbossModel.M
