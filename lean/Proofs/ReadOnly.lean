/-
  `RO h`: the handler `h` never changes the request, the configuration or the clock of the
  context it runs in.  (Same structural discipline as `Frame`.)
-/
import Proofs.SafeHandlers

namespace AuthbossModel.M

def RO {α} (h : H α) : Prop := ∀ c, (h c).2.req = c.req ∧ (h c).2.cfg = c.cfg ∧ (h c).2.now = c.now

theorem RO.pure {α} (a : α) : RO (pure a : H α) := fun _ => ⟨rfl, rfl, rfl⟩
theorem RO.get : RO get := fun _ => ⟨rfl, rfl, rfl⟩
theorem RO.stop {α} (s) : RO (stop s : H α) := fun _ => ⟨rfl, rfl, rfl⟩
theorem RO.fail {α} (e) : RO (fail e : H α) := fun _ => ⟨rfl, rfl, rfl⟩
theorem RO.backend : RO backend := fun _ => ⟨rfl, rfl, rfl⟩
theorem RO.modify (f : Ctx → Ctx) (hf : ∀ c, (f c).req = c.req ∧ (f c).cfg = c.cfg ∧ (f c).now = c.now) :
    RO (modify f) := fun c => hf c
theorem RO.act (a : Act) : RO (act a) := RO.modify _ (fun _ => ⟨rfl, rfl, rfl⟩)

theorem RO.bind {α β} {m : H α} {f : α → H β} (hm : RO m) (hf : ∀ a, RO (f a)) : RO (m >>= f) := by
  intro c
  have hb : (m >>= f) c = match m c with
      | (.ok a, c') => f a c'
      | (.stop s, c') => (.stop s, c') := rfl
  rw [hb]
  generalize hmc : m c = r
  obtain ⟨res, c'⟩ := r
  have h1 := hm c
  rw [hmc] at h1
  cases res with
  | ok a =>
    simp only
    have h2 := hf a c'
    exact ⟨h2.1.trans h1.1, h2.2.1.trans h1.2.1, h2.2.2.trans h1.2.2⟩
  | stop s => exact h1

theorem RO.ite {α} {b : Prop} [Decidable b] {x y : H α} (hx : RO x) (hy : RO y) :
    RO (if b then x else y) := by
  by_cases h : b <;> simp [h] <;> assumption

syntax "ro_auto" : tactic
macro_rules
  | `(tactic| ro_auto) => `(tactic|
    repeat' (first
      | exact RO.pure _
      | exact RO.get
      | exact RO.stop _
      | exact RO.fail _
      | exact RO.backend
      | exact RO.act _
      | (apply RO.modify; intro _; exact ⟨rfl, rfl, rfl⟩)
      | assumption
      | apply RO.ite
      | apply RO.bind
      | split
      | intro _))

theorem RO.load (pid) : RO (M.load pid) := by unfold M.load; ro_auto
theorem RO.save (u) : RO (M.save u) := by unfold M.save; ro_auto
theorem RO.currentUserID : RO M.currentUserID := by unfold M.currentUserID; ro_auto
theorem RO.currentUser : RO M.currentUser := by
  unfold M.currentUser; have := RO.currentUserID; have := RO.load; ro_auto
theorem RO.tfaUser (k) : RO (M.tfaUser k) := by
  unfold M.tfaUser; have := RO.currentUser; have := RO.load; ro_auto

end AuthbossModel.M
