/-
  `NP h`: handler `h` never ends in a panic, and keeps a context user once there is one.
  `NPU h`: the same, provided there is a context user when `h` starts.
  (Same structural discipline as `Frame`.)
-/
import Proofs.SafeHandlers
import Proofs.Veto

namespace AuthbossModel.M

def HasUser (c : Ctx) : Prop := c.ctxUser.isSome = true

def NoPanicAt {α} (h : H α) (c : Ctx) : Prop :=
  (∀ e, (h c).1 ≠ .stop (.panic e)) ∧ (HasUser c → HasUser (h c).2)

def NP {α} (h : H α) : Prop := ∀ c, NoPanicAt h c
def NPU {α} (h : H α) : Prop := ∀ c, HasUser c → NoPanicAt h c

theorem NP.toNPU {α} {h : H α} (hn : NP h) : NPU h := fun c _ => hn c

theorem NP.pure {α} (a : α) : NP (pure a : H α) := by
  intro c; exact ⟨by intro e h; simp [pure_apply] at h, fun hu => hu⟩

theorem NP.get : NP M.get := by
  intro c; exact ⟨by intro e h; simp [M.get] at h, fun hu => hu⟩

theorem NP.fail {α} (e) : NP (M.fail e : H α) := by
  intro c; exact ⟨by intro e' h; simp [M.fail, M.stop] at h, fun hu => hu⟩

theorem NP.stopDone {α} : NP (M.stop .done : H α) := by
  intro c; exact ⟨by intro e' h; simp [M.stop] at h, fun hu => hu⟩

theorem NP.backend : NP M.backend := by
  intro c; exact ⟨by intro e h; simp [M.backend] at h, fun hu => hu⟩

theorem NP.modify (f : Ctx → Ctx) (hf : ∀ c, HasUser c → HasUser (f c)) : NP (M.modify f) := by
  intro c; exact ⟨by intro e h; simp [M.modify] at h, fun hu => hf c hu⟩

theorem NP.act (a : Act) : NP (M.act a) := NP.modify _ (fun _ h => h)
theorem NP.logf (f a) : NP (M.logf f a) := NP.modify _ (fun _ h => h)
theorem NP.setCtxUser (u) : NP (M.setCtxUser u) := NP.modify _ (fun _ _ => rfl)
theorem NP.writeBack (u) : NP (M.writeBack u) := by
  apply NP.modify; intro c h
  unfold HasUser at *
  cases hc : c.ctxUser with
  | none => rw [hc] at h; simp at h
  | some v => simp [hc]

theorem NP.bind {α β} {m : H α} {f : α → H β} (hm : NP m) (hf : ∀ a, NP (f a)) : NP (m >>= f) := by
  intro c
  have hb : (m >>= f) c = match m c with
      | (.ok a, c') => f a c'
      | (.stop s, c') => (.stop s, c') := rfl
  have h1 := hm c
  unfold NoPanicAt at h1 ⊢
  rw [hb]
  generalize m c = r at h1
  obtain ⟨res, c'⟩ := r
  cases res with
  | ok a =>
    have h2 := hf a c'
    unfold NoPanicAt at h2
    exact ⟨fun e => h2.1 e, fun hu => h2.2 (h1.2 hu)⟩
  | stop s => exact ⟨fun e => by simpa using h1.1 e, fun hu => h1.2 hu⟩

theorem NPU.bind {α β} {m : H α} {f : α → H β} (hm : NPU m) (hf : ∀ a, NPU (f a)) : NPU (m >>= f) := by
  intro c hu
  have hb : (m >>= f) c = match m c with
      | (.ok a, c') => f a c'
      | (.stop s, c') => (.stop s, c') := rfl
  have h1 := hm c hu
  unfold NoPanicAt at h1 ⊢
  rw [hb]
  generalize m c = r at h1
  obtain ⟨res, c'⟩ := r
  cases res with
  | ok a =>
    have hu' := h1.2 hu
    have h2 := hf a c' hu'
    unfold NoPanicAt at h2
    exact ⟨fun e => h2.1 e, fun _ => h2.2 hu'⟩
  | stop s => exact ⟨fun e => by simpa using h1.1 e, fun hu => h1.2 hu⟩

/-- After `setCtxUser` there is a context user: the rest may rely on it. -/
theorem NP.setCtxUser_bind {β} (u : User) {f : PUnit → H β} (hf : NPU (f ⟨⟩)) : NP (M.setCtxUser u >>= f) := by
  intro c
  have hb : (M.setCtxUser u >>= f) c = f ⟨⟩ { c with ctxUser := some u } := rfl
  have h2 := hf { c with ctxUser := some u } rfl
  unfold NoPanicAt at h2 ⊢
  rw [hb]
  exact ⟨h2.1, fun _ => h2.2 rfl⟩

theorem NP.ite {α} {b : Prop} [Decidable b] {x y : H α} (hx : NP x) (hy : NP y) : NP (if b then x else y) := by
  by_cases h : b <;> simp [h] <;> assumption
theorem NPU.ite {α} {b : Prop} [Decidable b] {x y : H α} (hx : NPU x) (hy : NPU y) : NPU (if b then x else y) := by
  by_cases h : b <;> simp [h] <;> assumption

syntax "np_auto" : tactic
macro_rules
  | `(tactic| np_auto) => `(tactic|
    repeat' (first
      | exact NP.pure _
      | exact NP.get
      | exact NP.fail _
      | exact NP.stopDone
      | exact NP.backend
      | exact NP.logf _ _
      | exact NP.setCtxUser _
      | exact NP.writeBack _
      | exact NP.act _
      | (apply NP.modify; intro _ h; exact h)
      | assumption
      | exact NP.toNPU (by assumption)
      | exact NP.toNPU (NP.pure _)
      | exact NP.toNPU NP.get
      | exact NP.toNPU (NP.fail _)
      | exact NP.toNPU NP.stopDone
      | exact NP.toNPU NP.backend
      | exact NP.toNPU (NP.logf _ _)
      | exact NP.toNPU (NP.setCtxUser _)
      | exact NP.toNPU (NP.writeBack _)
      | exact NP.toNPU (NP.act _)
      | (apply NP.toNPU; apply NP.modify; intro _ h; exact h)
      | apply NP.ite
      | apply NPU.ite
      | apply NP.setCtxUser_bind
      | apply NP.bind
      | apply NPU.bind
      | split
      | intro _))

theorem NP.putS (k v) : NP (M.putS k v) := NP.act _
theorem NP.delS (k) : NP (M.delS k) := NP.act _
theorem NP.load (pid) : NP (M.load pid) := by unfold M.load; np_auto
theorem NP.save (u) : NP (M.save u) := by unfold M.save; np_auto
theorem NP.render : NP M.render := by unfold M.render; np_auto
theorem NP.hash : NP M.hash := by unfold M.hash; np_auto
theorem NP.respond (p t) : NP (M.respond p t) := by
  unfold M.respond; have := NP.render; np_auto

end AuthbossModel.M

namespace AuthbossModel.M

theorem NP.redirect (p ok f fl) : NP (M.redirect p ok f fl) := by
  unfold M.redirect; have := NP.render; np_auto
theorem NP.currentUserID : NP M.currentUserID := by unfold M.currentUserID; np_auto
theorem NP.currentUser : NP M.currentUser := by
  unfold M.currentUser; have := NP.currentUserID; have := NP.load; np_auto
theorem NP.sendMail (to k tok) : NP (M.sendMail to k tok) := by
  unfold M.sendMail; have := NP.render; np_auto
theorem NP.swallowErr {h : H PUnit} (hn : NP h) : NP (M.swallowErr h) := by
  intro c
  have h1 := hn c
  unfold NoPanicAt at h1 ⊢
  unfold M.swallowErr
  generalize h c = r at h1
  obtain ⟨res, c'⟩ := r
  cases res with
  | ok a => exact h1
  | stop s =>
    cases s with
    | done => exact h1
    | panic e => exact h1
    | err e => exact ⟨by intro e' hh; simp at hh, h1.2⟩

/-! ### Event handlers -/
theorem NP.lockUpdate (w b) : NP (M.lockUpdate w b) := by
  unfold M.lockUpdate
  have := NP.currentUser; have := NP.save; have := NP.redirect; np_auto
theorem NP.lockSuccess (b) : NP (M.lockSuccess b) := by
  unfold M.lockSuccess; have := NP.currentUser; have := NP.save; np_auto
theorem NP.confirmPrevent (b) : NP (M.confirmPrevent b) := by
  unfold M.confirmPrevent; have := NP.currentUser; have := NP.redirect; np_auto

theorem NP.startConfirmation (u) : NP (M.startConfirmation u) := by
  unfold M.startConfirmation; have := NP.save; have := NP.sendMail; np_auto
theorem NP.confirmStartWeb (b) : NP (M.confirmStartWeb b) := by
  unfold M.confirmStartWeb
  have := NP.currentUser; have := NP.startConfirmation; have := NP.redirect; np_auto
theorem NP.rememberAfterReset (b) : NP (M.rememberAfterReset b) := by
  unfold M.rememberAfterReset; have := NP.currentUser; np_auto
theorem NP.refreshExpiry : NP M.refreshExpiry := by unfold M.refreshExpiry; np_auto
theorem NP.expireAfterAuth (b) : NP (M.expireAfterAuth b) := by
  unfold M.expireAfterAuth; have := NP.refreshExpiry; np_auto
theorem NP.smsSendCode (p n) : NP (M.smsSendCode p n) := by unfold M.smsSendCode; np_auto

/-- With a context user, `currentUser` answers with it. -/
theorem currentUser_hasUser (c : Ctx) (h : HasUser c) : ∃ u, M.currentUser c = (.ok (.found u), c) := by
  unfold HasUser at h
  cases hc : c.ctxUser with
  | none => rw [hc] at h; simp at h
  | some u => exact ⟨u, currentUser_ctx hc⟩

theorem NPU.currentUser_bind {β} {f : LoadRes → H β} (hf : ∀ u, NPU (f (.found u))) :
    NPU (M.currentUser >>= f) := by
  intro c hu
  obtain ⟨u, he⟩ := currentUser_hasUser c hu
  have hb : (M.currentUser >>= f) c = f (.found u) c := by rw [bind_apply, he]
  unfold NoPanicAt
  rw [hb]
  exact hf u c hu

theorem NPU.rememberAfterAuth (b) : NPU (M.rememberAfterAuth b) := by
  unfold M.rememberAfterAuth
  apply NPU.bind (NP.toNPU NP.get); intro c
  apply NPU.ite (NP.toNPU (NP.pure _))
  apply NPU.ite (NP.toNPU (NP.pure _))
  apply NPU.currentUser_bind; intro u
  apply NP.toNPU
  np_auto

/-- `get`, then a match on the context user whose `none` branch is the panic. -/
theorem NPU.withCtxUser {β} (f : User → Ctx → H β) (g : Ctx → H β)
    (hf : ∀ u c0, NP (f u c0)) :
    NPU (M.get >>= fun c => match c.ctxUser with | none => g c | some u => f u c) := by
  intro c hu
  unfold HasUser at hu
  cases hc : c.ctxUser with
  | none => rw [hc] at hu; simp at hu
  | some u =>
    have hb : (M.get >>= fun c => match c.ctxUser with | none => g c | some u => f u c) c = f u c c := by
      simp [bind_apply, M.get, hc]
    unfold NoPanicAt
    rw [hb]
    exact hf u c c

theorem NPU.totpHijack (b) : NPU (M.totpHijack b) := by
  unfold M.totpHijack
  apply NPU.ite (NP.toNPU (NP.pure _))
  intro c hu
  unfold HasUser at hu
  cases hc : c.ctxUser with
  | none => rw [hc] at hu; simp at hu
  | some u =>
    have hn : NP (if u.totpSecret.isEmpty = true then (Pure.pure false : H Bool) else do
        M.putS .totpPending u.pid
        let q := if c.req.rawQuery.isEmpty then [] else [63] ++ c.req.rawQuery
        M.redirect (mount ++ lit "/2fa/totp/validate" ++ q)
        Pure.pure true) := by
      have := NP.redirect; np_auto
    have h1 := hn c
    unfold NoPanicAt at h1 ⊢
    have hb : ∀ (f : Ctx → H Bool), (M.get >>= f) c = f c c := fun f => rfl
    rw [hb]
    simp only [hc]
    exact h1

theorem NPU.smsHijack (b) : NPU (M.smsHijack b) := by
  unfold M.smsHijack
  apply NPU.ite (NP.toNPU (NP.pure _))
  intro c hu
  unfold HasUser at hu
  cases hc : c.ctxUser with
  | none => rw [hc] at hu; simp at hu
  | some u =>
    have hn : NP (if u.smsNumber.isEmpty = true then (Pure.pure false : H Bool) else do
        M.putS .smsPending u.pid
        match ← M.smsSendCode u.pid u.smsNumber with
        | .err | .badPhone => M.fail "sms-send"
        | _ =>
          let q := if c.req.rawQuery.isEmpty then [] else [63] ++ c.req.rawQuery
          M.redirect (mount ++ lit "/2fa/sms/validate" ++ q)
          Pure.pure true) := by
      have := NP.redirect; have := NP.smsSendCode; np_auto
    have h1 := hn c
    unfold NoPanicAt at h1 ⊢
    have hb : ∀ (f : Ctx → H Bool), (M.get >>= f) c = f c c := fun f => rfl
    rw [hb]
    simp only [hc]
    exact h1

/-! ### The event bus -/

theorem NPU.callHandlers (hs : List EvHandler) (hh : ∀ h ∈ hs, ∀ b, NPU (h b)) (b : Bool) :
    NPU (M.callHandlers hs b) := by
  induction hs generalizing b with
  | nil => exact NP.toNPU (NP.pure _)
  | cons h hs ih =>
    unfold M.callHandlers
    apply NPU.bind (hh h (by simp) b)
    intro i
    exact ih (fun h' hm => hh h' (by simp [hm])) _

theorem NP.callHandlers (hs : List EvHandler) (hh : ∀ h ∈ hs, ∀ b, NP (h b)) (b : Bool) :
    NP (M.callHandlers hs b) := by
  induction hs generalizing b with
  | nil => exact NP.pure _
  | cons h hs ih =>
    unfold M.callHandlers
    apply NP.bind (hh h (by simp) b)
    intro i
    exact ih (fun h' hm => hh h' (by simp [hm])) _

/-- Every registered handler is panic-free given a context user … -/
theorem handler_npu (u : Unit) (e : Ev) : (∀ h ∈ u.before e, ∀ b, NPU (h b)) ∧ (∀ h ∈ u.after e, ∀ b, NPU (h b)) := by
  constructor
  · intro h hm b
    unfold Unit.before at hm
    split at hm <;> simp at hm <;> subst hm
    · exact NP.toNPU (NP.lockUpdate _ _)
    · exact NP.toNPU (NP.lockUpdate _ _)
    · exact NP.toNPU (NP.confirmPrevent _)
    · exact NPU.totpHijack _
    · exact NPU.smsHijack _
  · intro h hm b
    unfold Unit.after at hm
    split at hm <;> simp at hm <;> subst hm
    · exact NP.toNPU (NP.lockSuccess _)
    · exact NP.toNPU (NP.lockUpdate _ _)
    · exact NP.toNPU (NP.confirmStartWeb _)
    · exact NPU.rememberAfterAuth _
    · exact NPU.rememberAfterAuth _
    · exact NP.toNPU (NP.rememberAfterReset _)
    · exact NP.toNPU (NP.expireAfterAuth _)
    · exact NP.toNPU (NP.expireAfterAuth _)
    · exact NP.toNPU (NP.expireAfterAuth _)

theorem NPU.fireBefore (e : Ev) : NPU (M.fireBefore e) := by
  unfold M.fireBefore
  apply NPU.bind (NP.toNPU NP.get); intro c
  apply NPU.callHandlers
  intro h hm b
  obtain ⟨u, _, hu⟩ := List.mem_flatMap.mp hm
  exact (handler_npu u e).1 h hu b

theorem NPU.fireAfter (e : Ev) : NPU (M.fireAfter e) := by
  unfold M.fireAfter
  apply NPU.bind (NP.toNPU NP.get); intro c
  apply NPU.callHandlers
  intro h hm b
  obtain ⟨u, _, hu⟩ := List.mem_flatMap.mp hm
  exact (handler_npu u e).2 h hu b

/-- … and, for the events that no hijacker / remember handler listens to, without one. -/
theorem NP.fireBefore (e : Ev) (he : e ≠ .authHijack) : NP (M.fireBefore e) := by
  unfold M.fireBefore
  apply NP.bind NP.get; intro c
  apply NP.callHandlers
  intro h hm b
  obtain ⟨u, _, hu⟩ := List.mem_flatMap.mp hm
  unfold Unit.before at hu
  split at hu <;> simp at hu <;> (try subst hu)
  · exact NP.lockUpdate _ _
  · exact NP.lockUpdate _ _
  · exact NP.confirmPrevent _
  · exact absurd rfl he
  · exact absurd rfl he

theorem NP.fireAfter (e : Ev) (he : e ≠ .auth) (he2 : e ≠ .oauth2) : NP (M.fireAfter e) := by
  unfold M.fireAfter
  apply NP.bind NP.get; intro c
  apply NP.callHandlers
  intro h hm b
  obtain ⟨u, _, hu⟩ := List.mem_flatMap.mp hm
  unfold Unit.after at hu
  split at hu <;> simp at hu <;> (try subst hu)
  · exact absurd rfl he
  · exact NP.lockUpdate _ _
  · exact NP.confirmStartWeb _
  · exact absurd rfl he
  · exact absurd rfl he2
  · exact NP.rememberAfterReset _
  · exact absurd rfl he
  · exact absurd rfl he2
  · exact NP.expireAfterAuth _

syntax "np_step" : tactic
macro_rules
  | `(tactic| np_step) => `(tactic|
    (first
      | exact NPU.fireBefore _
      | exact NPU.fireAfter _
      | exact NP.fireBefore _ (by intro h; cases h)
      | exact NP.fireAfter _ (by intro h; cases h) (by intro h; cases h)
      | exact NP.pure _
      | exact NP.get
      | exact NP.fail _
      | exact NP.stopDone
      | exact NP.backend
      | exact NP.logf _ _
      | exact NP.setCtxUser _
      | exact NP.writeBack _
      | exact NP.act _
      | exact NP.load _
      | exact NP.save _
      | exact NP.hash
      | exact NP.render
      | exact NP.respond _ _
      | exact NP.redirect _ _ _ _
      | exact NP.currentUser
      | exact NP.currentUserID
      | exact NP.sendMail _ _ _
      | exact NP.smsSendCode _ _
      | (apply NP.modify; intro _ h; exact h)
      | assumption
      | exact NP.toNPU (by assumption)
      | exact NP.toNPU (NP.pure _)
      | exact NP.toNPU NP.get
      | exact NP.toNPU (NP.fail _)
      | exact NP.toNPU NP.stopDone
      | exact NP.toNPU NP.backend
      | exact NP.toNPU (NP.logf _ _)
      | exact NP.toNPU (NP.setCtxUser _)
      | exact NP.toNPU (NP.writeBack _)
      | exact NP.toNPU (NP.act _)
      | exact NP.toNPU (NP.load _)
      | exact NP.toNPU (NP.save _)
      | exact NP.toNPU NP.hash
      | exact NP.toNPU NP.render
      | exact NP.toNPU (NP.respond _ _)
      | exact NP.toNPU (NP.redirect _ _ _ _)
      | exact NP.toNPU NP.currentUser
      | exact NP.toNPU (NP.sendMail _ _ _)
      | exact NP.toNPU (NP.smsSendCode _ _)
      | (apply NP.toNPU; apply NP.modify; intro _ h; exact h)
      | apply NP.ite
      | apply NPU.ite
      | apply NP.setCtxUser_bind
      | apply NP.bind
      | apply NPU.bind
      | split
      | intro _))

syntax "np_all" : tactic
macro_rules
  | `(tactic| np_all) => `(tactic| repeat' np_step)

attribute [local irreducible] NP NPU NoPanicAt

theorem NP.authLoginPost : NP (M.authLoginPost) := by unfold M.authLoginPost; np_all
theorem NP.otpLoginPost : NP (M.otpLoginPost) := by unfold M.otpLoginPost; np_all
theorem NP.otpAddPost : NP (M.otpAddPost) := by unfold M.otpAddPost; np_all
theorem NP.otpClearPost : NP (M.otpClearPost) := by unfold M.otpClearPost; np_all
theorem NP.createUser (u) : NP (M.createUser u) := by unfold M.createUser; np_all
theorem NP.registerPost : NP (M.registerPost) := by
  unfold M.registerPost
  repeat' (first | exact NP.createUser _ | np_step)
theorem NP.confirmGet : NP (M.confirmGet) := by unfold M.confirmGet; np_all
theorem NP.recoverStartPost : NP (M.recoverStartPost) := by unfold M.recoverStartPost; np_all
set_option maxHeartbeats 1600000 in
theorem NP.recoverEndPost : NP (M.recoverEndPost) := by unfold M.recoverEndPost; np_all
set_option maxHeartbeats 1600000 in
theorem NP.logoutHandler : NP (M.logoutHandler) := by unfold M.logoutHandler; np_all
theorem NP.oauth2Start : NP (M.oauth2Start) := by unfold M.oauth2Start; np_all
set_option maxHeartbeats 1600000 in
theorem NP.oauth2End : NP (M.oauth2End) := by unfold M.oauth2End; np_all

theorem NP.tfaUser (k) : NP (M.tfaUser k) := by unfold M.tfaUser; np_all
set_option maxHeartbeats 1600000 in
theorem NP.totpValidate : NP M.totpValidate := by
  unfold M.totpValidate
  repeat' (first | exact NP.tfaUser _ | np_step)
set_option maxHeartbeats 1600000 in
theorem NP.totpPostValidate : NP M.totpPostValidate := by unfold M.totpPostValidate; have := NP.totpValidate; np_all
theorem NP.totpPostSetup : NP M.totpPostSetup := by unfold M.totpPostSetup; np_all
theorem NP.totpGetSetup : NP M.totpGetSetup := by unfold M.totpGetSetup; np_all
set_option maxHeartbeats 1600000 in
theorem NP.totpPostConfirm : NP M.totpPostConfirm := by unfold M.totpPostConfirm; np_all
set_option maxHeartbeats 1600000 in
theorem NP.totpPostRemove : NP M.totpPostRemove := by unfold M.totpPostRemove; np_all
theorem NP.smsGetSetup : NP M.smsGetSetup := by unfold M.smsGetSetup; np_all
theorem NP.smsPostSetup : NP M.smsPostSetup := by unfold M.smsPostSetup; np_all
theorem NP.smsSendCodePage (pg u) : NP (M.smsSendCodePage pg u) := by
  unfold M.smsSendCodePage
  apply NP.bind NP.get; intro c; dsimp only; np_all
theorem NP.smsVerdict (pg u) : NP (M.smsVerdict pg u) := by unfold M.smsVerdict; np_all
set_option maxHeartbeats 3200000 in
theorem NP.smsValidateCode (pg u) : NP (M.smsValidateCode pg u) := by
  unfold M.smsValidateCode
  repeat' (first | exact NP.smsVerdict _ _ | np_step)
set_option maxHeartbeats 1600000 in
theorem NP.smsPost (pg) : NP (M.smsPost pg) := by
  unfold M.smsPost
  repeat' (first
    | exact NP.tfaUser _
    | exact NP.smsSendCodePage _ _
    | exact NP.smsValidateCode _ _
    | np_step)
theorem NP.recoveryPostRegen : NP M.recoveryPostRegen := by unfold M.recoveryPostRegen; np_all
theorem NP.emailVerifyPostStart : NP M.emailVerifyPostStart := by unfold M.emailVerifyPostStart; np_all
theorem NP.emailVerifyEnd (p) : NP (M.emailVerifyEnd p) := by unfold M.emailVerifyEnd; np_all
theorem NP.emailVerifyWrap (k) : NP (M.emailVerifyWrap k) := by
  unfold M.emailVerifyWrap; have := NP.swallowErr (NP.redirect (mount ++ lit "/2fa/" ++ k ++ lit "/email/verify") none (some .tfaAuthorizationRequired) false); np_all

/-! ### Middlewares, dispatch, the whole stack -/

theorem NP.status (n) : NP (M.status n) := NP.act _
theorem NP.loadCurrentUser : NP M.loadCurrentUser := by unfold M.loadCurrentUser; np_all

set_option maxHeartbeats 1600000 in
theorem NP.accessMW (mp reqs fl path rq) {next : H PUnit} (hn : NP next) : NP (M.accessMW mp reqs fl path rq next) := by
  unfold M.accessMW
  have h1 := NP.swallowErr (NP.redirect (loginRedirect mp path rq) none (some .authFailed) false)
  repeat' (first | exact NP.loadCurrentUser | exact NP.status _ | np_step)

theorem NP.moduleMW (reqs path) {next : H PUnit} (hn : NP next) : NP (M.moduleMW reqs path next) := by
  unfold M.moduleMW
  apply NP.bind NP.get; intro c
  exact NP.accessMW _ _ _ _ _ hn

theorem NP.verified (sms path) {h : H PUnit} (hn : NP h) : NP (M.verified sms path h) := by
  unfold M.verified
  apply NP.moduleMW
  repeat' (first | exact NP.emailVerifyWrap _ | np_step)

theorem NP.probe : NP M.probe := NP.act _

set_option maxHeartbeats 3200000 in
/-- Every route except the three that are `lock.Middleware` / `confirm.Middleware` themselves. -/
theorem NP.dispatch (rt : Route) (h1 : rt ≠ .lockmw) (h2 : rt ≠ .confirmmw) (h3 : rt ≠ .rootmw) :
    NP (M.dispatch rt) := by
  unfold M.dispatch
  apply NP.bind NP.get; intro c
  dsimp only
  apply NP.ite (NP.status _)
  cases rt <;> dsimp only
  all_goals first
    | exact absurd rfl h1
    | exact absurd rfl h2
    | exact absurd rfl h3
    | exact NP.authLoginPost
    | exact NP.otpLoginPost
    | exact NP.moduleMW _ _ NP.otpAddPost
    | exact NP.moduleMW _ _ NP.otpClearPost
    | exact NP.registerPost
    | exact NP.confirmGet
    | exact NP.recoverStartPost
    | exact NP.recoverEndPost
    | exact NP.logoutHandler
    | exact NP.oauth2Start
    | exact NP.oauth2End
    | exact NP.verified _ _ NP.totpGetSetup
    | exact NP.verified _ _ NP.totpPostSetup
    | exact NP.verified _ _ NP.totpPostConfirm
    | exact NP.moduleMW _ _ NP.totpPostRemove
    | exact NP.totpPostValidate
    | exact NP.verified _ _ NP.smsGetSetup
    | exact NP.verified _ _ NP.smsPostSetup
    | exact NP.verified _ _ (NP.smsPost _)
    | exact NP.moduleMW _ _ (NP.smsPost _)
    | exact NP.smsPost _
    | exact NP.moduleMW _ _ NP.recoveryPostRegen
    | exact NP.ite (NP.status _) (NP.moduleMW _ _ NP.emailVerifyPostStart)
    | exact NP.ite (NP.status _) (NP.moduleMW _ _ (NP.emailVerifyEnd _))
    | exact NP.accessMW _ _ _ _ _ NP.probe
    | exact NP.probe
    | exact NP.status _

theorem NP.useToken (p r) : NP (M.useToken p r) := by unfold M.useToken; np_all
theorem NP.rememberAuthenticate : NP M.rememberAuthenticate := by
  unfold M.rememberAuthenticate
  repeat' (first | exact NP.useToken _ _ | np_step)
theorem NP.rememberMW : NP M.rememberMW := by
  unfold M.rememberMW
  have := NP.swallowErr NP.rememberAuthenticate
  np_all

/-- Plain absence of panics (no bookkeeping about the context user). -/
def NoPanic {α} (h : H α) : Prop := ∀ c e, (h c).1 ≠ .stop (.panic e)

attribute [local semireducible] NP NoPanicAt in
theorem NP.noPanic {α} {h : H α} (hn : NP h) : NoPanic h := fun c e => (hn c).1 e

theorem NoPanic.bind {α β} {m : H α} {f : α → H β} (hm : NoPanic m) (hf : ∀ a, NoPanic (f a)) :
    NoPanic (m >>= f) := by
  intro c e
  rw [bind_apply]
  have h1 := hm c e
  generalize m c = r at h1
  obtain ⟨res, c'⟩ := r
  cases res with
  | ok a => exact hf a c' e
  | stop s => simpa using h1

theorem NoPanic.ite {α} {b : Prop} [Decidable b] {x y : H α} (hx : NoPanic x) (hy : NoPanic y) :
    NoPanic (if b then x else y) := by
  by_cases h : b <;> simp [h] <;> assumption

theorem NoPanic.pure {α} (a : α) : NoPanic (Pure.pure a : H α) := by
  intro c e h; simp [pure_apply] at h

theorem NoPanic.modify (f) : NoPanic (M.modify f) := by
  intro c e h; simp [M.modify] at h

theorem NoPanic.expireMW : NoPanic M.expireMW := by
  unfold M.expireMW
  apply NoPanic.bind NP.get.noPanic; intro c
  apply NoPanic.ite
  · apply NoPanic.ite
    · apply NoPanic.bind (NP.act _).noPanic; intro _
      apply NoPanic.bind (NP.act _).noPanic; intro _
      apply NoPanic.bind (NP.act _).noPanic; intro _
      exact NoPanic.modify _
    · exact NP.refreshExpiry.noPanic
  · exact NoPanic.pure _

/-- **No panic, whole stack.** -/
theorem NoPanic.serve (rt : Route) (h1 : rt ≠ .lockmw) (h2 : rt ≠ .confirmmw) (h3 : rt ≠ .rootmw) :
    NoPanic (M.serve rt) := by
  unfold M.serve
  apply NoPanic.bind NP.get.noPanic; intro c
  dsimp only
  have hd := (NP.dispatch rt h1 h2 h3).noPanic
  have he : NoPanic (if c.cfg.expireMW = true then (do let r ← M.expireMW; M.dispatch rt) else M.dispatch rt) :=
    NoPanic.ite (NoPanic.bind NoPanic.expireMW (fun _ => hd)) hd
  exact NoPanic.ite (NoPanic.bind NP.rememberMW.noPanic (fun _ => he)) he

end AuthbossModel.M
