/-
  `Ret Q h c`: whenever `h`, started in `c`, returns normally with value `a`, `Q a` holds.
  Used to read off what a successful sub-computation (user lookup, code verification)
  guarantees about the context it started in.
-/
import Proofs.SafeHandlers

namespace AuthbossModel.M

def Ret {α} (Q : α → Ctx → Prop) (h : H α) (c : Ctx) : Prop :=
  ∀ a c', h c = (.ok a, c') → Q a c'

/-- Marker for the obligations `ret_auto` leaves at the `pure` leaves. -/
def Post {α} (Q : α → Ctx → Prop) (a : α) (c : Ctx) : Prop := Q a c

theorem Ret.pure {α} {Q : α → Ctx → Prop} {a : α} {c} (h : Post Q a c) : Ret Q (pure a : H α) c := by
  intro a' c' he; simp [pure_apply] at he; rw [← he.1, ← he.2]; exact h

theorem Ret.stop {α} {Q : α → Ctx → Prop} (s) (c) : Ret Q (M.stop s : H α) c := by
  intro a c' he; simp [M.stop] at he
theorem Ret.fail {α} {Q : α → Ctx → Prop} (e) (c) : Ret Q (M.fail e : H α) c := Ret.stop _ _

theorem Ret.bind {α β} {Q : β → Ctx → Prop} {m : H α} {f : α → H β} {c : Ctx}
    (hf : ∀ a c', m c = (.ok a, c') → Ret Q (f a) c') : Ret Q (m >>= f) c := by
  intro b c'' he
  rw [bind_apply] at he
  generalize hmc : m c = r at he hf
  obtain ⟨res, c'⟩ := r
  cases res with
  | ok a => exact hf a c' rfl b c'' he
  | stop s => simp at he

theorem Ret.ite {α} {Q : α → Ctx → Prop} {b : Prop} [Decidable b] {x y : H α} {c}
    (hx : b → Ret Q x c) (hy : ¬b → Ret Q y c) : Ret Q (if b then x else y) c := by
  by_cases h : b
  · simp only [h, if_true]; exact hx h
  · simp only [h, if_false]; exact hy h

attribute [local irreducible] Ret Post

syntax "ret_auto" : tactic
macro_rules
  | `(tactic| ret_auto) => `(tactic|
    repeat' (first
      | exact Ret.stop _ _
      | exact Ret.fail _ _
      | apply Ret.pure
      | apply Ret.bind
      | apply Ret.ite
      | split
      | intro _))

end AuthbossModel.M
