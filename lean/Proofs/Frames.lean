/-
  Frame lemmas: which computations of the machine never write the session key `uid`.
  Everything except the eight login sites and the remember middleware is in here.
-/
import Proofs.Safe

namespace AuthbossModel.M

attribute [local irreducible] Frame

/-- Discharges `Frame h` goals by structural descent (hypotheses in scope are used for
sub-computations). -/
syntax "frame_auto" : tactic
macro_rules
  | `(tactic| frame_auto) => `(tactic|
    repeat' (first
      | exact Frame.pure _
      | exact Frame.get
      | exact Frame.stop _
      | exact Frame.fail _
      | exact Frame.backend
      | exact Frame.logf _ _
      | exact Frame.setCtxUser _
      | exact Frame.writeBack _
      | exact Frame.delS _
      | exact Frame.delAllS _
      | exact Frame.putRm _
      | exact Frame.delRm
      | exact Frame.status _
      | exact Frame.respondAct _
      | exact Frame.putS_ne _ _ (by decide)
      | (apply Frame.modify; intro _; rfl)
      | assumption
      | apply Frame.ite
      | apply Frame.bind
      | split
      | intro _))

theorem Frame.load (pid) : Frame (M.load pid) := by unfold M.load; frame_auto
theorem Frame.save (u) : Frame (M.save u) := by unfold M.save; frame_auto
theorem Frame.render : Frame M.render := by unfold M.render; frame_auto
theorem Frame.hash : Frame M.hash := by unfold M.hash; frame_auto
theorem Frame.respond (p t) : Frame (M.respond p t) := by
  unfold M.respond; have := Frame.render; frame_auto
theorem Frame.redirect (p ok f fl) : Frame (M.redirect p ok f fl) := by
  unfold M.redirect; have := Frame.render; frame_auto
theorem Frame.currentUserID : Frame M.currentUserID := by unfold M.currentUserID; frame_auto
theorem Frame.currentUser : Frame M.currentUser := by
  unfold M.currentUser; have := Frame.currentUserID; have := Frame.load; frame_auto
theorem Frame.swallowErr {h : H PUnit} (hf : Frame h) : Frame (M.swallowErr h) := by
  unfold Frame at hf ⊢
  intro c
  have := hf c
  unfold M.swallowErr
  generalize h c = r at this ⊢
  obtain ⟨res, c'⟩ := r
  cases res with
  | ok a => exact this
  | stop s => cases s <;> exact this

theorem Frame.sendMail (to k tok) : Frame (M.sendMail to k tok) := by
  unfold M.sendMail; have := Frame.render; frame_auto

/-! ### Event handlers -/

theorem Frame.lockUpdate (w h) : Frame (M.lockUpdate w h) := by
  unfold M.lockUpdate
  have := Frame.currentUser; have := Frame.save; have := Frame.redirect; frame_auto
theorem Frame.lockSuccess (h) : Frame (M.lockSuccess h) := by
  unfold M.lockSuccess
  have := Frame.currentUser; have := Frame.save; frame_auto
theorem Frame.confirmPrevent (h) : Frame (M.confirmPrevent h) := by
  unfold M.confirmPrevent
  have := Frame.currentUser; have := Frame.redirect; frame_auto
theorem Frame.startConfirmation (u) : Frame (M.startConfirmation u) := by
  unfold M.startConfirmation
  have := Frame.save; have := Frame.sendMail; frame_auto
theorem Frame.confirmStartWeb (h) : Frame (M.confirmStartWeb h) := by
  unfold M.confirmStartWeb
  have := Frame.currentUser; have := Frame.startConfirmation; have := Frame.redirect; frame_auto
theorem Frame.rememberAfterAuth (h) : Frame (M.rememberAfterAuth h) := by
  unfold M.rememberAfterAuth
  have := Frame.currentUser; frame_auto
theorem Frame.rememberAfterReset (h) : Frame (M.rememberAfterReset h) := by
  unfold M.rememberAfterReset
  have := Frame.currentUser; frame_auto
theorem Frame.refreshExpiry : Frame M.refreshExpiry := by unfold M.refreshExpiry; frame_auto
theorem Frame.expireAfterAuth (h) : Frame (M.expireAfterAuth h) := by
  unfold M.expireAfterAuth; have := Frame.refreshExpiry; frame_auto
theorem Frame.totpHijack (h) : Frame (M.totpHijack h) := by
  unfold M.totpHijack; have := Frame.redirect; frame_auto
theorem Frame.smsSendCode (p n) : Frame (M.smsSendCode p n) := by
  unfold M.smsSendCode; frame_auto
theorem Frame.smsHijack (h) : Frame (M.smsHijack h) := by
  unfold M.smsHijack; have := Frame.redirect; have := Frame.smsSendCode; frame_auto

theorem Frame.before (u : Unit) (e : Ev) : ∀ h ∈ u.before e, ∀ b, Frame (h b) := by
  intro h hh b
  unfold Unit.before at hh
  split at hh <;> simp at hh <;> subst hh
  · exact Frame.lockUpdate _ _
  · exact Frame.lockUpdate _ _
  · exact Frame.confirmPrevent _
  · exact Frame.totpHijack _
  · exact Frame.smsHijack _

theorem Frame.after (u : Unit) (e : Ev) : ∀ h ∈ u.after e, ∀ b, Frame (h b) := by
  intro h hh b
  unfold Unit.after at hh
  split at hh <;> simp at hh <;> subst hh
  · exact Frame.lockSuccess _
  · exact Frame.lockUpdate _ _
  · exact Frame.confirmStartWeb _
  · exact Frame.rememberAfterAuth _
  · exact Frame.rememberAfterAuth _
  · exact Frame.rememberAfterReset _
  · exact Frame.expireAfterAuth _
  · exact Frame.expireAfterAuth _
  · exact Frame.expireAfterAuth _

theorem Frame.callHandlers (hs : List EvHandler) (hh : ∀ h ∈ hs, ∀ b, Frame (h b)) (b : Bool) :
    Frame (M.callHandlers hs b) := by
  induction hs generalizing b with
  | nil => unfold M.callHandlers; exact Frame.pure _
  | cons h hs ih =>
    unfold M.callHandlers
    apply Frame.bind (hh h (by simp) b)
    intro i
    exact ih (fun h' hm => hh h' (by simp [hm])) _

/-- **Event handlers never establish a session**, whatever units are loaded, in whatever order. -/
theorem Frame.fireBefore (e : Ev) : Frame (M.fireBefore e) := by
  unfold M.fireBefore
  apply Frame.bind Frame.get
  intro c
  apply Frame.callHandlers
  intro h hm b
  simp only [List.mem_flatMap] at hm
  obtain ⟨u, _, hu⟩ := hm
  exact Frame.before u e h hu b

theorem Frame.fireAfter (e : Ev) : Frame (M.fireAfter e) := by
  unfold M.fireAfter
  apply Frame.bind Frame.get
  intro c
  apply Frame.callHandlers
  intro h hm b
  simp only [List.mem_flatMap] at hm
  obtain ⟨u, _, hu⟩ := hm
  exact Frame.after u e h hu b

end AuthbossModel.M
