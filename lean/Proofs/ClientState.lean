import AuthbossModel.ClientState
/-! Helper lemmas for C11 (client_state.go model). -/
namespace AuthbossModel.CS

theorem exec_ev (c : Cfg) (w : W) (op : HOp) (s : Store) (e : Ev)
    (h : op.ev? = some (s, e)) (hd : w.dead = false) : exec c w op = addEv w s e := by
  cases op <;> simp [HOp.ev?] at h <;> obtain ⟨rfl, rfl⟩ := h <;> simp [exec, hd, HOp.ev?]

theorem ev_not_write (op : HOp) (s : Store) (e : Ev) (h : op.ev? = some (s, e)) : op.isWrite = false := by
  cases op <;> simp [HOp.ev?] at h <;> rfl

theorem ev_none (op : HOp) (h : op.ev? = none) : (∃ c, op = .writeHeader c) ∨ (∃ b, op = .write b) := by
  cases op <;> simp [HOp.ev?] at h <;> simp

theorem writesOf_ev (op : HOp) (p : List HOp) (s e) (h : op.ev? = some (s, e)) : writesOf (op :: p) = writesOf p := by
  cases op <;> simp [HOp.ev?] at h <;> simp [writesOf]

theorem runFrom_cons (c w op p) : runFrom c w (op :: p) = runFrom c (exec c w op) p := rfl

theorem runFrom_written (c : Cfg) (w : W) (p : List HOp)
    (hw : w.hasWritten = true) (hd : w.dead = false) :
    (runFrom c w p).out = w.out ++ writesOf p ∧ (runFrom c w p).hasWritten = true
      ∧ (runFrom c w p).dead = false := by
  induction p generalizing w with
  | nil => simp [runFrom, writesOf, hw, hd]
  | cons op p ih =>
    rw [runFrom_cons]
    match hev : op.ev? with
    | some (s, e) =>
      rw [exec_ev c w op s e hev hd, writesOf_ev op p s e hev]
      cases s <;> exact ih _ hw hd
    | none =>
      rcases ev_none op hev with ⟨code, rfl⟩ | ⟨b, rfl⟩
      · have hx : exec c w (.writeHeader code) = { w with out := w.out ++ [.header code] } := by
          simp [exec, hd, hw]
        rw [hx]
        have := ih { w with out := w.out ++ [.header code] } hw hd
        simpa [writesOf] using this
      · have hx : exec c w (.write b) = { w with out := w.out ++ [.body b] } := by
          simp [exec, hd, hw]
        rw [hx]
        have := ih { w with out := w.out ++ [.body b] } hw hd
        simpa [writesOf] using this

def ok : Cfg := {}

theorem flush_ok (w : W) :
    flush ok w = ({ w with hasWritten := true, out := w.out ++ flushCalls w.sessEv w.cookEv }, false) := by
  obtain ⟨h, se, ce, o, d⟩ := w
  cases se <;> cases ce <;> simp [flush, ok, flushCalls]

theorem pre_ev (op p s e) (h : op.ev? = some (s, e)) : pre (op :: p) = op :: pre p := by
  simp [pre, ev_not_write op s e h]
theorem post_ev (op p s e) (h : op.ev? = some (s, e)) : post (op :: p) = post p := by
  simp [post, ev_not_write op s e h]

theorem evsOf_cons_ev (s' : Store) (op p s e) (h : op.ev? = some (s, e)) :
    evsOf s' (op :: p) = (if s = s' then [e] else []) ++ evsOf s' p := by
  simp only [evsOf, List.filterMap_cons, h]
  split <;> simp_all

theorem runFrom_fresh (w : W) (p : List HOp)
    (hw : w.hasWritten = false) (hd : w.dead = false) :
    (runFrom ok w p).out =
      w.out ++ (if (post p).isEmpty then []
                else flushCalls (w.sessEv ++ evsOf .session (pre p)) (w.cookEv ++ evsOf .cookie (pre p))
                     ++ writesOf (post p)) := by
  induction p generalizing w with
  | nil => simp [runFrom, post]
  | cons op p ih =>
    rw [runFrom_cons]
    match hev : op.ev? with
    | some (s, e) =>
      rw [exec_ev ok w op s e hev hd, pre_ev op p s e hev, post_ev op p s e hev,
        evsOf_cons_ev .session op _ s e hev, evsOf_cons_ev .cookie op _ s e hev]
      cases s
      · have := ih (addEv w .session e) hw hd
        simpa [addEv] using this
      · have := ih (addEv w .cookie e) hw hd
        simpa [addEv] using this
    | none =>
      rcases ev_none op hev with ⟨code, rfl⟩ | ⟨b, rfl⟩
      · have hx : exec ok w (.writeHeader code) =
            { w with hasWritten := true, out := w.out ++ flushCalls w.sessEv w.cookEv ++ [.header code] } := by
          simp [exec, hd, hw, flush_ok]
        rw [hx]
        have := (runFrom_written ok
          { w with hasWritten := true, out := w.out ++ flushCalls w.sessEv w.cookEv ++ [.header code] } p rfl hd).1
        rw [this]
        simp [post, pre, HOp.isWrite, evsOf, writesOf]
      · have hx : exec ok w (.write b) =
            { w with hasWritten := true, out := w.out ++ flushCalls w.sessEv w.cookEv ++ [.body b] } := by
          simp [exec, hd, hw, flush_ok]
        rw [hx]
        have := (runFrom_written ok
          { w with hasWritten := true, out := w.out ++ flushCalls w.sessEv w.cookEv ++ [.body b] } p rfl hd).1
        rw [this]
        simp [post, pre, HOp.isWrite, evsOf, writesOf]

/-- Shape of a flush in *any* configuration. -/
theorem flush_shape (c : Cfg) (w : W) :
    ∃ calls, (flush c w).1 = { w with hasWritten := true, out := w.out ++ calls } ∧
      (∀ o ∈ calls, o.isCall = true) ∧ ∀ s, (calls.filter (Out.isCallOf s)).length ≤ 1 := by
  obtain ⟨h, se, ce, o, d⟩ := w
  obtain ⟨sr, cr, sf, cf⟩ := c
  cases se <;> cases ce <;> cases sr <;> cases cr <;> cases sf <;> cases cf <;>
    simp [flush, Out.isCall] <;> intro s <;> cases s <;> simp [Out.isCallOf, List.filter]


/-- Output shape invariant valid in every configuration: store calls (at most one per
store) first, then only non-call actions; nothing at all before the flush. -/
structure Shape (w : W) : Prop where
  split : ∃ calls rest, w.out = calls ++ rest ∧ (∀ o ∈ calls, o.isCall = true) ∧
    (∀ o ∈ rest, o.isCall = false) ∧ (∀ s, (calls.filter (Out.isCallOf s)).length ≤ 1)
  fresh : w.hasWritten = false → w.out = []

theorem isCallOf_of_not_isCall (o : Out) (s : Store) (h : o.isCall = false) : o.isCallOf s = false := by
  cases o <;> simp_all [Out.isCall, Out.isCallOf]

theorem shape_after (c : Cfg) (w : W) (h : Shape w) (x : Out) (hx : x.isCall = false) (d : Bool)
    (fw : W × Bool) (hfw : (if w.hasWritten = true then (w, false) else flush c w) = fw) :
    Shape { hasWritten := fw.1.hasWritten, sessEv := fw.1.sessEv, cookEv := fw.1.cookEv,
            out := fw.1.out ++ [x], dead := d } := by
  subst hfw
  by_cases hw : w.hasWritten = true
  · obtain ⟨calls, rest, ho, hc, hr, hn⟩ := h.split
    simp only [hw, if_true]
    refine ⟨⟨calls, rest ++ [x], by simp [ho], hc, ?_, hn⟩, by simp [hw]⟩
    intro o ho'; rcases List.mem_append.mp ho' with h1 | h1
    · exact hr o h1
    · simp at h1; subst h1; exact hx
  · have hw : w.hasWritten = false := by simpa using hw
    have hout := h.fresh hw
    obtain ⟨calls, hfl, hc, hn⟩ := flush_shape c w
    simp only [hw]
    refine ⟨⟨calls, [x], by simp [hfl, hout], hc, by simp [hx], hn⟩, by simp [hfl]⟩

theorem Shape.exec (c : Cfg) (w : W) (op : HOp) (h : Shape w) : Shape (exec c w op) := by
  by_cases hd : w.dead = true
  · simpa [CS.exec, hd] using h
  have hd : w.dead = false := by simpa using hd
  match hev : op.ev? with
  | some (s, e) =>
    rw [exec_ev c w op s e hev hd]
    cases s <;> exact ⟨h.split, h.fresh⟩
  | none =>
    rcases ev_none op hev with ⟨code, rfl⟩ | ⟨b, rfl⟩
    · simp only [CS.exec, hd, Bool.false_eq_true, ↓reduceIte]
      generalize hfw : (if w.hasWritten = true then (w, false) else flush c w) = fw
      by_cases h2 : fw.2 = true
      · simp only [h2, ↓reduceIte]; exact shape_after c w h .panic rfl true fw hfw
      · simp only [h2, ↓reduceIte]; exact shape_after c w h (.header code) rfl _ fw hfw
    · simp only [CS.exec, hd, Bool.false_eq_true, ↓reduceIte]
      generalize hfw : (if w.hasWritten = true then (w, false) else flush c w) = fw
      by_cases h2 : fw.2 = true
      · simp only [h2, ↓reduceIte]; exact shape_after c w h .writeErr rfl _ fw hfw
      · simp only [h2, ↓reduceIte]; exact shape_after c w h (.body b) rfl _ fw hfw

theorem Shape.runFrom (c : Cfg) (w : W) (p : List HOp) (h : Shape w) : Shape (runFrom c w p) := by
  induction p generalizing w with
  | nil => exact h
  | cons op p ih => rw [runFrom_cons]; exact ih _ (h.exec c w op)

theorem Shape.init : Shape {} := ⟨⟨[], [], rfl, by simp, by simp, by simp⟩, fun _ => rfl⟩

end AuthbossModel.CS
