import AuthbossModel.DriverCS
import AuthbossModel.Machine.Wire
import AuthbossModel.DriverLock
import AuthbossModel.DriverRedirect
import AuthbossModel.DriverPolicy

open AuthbossModel

/-- Stateless sub-models answer per line; the machine keeps its state between lines. -/
def dispatch (d : M.DState) (line : String) : M.DState × String :=
  match (line.trimAscii.toString.splitOn " ").filter (· ≠ "") with
  | "csrw" :: args => (d, CS.handle args)
  | "lock" :: args => (d, Lock.handle args)
  | "redir" :: args => (d, Redirect.handle args)
  | "rules" :: args => (d, Policy.handle args)
  | "mcfg" :: args => M.handleLine d ("mcfg" :: args)
  | "m" :: args => M.handleLine d ("m" :: args)
  | _ => (d, "bad-op")

partial def loop (h : IO.FS.Stream) (out : IO.FS.Stream) (d : M.DState) : IO Unit := do
  let line ← h.getLine
  if line.isEmpty then return ()
  let (d', o) := dispatch d line
  out.putStrLn o
  loop h out d'

def main : IO Unit := do
  let out ← IO.getStdout
  loop (← IO.getStdin) out {}
