import Tie.ClientState
