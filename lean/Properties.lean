import Properties.C11
import Properties.C04
import Properties.C01
import Properties.C03
