import Properties.C11
