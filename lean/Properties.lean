import Properties.C11
import Properties.C04
