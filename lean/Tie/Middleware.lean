/- Tie unit Middleware: regenerated facts of /repo = facts the model is written against. -/
import Generated.Facts
import Tie.Expected

namespace Tie.Middleware

theorem tie_fn_authboss_MountedMiddleware2 : Generated.fn_authboss_MountedMiddleware2 = Expected.fn_authboss_MountedMiddleware2 := rfl
theorem tie_fn_authboss_Middleware2 : Generated.fn_authboss_Middleware2 = Expected.fn_authboss_Middleware2 := rfl
theorem tie_fn_authboss_MountedMiddleware : Generated.fn_authboss_MountedMiddleware = Expected.fn_authboss_MountedMiddleware := rfl
theorem tie_fn_authboss_Middleware : Generated.fn_authboss_Middleware = Expected.fn_authboss_Middleware := rfl
theorem tie_fn_authboss_hasBit : Generated.fn_authboss_hasBit = Expected.fn_authboss_hasBit := rfl

end Tie.Middleware
