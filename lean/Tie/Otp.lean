/- Tie unit Otp: regenerated facts of /repo = facts the model is written against. -/
import Generated.Facts
import Tie.Expected

namespace Tie.Otp

theorem tie_fn_otp_OTP_Init : Generated.fn_otp_OTP_Init = Expected.fn_otp_OTP_Init := rfl
theorem tie_fn_otp_OTP_LoginPost : Generated.fn_otp_OTP_LoginPost = Expected.fn_otp_OTP_LoginPost := rfl
theorem tie_fn_otp_OTP_AddPost : Generated.fn_otp_OTP_AddPost = Expected.fn_otp_OTP_AddPost := rfl
theorem tie_fn_otp_OTP_ClearPost : Generated.fn_otp_OTP_ClearPost = Expected.fn_otp_OTP_ClearPost := rfl
theorem tie_fn_otp_splitOTPs : Generated.fn_otp_splitOTPs = Expected.fn_otp_splitOTPs := rfl
theorem tie_fn_otp_joinOTPs : Generated.fn_otp_joinOTPs = Expected.fn_otp_joinOTPs := rfl
theorem tie_fn_otp_generateOTP : Generated.fn_otp_generateOTP = Expected.fn_otp_generateOTP := rfl
theorem tie_consts_otp : Generated.consts_otp = Expected.consts_otp := rfl
theorem tie_eventRegs_otp : Generated.eventRegs_otp = Expected.eventRegs_otp := rfl
theorem tie_stateCalls_otp : Generated.stateCalls_otp = Expected.stateCalls_otp := rfl
theorem tie_logCalls_otp : Generated.logCalls_otp = Expected.logCalls_otp := rfl
theorem tie_routes_otp : Generated.routes_otp = Expected.routes_otp := rfl

end Tie.Otp
