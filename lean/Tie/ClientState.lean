/- Tie unit ClientState: regenerated facts of /repo = facts the model is written against. -/
import Generated.Facts
import Tie.Expected

namespace Tie.ClientState

theorem tie_fn_authboss_ClientStateResponseWriter_WriteHeader : Generated.fn_authboss_ClientStateResponseWriter_WriteHeader = Expected.fn_authboss_ClientStateResponseWriter_WriteHeader := rfl
theorem tie_fn_authboss_ClientStateResponseWriter_Write : Generated.fn_authboss_ClientStateResponseWriter_Write = Expected.fn_authboss_ClientStateResponseWriter_Write := rfl
theorem tie_fn_authboss_ClientStateResponseWriter_putClientState : Generated.fn_authboss_ClientStateResponseWriter_putClientState = Expected.fn_authboss_ClientStateResponseWriter_putClientState := rfl
theorem tie_fn_authboss_ClientStateResponseWriter_UnderlyingResponseWriter : Generated.fn_authboss_ClientStateResponseWriter_UnderlyingResponseWriter = Expected.fn_authboss_ClientStateResponseWriter_UnderlyingResponseWriter := rfl
theorem tie_fn_authboss_ClientStateResponseWriter_Unwrap : Generated.fn_authboss_ClientStateResponseWriter_Unwrap = Expected.fn_authboss_ClientStateResponseWriter_Unwrap := rfl
theorem tie_fn_authboss_MustClientStateResponseWriter : Generated.fn_authboss_MustClientStateResponseWriter = Expected.fn_authboss_MustClientStateResponseWriter := rfl
theorem tie_fn_authboss_setState : Generated.fn_authboss_setState = Expected.fn_authboss_setState := rfl
theorem tie_fn_authboss_putState : Generated.fn_authboss_putState = Expected.fn_authboss_putState := rfl
theorem tie_fn_authboss_delState : Generated.fn_authboss_delState = Expected.fn_authboss_delState := rfl
theorem tie_fn_authboss_delAllState : Generated.fn_authboss_delAllState = Expected.fn_authboss_delAllState := rfl
theorem tie_fn_authboss_getState : Generated.fn_authboss_getState = Expected.fn_authboss_getState := rfl
theorem tie_fn_authboss_PutSession : Generated.fn_authboss_PutSession = Expected.fn_authboss_PutSession := rfl
theorem tie_fn_authboss_DelSession : Generated.fn_authboss_DelSession = Expected.fn_authboss_DelSession := rfl
theorem tie_fn_authboss_GetSession : Generated.fn_authboss_GetSession = Expected.fn_authboss_GetSession := rfl
theorem tie_fn_authboss_PutCookie : Generated.fn_authboss_PutCookie = Expected.fn_authboss_PutCookie := rfl
theorem tie_fn_authboss_DelCookie : Generated.fn_authboss_DelCookie = Expected.fn_authboss_DelCookie := rfl
theorem tie_fn_authboss_GetCookie : Generated.fn_authboss_GetCookie = Expected.fn_authboss_GetCookie := rfl
theorem tie_fn_authboss_DelAllSession : Generated.fn_authboss_DelAllSession = Expected.fn_authboss_DelAllSession := rfl
theorem tie_fn_authboss_Authboss_NewResponse : Generated.fn_authboss_Authboss_NewResponse = Expected.fn_authboss_Authboss_NewResponse := rfl
theorem tie_fn_authboss_Authboss_LoadClientState : Generated.fn_authboss_Authboss_LoadClientState = Expected.fn_authboss_Authboss_LoadClientState := rfl

end Tie.ClientState
