/- Tie unit Confirm: regenerated facts of /repo = facts the model is written against. -/
import Generated.Facts
import Tie.Expected

namespace Tie.Confirm

theorem tie_fn_confirm_Confirm_Init : Generated.fn_confirm_Confirm_Init = Expected.fn_confirm_Confirm_Init := rfl
theorem tie_fn_confirm_Confirm_PreventAuth : Generated.fn_confirm_Confirm_PreventAuth = Expected.fn_confirm_Confirm_PreventAuth := rfl
theorem tie_fn_confirm_Confirm_StartConfirmationWeb : Generated.fn_confirm_Confirm_StartConfirmationWeb = Expected.fn_confirm_Confirm_StartConfirmationWeb := rfl
theorem tie_fn_confirm_Confirm_StartConfirmation : Generated.fn_confirm_Confirm_StartConfirmation = Expected.fn_confirm_Confirm_StartConfirmation := rfl
theorem tie_fn_confirm_Confirm_SendConfirmEmail : Generated.fn_confirm_Confirm_SendConfirmEmail = Expected.fn_confirm_Confirm_SendConfirmEmail := rfl
theorem tie_fn_confirm_Confirm_Get : Generated.fn_confirm_Confirm_Get = Expected.fn_confirm_Confirm_Get := rfl
theorem tie_fn_confirm_Confirm_invalidToken : Generated.fn_confirm_Confirm_invalidToken = Expected.fn_confirm_Confirm_invalidToken := rfl
theorem tie_fn_confirm_Middleware : Generated.fn_confirm_Middleware = Expected.fn_confirm_Middleware := rfl
theorem tie_eventRegs_confirm : Generated.eventRegs_confirm = Expected.eventRegs_confirm := rfl
theorem tie_stateCalls_confirm : Generated.stateCalls_confirm = Expected.stateCalls_confirm := rfl
theorem tie_logCalls_confirm : Generated.logCalls_confirm = Expected.logCalls_confirm := rfl
theorem tie_routes_confirm : Generated.routes_confirm = Expected.routes_confirm := rfl

end Tie.Confirm
