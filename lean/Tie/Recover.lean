/- Tie unit Recover: regenerated facts of /repo = facts the model is written against. -/
import Generated.Facts
import Tie.Expected

namespace Tie.Recover

theorem tie_fn_recover_Recover_Init : Generated.fn_recover_Recover_Init = Expected.fn_recover_Recover_Init := rfl
theorem tie_fn_recover_Recover_StartPost : Generated.fn_recover_Recover_StartPost = Expected.fn_recover_Recover_StartPost := rfl
theorem tie_fn_recover_Recover_SendRecoverEmail : Generated.fn_recover_Recover_SendRecoverEmail = Expected.fn_recover_Recover_SendRecoverEmail := rfl
theorem tie_fn_recover_Recover_EndPost : Generated.fn_recover_Recover_EndPost = Expected.fn_recover_Recover_EndPost := rfl
theorem tie_fn_recover_Recover_invalidToken : Generated.fn_recover_Recover_invalidToken = Expected.fn_recover_Recover_invalidToken := rfl
theorem tie_eventRegs_recover : Generated.eventRegs_recover = Expected.eventRegs_recover := rfl
theorem tie_stateCalls_recover : Generated.stateCalls_recover = Expected.stateCalls_recover := rfl
theorem tie_logCalls_recover : Generated.logCalls_recover = Expected.logCalls_recover := rfl
theorem tie_routes_recover : Generated.routes_recover = Expected.routes_recover := rfl

end Tie.Recover
