/- Tie unit Shared: regenerated facts of /repo = facts the model is written against. -/
import Generated.Facts
import Tie.Expected

namespace Tie.Shared

theorem tie_fn_defaults_SMTPMailer_Send : Generated.fn_defaults_SMTPMailer_Send = Expected.fn_defaults_SMTPMailer_Send := rfl
theorem tie_fn_defaults_SMTPMailer_boundary : Generated.fn_defaults_SMTPMailer_boundary = Expected.fn_defaults_SMTPMailer_boundary := rfl
theorem tie_fn_defaults_NewSMTPMailer : Generated.fn_defaults_NewSMTPMailer = Expected.fn_defaults_NewSMTPMailer := rfl
theorem tie_fn_defaults_LogMailer_Send : Generated.fn_defaults_LogMailer_Send = Expected.fn_defaults_LogMailer_Send := rfl
theorem tie_fn_defaults_Logger_Info : Generated.fn_defaults_Logger_Info = Expected.fn_defaults_Logger_Info := rfl
theorem tie_fn_defaults_Logger_Error : Generated.fn_defaults_Logger_Error = Expected.fn_defaults_Logger_Error := rfl
theorem tie_fn_defaults_SetCore : Generated.fn_defaults_SetCore = Expected.fn_defaults_SetCore := rfl
theorem tie_fn_authboss_Authboss_Init : Generated.fn_authboss_Authboss_Init = Expected.fn_authboss_Authboss_Init := rfl
theorem tie_fn_authboss_Authboss_loadModule : Generated.fn_authboss_Authboss_loadModule = Expected.fn_authboss_Authboss_loadModule := rfl
theorem tie_fn_authboss_RegisterModule : Generated.fn_authboss_RegisterModule = Expected.fn_authboss_RegisterModule := rfl
theorem tie_fn_authboss_New : Generated.fn_authboss_New = Expected.fn_authboss_New := rfl
theorem tie_pkgVars_authboss : Generated.pkgVars_authboss = Expected.pkgVars_authboss := rfl
theorem tie_pkgVars_auth : Generated.pkgVars_auth = Expected.pkgVars_auth := rfl
theorem tie_pkgVars_confirm : Generated.pkgVars_confirm = Expected.pkgVars_confirm := rfl
theorem tie_pkgVars_lock : Generated.pkgVars_lock = Expected.pkgVars_lock := rfl
theorem tie_pkgVars_logout : Generated.pkgVars_logout = Expected.pkgVars_logout := rfl
theorem tie_pkgVars_otp : Generated.pkgVars_otp = Expected.pkgVars_otp := rfl
theorem tie_pkgVars_otp_twofactor : Generated.pkgVars_otp_twofactor = Expected.pkgVars_otp_twofactor := rfl
theorem tie_pkgVars_otp_twofactor_sms2fa : Generated.pkgVars_otp_twofactor_sms2fa = Expected.pkgVars_otp_twofactor_sms2fa := rfl
theorem tie_pkgVars_otp_twofactor_totp2fa : Generated.pkgVars_otp_twofactor_totp2fa = Expected.pkgVars_otp_twofactor_totp2fa := rfl
theorem tie_pkgVars_recover : Generated.pkgVars_recover = Expected.pkgVars_recover := rfl
theorem tie_pkgVars_register : Generated.pkgVars_register = Expected.pkgVars_register := rfl
theorem tie_pkgVars_remember : Generated.pkgVars_remember = Expected.pkgVars_remember := rfl

end Tie.Shared
