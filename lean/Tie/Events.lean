/- Tie unit Events: regenerated facts of /repo = facts the model is written against. -/
import Generated.Facts
import Tie.Expected

namespace Tie.Events

theorem tie_fn_authboss_Events_Before : Generated.fn_authboss_Events_Before = Expected.fn_authboss_Events_Before := rfl
theorem tie_fn_authboss_Events_After : Generated.fn_authboss_Events_After = Expected.fn_authboss_Events_After := rfl
theorem tie_fn_authboss_Events_FireBefore : Generated.fn_authboss_Events_FireBefore = Expected.fn_authboss_Events_FireBefore := rfl
theorem tie_fn_authboss_Events_FireAfter : Generated.fn_authboss_Events_FireAfter = Expected.fn_authboss_Events_FireAfter := rfl
theorem tie_fn_authboss_Events_call : Generated.fn_authboss_Events_call = Expected.fn_authboss_Events_call := rfl
theorem tie_fn_authboss_NewEvents : Generated.fn_authboss_NewEvents = Expected.fn_authboss_NewEvents := rfl

end Tie.Events
