/- Tie unit Totp: regenerated facts of /repo = facts the model is written against. -/
import Generated.Facts
import Tie.Expected

namespace Tie.Totp

theorem tie_fn_otp_twofactor_totp2fa_TOTP_Setup : Generated.fn_otp_twofactor_totp2fa_TOTP_Setup = Expected.fn_otp_twofactor_totp2fa_TOTP_Setup := rfl
theorem tie_fn_otp_twofactor_totp2fa_TOTP_HijackAuth : Generated.fn_otp_twofactor_totp2fa_TOTP_HijackAuth = Expected.fn_otp_twofactor_totp2fa_TOTP_HijackAuth := rfl
theorem tie_fn_otp_twofactor_totp2fa_TOTP_GetSetup : Generated.fn_otp_twofactor_totp2fa_TOTP_GetSetup = Expected.fn_otp_twofactor_totp2fa_TOTP_GetSetup := rfl
theorem tie_fn_otp_twofactor_totp2fa_TOTP_PostSetup : Generated.fn_otp_twofactor_totp2fa_TOTP_PostSetup = Expected.fn_otp_twofactor_totp2fa_TOTP_PostSetup := rfl
theorem tie_fn_otp_twofactor_totp2fa_TOTP_PostConfirm : Generated.fn_otp_twofactor_totp2fa_TOTP_PostConfirm = Expected.fn_otp_twofactor_totp2fa_TOTP_PostConfirm := rfl
theorem tie_fn_otp_twofactor_totp2fa_TOTP_PostRemove : Generated.fn_otp_twofactor_totp2fa_TOTP_PostRemove = Expected.fn_otp_twofactor_totp2fa_TOTP_PostRemove := rfl
theorem tie_fn_otp_twofactor_totp2fa_TOTP_PostValidate : Generated.fn_otp_twofactor_totp2fa_TOTP_PostValidate = Expected.fn_otp_twofactor_totp2fa_TOTP_PostValidate := rfl
theorem tie_fn_otp_twofactor_totp2fa_TOTP_validate : Generated.fn_otp_twofactor_totp2fa_TOTP_validate = Expected.fn_otp_twofactor_totp2fa_TOTP_validate := rfl
theorem tie_consts_otp_twofactor_totp2fa : Generated.consts_otp_twofactor_totp2fa = Expected.consts_otp_twofactor_totp2fa := rfl
theorem tie_eventRegs_otp_twofactor_totp2fa : Generated.eventRegs_otp_twofactor_totp2fa = Expected.eventRegs_otp_twofactor_totp2fa := rfl
theorem tie_stateCalls_otp_twofactor_totp2fa : Generated.stateCalls_otp_twofactor_totp2fa = Expected.stateCalls_otp_twofactor_totp2fa := rfl
theorem tie_logCalls_otp_twofactor_totp2fa : Generated.logCalls_otp_twofactor_totp2fa = Expected.logCalls_otp_twofactor_totp2fa := rfl
theorem tie_routes_otp_twofactor_totp2fa : Generated.routes_otp_twofactor_totp2fa = Expected.routes_otp_twofactor_totp2fa := rfl

end Tie.Totp
