/- Tie unit OAuth2: regenerated facts of /repo = facts the model is written against. -/
import Generated.Facts
import Tie.Expected

namespace Tie.OAuth2

theorem tie_fn_oauth2_OAuth2_Init : Generated.fn_oauth2_OAuth2_Init = Expected.fn_oauth2_OAuth2_Init := rfl
theorem tie_fn_oauth2_OAuth2_Start : Generated.fn_oauth2_OAuth2_Start = Expected.fn_oauth2_OAuth2_Start := rfl
theorem tie_fn_oauth2_OAuth2_End : Generated.fn_oauth2_OAuth2_End = Expected.fn_oauth2_OAuth2_End := rfl
theorem tie_fn_oauth2_RMTrue_GetShouldRemember : Generated.fn_oauth2_RMTrue_GetShouldRemember = Expected.fn_oauth2_RMTrue_GetShouldRemember := rfl
theorem tie_consts_oauth2 : Generated.consts_oauth2 = Expected.consts_oauth2 := rfl
theorem tie_eventRegs_oauth2 : Generated.eventRegs_oauth2 = Expected.eventRegs_oauth2 := rfl
theorem tie_stateCalls_oauth2 : Generated.stateCalls_oauth2 = Expected.stateCalls_oauth2 := rfl
theorem tie_logCalls_oauth2 : Generated.logCalls_oauth2 = Expected.logCalls_oauth2 := rfl
theorem tie_routes_oauth2 : Generated.routes_oauth2 = Expected.routes_oauth2 := rfl
theorem tie_pkgVars_oauth2 : Generated.pkgVars_oauth2 = Expected.pkgVars_oauth2 := rfl

end Tie.OAuth2
