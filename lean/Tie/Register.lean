/- Tie unit Register: regenerated facts of /repo = facts the model is written against. -/
import Generated.Facts
import Tie.Expected

namespace Tie.Register

theorem tie_fn_register_Register_Init : Generated.fn_register_Register_Init = Expected.fn_register_Register_Init := rfl
theorem tie_fn_register_Register_Post : Generated.fn_register_Register_Post = Expected.fn_register_Register_Post := rfl
theorem tie_fn_register_hasString : Generated.fn_register_hasString = Expected.fn_register_hasString := rfl
theorem tie_eventRegs_register : Generated.eventRegs_register = Expected.eventRegs_register := rfl
theorem tie_stateCalls_register : Generated.stateCalls_register = Expected.stateCalls_register := rfl
theorem tie_logCalls_register : Generated.logCalls_register = Expected.logCalls_register := rfl
theorem tie_routes_register : Generated.routes_register = Expected.routes_register := rfl

end Tie.Register
