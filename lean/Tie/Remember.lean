/- Tie unit Remember: regenerated facts of /repo = facts the model is written against. -/
import Generated.Facts
import Tie.Expected

namespace Tie.Remember

theorem tie_fn_remember_Remember_Init : Generated.fn_remember_Remember_Init = Expected.fn_remember_Remember_Init := rfl
theorem tie_fn_remember_Remember_RememberAfterAuth : Generated.fn_remember_Remember_RememberAfterAuth = Expected.fn_remember_Remember_RememberAfterAuth := rfl
theorem tie_fn_remember_Middleware : Generated.fn_remember_Middleware = Expected.fn_remember_Middleware := rfl
theorem tie_fn_remember_Authenticate : Generated.fn_remember_Authenticate = Expected.fn_remember_Authenticate := rfl
theorem tie_fn_remember_Remember_AfterPasswordReset : Generated.fn_remember_Remember_AfterPasswordReset = Expected.fn_remember_Remember_AfterPasswordReset := rfl
theorem tie_fn_remember_GenerateToken : Generated.fn_remember_GenerateToken = Expected.fn_remember_GenerateToken := rfl
theorem tie_fn_remember_halfAuthState_Get : Generated.fn_remember_halfAuthState_Get = Expected.fn_remember_halfAuthState_Get := rfl
theorem tie_consts_remember : Generated.consts_remember = Expected.consts_remember := rfl
theorem tie_eventRegs_remember : Generated.eventRegs_remember = Expected.eventRegs_remember := rfl
theorem tie_stateCalls_remember : Generated.stateCalls_remember = Expected.stateCalls_remember := rfl
theorem tie_logCalls_remember : Generated.logCalls_remember = Expected.logCalls_remember := rfl

end Tie.Remember
