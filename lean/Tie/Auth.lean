/- Tie unit Auth: regenerated facts of /repo = facts the model is written against. -/
import Generated.Facts
import Tie.Expected

namespace Tie.Auth

theorem tie_fn_auth_Auth_Init : Generated.fn_auth_Auth_Init = Expected.fn_auth_Auth_Init := rfl
theorem tie_fn_auth_Auth_LoginPost : Generated.fn_auth_Auth_LoginPost = Expected.fn_auth_Auth_LoginPost := rfl
theorem tie_eventRegs_auth : Generated.eventRegs_auth = Expected.eventRegs_auth := rfl
theorem tie_stateCalls_auth : Generated.stateCalls_auth = Expected.stateCalls_auth := rfl
theorem tie_logCalls_auth : Generated.logCalls_auth = Expected.logCalls_auth := rfl
theorem tie_routes_auth : Generated.routes_auth = Expected.routes_auth := rfl

end Tie.Auth
