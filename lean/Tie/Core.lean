/- Tie unit Core: regenerated facts of /repo = facts the model is written against. -/
import Generated.Facts
import Tie.Expected

namespace Tie.Core

theorem tie_fn_authboss_Authboss_UpdatePassword : Generated.fn_authboss_Authboss_UpdatePassword = Expected.fn_authboss_Authboss_UpdatePassword := rfl
theorem tie_fn_authboss_Authboss_VerifyPassword : Generated.fn_authboss_Authboss_VerifyPassword = Expected.fn_authboss_Authboss_VerifyPassword := rfl
theorem tie_fn_authboss_bcryptHasher_CompareHashAndPassword : Generated.fn_authboss_bcryptHasher_CompareHashAndPassword = Expected.fn_authboss_bcryptHasher_CompareHashAndPassword := rfl
theorem tie_fn_authboss_bcryptHasher_GenerateHash : Generated.fn_authboss_bcryptHasher_GenerateHash = Expected.fn_authboss_bcryptHasher_GenerateHash := rfl
theorem tie_fn_authboss_Sha512TokenGenerator_GenerateToken : Generated.fn_authboss_Sha512TokenGenerator_GenerateToken = Expected.fn_authboss_Sha512TokenGenerator_GenerateToken := rfl
theorem tie_fn_authboss_Sha512TokenGenerator_ParseToken : Generated.fn_authboss_Sha512TokenGenerator_ParseToken = Expected.fn_authboss_Sha512TokenGenerator_ParseToken := rfl
theorem tie_fn_authboss_Sha512TokenGenerator_TokenSize : Generated.fn_authboss_Sha512TokenGenerator_TokenSize = Expected.fn_authboss_Sha512TokenGenerator_TokenSize := rfl
theorem tie_fn_authboss_MakeOAuth2PID : Generated.fn_authboss_MakeOAuth2PID = Expected.fn_authboss_MakeOAuth2PID := rfl
theorem tie_fn_authboss_ParseOAuth2PID : Generated.fn_authboss_ParseOAuth2PID = Expected.fn_authboss_ParseOAuth2PID := rfl
theorem tie_fn_authboss_Authboss_Email : Generated.fn_authboss_Authboss_Email = Expected.fn_authboss_Authboss_Email := rfl
theorem tie_consts_authboss : Generated.consts_authboss = Expected.consts_authboss := rfl
theorem tie_stateCalls_authboss : Generated.stateCalls_authboss = Expected.stateCalls_authboss := rfl

end Tie.Core
