/- PINNED by bin/pin-expected: the facts of /repo the model was written against. -/
namespace Expected

def fn_auth_Auth_Init : String := "func(ab *authboss.Authboss) (err error) { a.Authboss = ab if err = a.Authboss.Config.Core.ViewRenderer.Load(PageLogin); err != nil { return err } a.Authboss.Config.Core.Router.Get(\"/login\", a.Authboss.Core.ErrorHandler.Wrap(a.LoginGet)) a.Authboss.Config.Core.Router.Post(\"/login\", a.Authboss.Core.ErrorHandler.Wrap(a.LoginPost)) return nil }"
def fn_auth_Auth_LoginPost : String := "func(w http.ResponseWriter, r *http.Request) error { validatable, err := a.Authboss.Core.BodyReader.Read(PageLogin, r) if err != nil { return err } creds := authboss.MustHaveUserValues(validatable) pid := creds.GetPID() pidUser, err := a.Authboss.Storage.Server.Load(r.Context(), pid) if err == authboss.ErrUserNotFound { data := authboss.HTMLData{authboss.DataErr: a.Localizef(r.Context(), authboss.TxtInvalidCredentials)} return a.Authboss.Core.Responder.Respond(w, r, http.StatusOK, PageLogin, data) } else if err != nil { return err } authUser := authboss.MustBeAuthable(pidUser) password := authUser.GetPassword() r = r.WithContext(context.WithValue(r.Context(), authboss.CTXKeyUser, pidUser)) var handled bool err = a.Authboss.Core.Hasher.CompareHashAndPassword(password, creds.GetPassword()) if err != nil { handled, err = a.Authboss.Events.FireAfter(authboss.EventAuthFail, w, r) if err != nil { return err } else if handled { return nil } data := authboss.HTMLData{authboss.DataErr: a.Localizef(r.Context(), authboss.TxtInvalidCredentials)} return a.Authboss.Core.Responder.Respond(w, r, http.StatusOK, PageLogin, data) } r = r.WithContext(context.WithValue(r.Context(), authboss.CTXKeyValues, validatable)) handled, err = a.Events.FireBefore(authboss.EventAuth, w, r) if err != nil { return err } else if handled { return nil } handled, err = a.Events.FireBefore(authboss.EventAuthHijack, w, r) if err != nil { return err } else if handled { return nil } authboss.PutSession(w, authboss.SessionKey, pid) authboss.DelSession(w, authboss.SessionHalfAuthKey) handled, err = a.Authboss.Events.FireAfter(authboss.EventAuth, w, r) if err != nil { return err } else if handled { return nil } ro := authboss.RedirectOptions{ Code: http.StatusTemporaryRedirect, RedirectPath: a.Authboss.Paths.AuthLoginOK, FollowRedirParam: true, } return a.Authboss.Core.Redirector.Redirect(w, r, ro) }"
def eventRegs_auth : List (String × String) := [
]
def stateCalls_auth : List (String × String) := [
  ("auth.Auth.LoginPost", "PutSession(authboss.SessionKey, pid)"),
  ("auth.Auth.LoginPost", "DelSession(authboss.SessionHalfAuthKey)")
]
def logCalls_auth : List (String × String) := [
  ("auth.Auth.LoginPost", "Infof(\"failed to load user requested by pid: %s\" | pid)"),
  ("auth.Auth.LoginPost", "Infof(\"user %s failed to log in\" | pid)"),
  ("auth.Auth.LoginPost", "Infof(\"user %s logged in\" | pid)")
]
def routes_auth : List (String × String) := [
  ("auth.Auth.Init", "Get \"/login\" a.Authboss.Core.ErrorHandler.Wrap(a.LoginGet)"),
  ("auth.Auth.Init", "Post \"/login\" a.Authboss.Core.ErrorHandler.Wrap(a.LoginPost)")
]
def fn_authboss_ClientStateResponseWriter_WriteHeader : String := "func(code int) { if !c.hasWritten { if err := c.putClientState(); err != nil { panic(err) } } c.ResponseWriter.WriteHeader(code) }"
def fn_authboss_ClientStateResponseWriter_Write : String := "func(b []byte) (int, error) { if !c.hasWritten { if err := c.putClientState(); err != nil { return 0, err } } return c.ResponseWriter.Write(b) }"
def fn_authboss_ClientStateResponseWriter_putClientState : String := "func() error { if c.hasWritten { panic(\"should not call putClientState twice\") } c.hasWritten = true if len(c.cookieStateEvents) == 0 && len(c.sessionStateEvents) == 0 { return nil } if c.sessionStateRW != nil && len(c.sessionStateEvents) > 0 { err := c.sessionStateRW.WriteState(c, c.sessionState, c.sessionStateEvents) if err != nil { return err } } if c.cookieStateRW != nil && len(c.cookieStateEvents) > 0 { err := c.cookieStateRW.WriteState(c, c.cookieState, c.cookieStateEvents) if err != nil { return err } } return nil }"
def fn_authboss_ClientStateResponseWriter_UnderlyingResponseWriter : String := "func() http.ResponseWriter { return c.ResponseWriter }"
def fn_authboss_ClientStateResponseWriter_Unwrap : String := "func() http.ResponseWriter { return c.ResponseWriter }"
def fn_authboss_MustClientStateResponseWriter : String := "func(w http.ResponseWriter) *ClientStateResponseWriter { for { if c, ok := w.(*ClientStateResponseWriter); ok { return c } if u, ok := w.(UnderlyingResponseWriter); ok { w = u.UnderlyingResponseWriter() continue } if u, ok := w.(WrappingResponseWriter); ok { w = u.Unwrap() continue } panic(fmt.Sprintf(\"ResponseWriter must be a ClientStateResponseWriter or UnderlyingResponseWriter in (see: authboss.LoadClientStateMiddleware): %T\", w)) } }"
def fn_authboss_setState : String := "func(w http.ResponseWriter, ctxKey contextKey, op ClientStateEventKind, key, val string) { csrw := MustClientStateResponseWriter(w) ev := ClientStateEvent{ Kind: op, Key: key, } if op == ClientStateEventPut { ev.Value = val } switch ctxKey { case CTXKeySessionState: csrw.sessionStateEvents = append(csrw.sessionStateEvents, ev) case CTXKeyCookieState: csrw.cookieStateEvents = append(csrw.cookieStateEvents, ev) } }"
def fn_authboss_putState : String := "func(w http.ResponseWriter, CTXKey contextKey, key, val string) { setState(w, CTXKey, ClientStateEventPut, key, val) }"
def fn_authboss_delState : String := "func(w http.ResponseWriter, CTXKey contextKey, key string) { setState(w, CTXKey, ClientStateEventDel, key, \"\") }"
def fn_authboss_delAllState : String := "func(w http.ResponseWriter, CTXKey contextKey, whitelist []string) { setState(w, CTXKey, ClientStateEventDelAll, strings.Join(whitelist, \",\"), \"\") }"
def fn_authboss_getState : String := "func(r *http.Request, ctxKey contextKey, key string) (string, bool) { val := r.Context().Value(ctxKey) if val == nil { return \"\", false } state := val.(ClientState) return state.Get(key) }"
def fn_authboss_PutSession : String := "func(w http.ResponseWriter, key, val string) { putState(w, CTXKeySessionState, key, val) }"
def fn_authboss_DelSession : String := "func(w http.ResponseWriter, key string) { delState(w, CTXKeySessionState, key) }"
def fn_authboss_GetSession : String := "func(r *http.Request, key string) (string, bool) { return getState(r, CTXKeySessionState, key) }"
def fn_authboss_PutCookie : String := "func(w http.ResponseWriter, key, val string) { putState(w, CTXKeyCookieState, key, val) }"
def fn_authboss_DelCookie : String := "func(w http.ResponseWriter, key string) { delState(w, CTXKeyCookieState, key) }"
def fn_authboss_GetCookie : String := "func(r *http.Request, key string) (string, bool) { return getState(r, CTXKeyCookieState, key) }"
def fn_authboss_DelAllSession : String := "func(w http.ResponseWriter, whitelist []string) { delAllState(w, CTXKeySessionState, whitelist) }"
def fn_authboss_Authboss_NewResponse : String := "func(w http.ResponseWriter) *ClientStateResponseWriter { return &ClientStateResponseWriter{ ResponseWriter: w, cookieStateRW: a.Config.Storage.CookieState, sessionStateRW: a.Config.Storage.SessionState, } }"
def fn_authboss_Authboss_LoadClientState : String := "func(w http.ResponseWriter, r *http.Request) (*http.Request, error) { if a.Storage.SessionState != nil { state, err := a.Storage.SessionState.ReadState(r) if err != nil { return nil, err } else if state != nil { c := MustClientStateResponseWriter(w) c.sessionState = state r = r.WithContext(context.WithValue(r.Context(), CTXKeySessionState, state)) } } if a.Storage.CookieState != nil { state, err := a.Storage.CookieState.ReadState(r) if err != nil { return nil, err } else if state != nil { c := MustClientStateResponseWriter(w) c.cookieState = state r = r.WithContext(context.WithValue(r.Context(), CTXKeyCookieState, state)) } } return r, nil }"
def fn_confirm_Confirm_Init : String := "func(ab *authboss.Authboss) (err error) { c.Authboss = ab if err = c.Authboss.Config.Core.MailRenderer.Load(EmailConfirmHTML, EmailConfirmTxt); err != nil { return err } var callbackMethod func(string, http.Handler) methodConfig := c.Config.Modules.ConfirmMethod if methodConfig == http.MethodGet { methodConfig = c.Config.Modules.MailRouteMethod } switch methodConfig { case http.MethodGet: callbackMethod = c.Authboss.Config.Core.Router.Get case http.MethodPost: callbackMethod = c.Authboss.Config.Core.Router.Post default: panic(\"invalid config for ConfirmMethod/MailRouteMethod\") } callbackMethod(\"/confirm\", c.Authboss.Config.Core.ErrorHandler.Wrap(c.Get)) c.Events.Before(authboss.EventAuth, c.PreventAuth) c.Events.After(authboss.EventRegister, c.StartConfirmationWeb) return nil }"
def fn_confirm_Confirm_PreventAuth : String := "func(w http.ResponseWriter, r *http.Request, handled bool) (bool, error) { user, err := c.Authboss.CurrentUser(r) if err != nil { return false, err } cuser := authboss.MustBeConfirmable(user) if cuser.GetConfirmed() { return false, nil } ro := authboss.RedirectOptions{ Code: http.StatusTemporaryRedirect, RedirectPath: c.Authboss.Config.Paths.ConfirmNotOK, Failure: c.Localizef(r.Context(), authboss.TxtAccountNotConfirmed), } return true, c.Authboss.Config.Core.Redirector.Redirect(w, r, ro) }"
def fn_confirm_Confirm_StartConfirmationWeb : String := "func(w http.ResponseWriter, r *http.Request, handled bool) (bool, error) { user, err := c.Authboss.CurrentUser(r) if err != nil { return false, err } cuser := authboss.MustBeConfirmable(user) if err = c.StartConfirmation(r.Context(), cuser, true); err != nil { return false, err } ro := authboss.RedirectOptions{ Code: http.StatusTemporaryRedirect, RedirectPath: c.Authboss.Config.Paths.ConfirmNotOK, Success: c.Localizef(r.Context(), authboss.TxtConfirmYourAccount), } return true, c.Authboss.Config.Core.Redirector.Redirect(w, r, ro) }"
def fn_confirm_Confirm_StartConfirmation : String := "func(ctx context.Context, user authboss.ConfirmableUser, sendEmail bool) error { selector, verifier, token, err := c.Authboss.Core.OneTimeTokenGenerator.GenerateToken() if err != nil { return err } user.PutConfirmed(false) user.PutConfirmSelector(selector) user.PutConfirmVerifier(verifier) if err := c.Authboss.Config.Storage.Server.Save(ctx, user); err != nil { return errors.Wrap(err, \"failed to save user during StartConfirmation, user data may be in weird state\") } if c.Authboss.Config.Modules.MailNoGoroutine { c.SendConfirmEmail(ctx, user.GetEmail(), token) } else { go c.SendConfirmEmail(ctx, user.GetEmail(), token) } return nil }"
def fn_confirm_Confirm_SendConfirmEmail : String := "func(ctx context.Context, to, token string) { mailURL := c.mailURL(token) email := authboss.Email{ To: []string{to}, From: c.Config.Mail.From, FromName: c.Config.Mail.FromName, Subject: c.Config.Mail.SubjectPrefix + c.Localizef(ctx, authboss.TxtConfirmEmailSubject), } ro := authboss.EmailResponseOptions{ Data: authboss.NewHTMLData(DataConfirmURL, mailURL), HTMLTemplate: EmailConfirmHTML, TextTemplate: EmailConfirmTxt, } if err := c.Authboss.Email(ctx, email, ro); err != nil { } }"
def fn_confirm_Confirm_Get : String := "func(w http.ResponseWriter, r *http.Request) error { validator, err := c.Authboss.Config.Core.BodyReader.Read(PageConfirm, r) if err != nil { return err } if errs := validator.Validate(); errs != nil { return c.invalidToken(w, r) } values := authboss.MustHaveConfirmValues(validator) rawToken, err := base64.URLEncoding.DecodeString(values.GetToken()) if err != nil { return c.invalidToken(w, r) } credsGenerator := c.Authboss.Core.OneTimeTokenGenerator if len(rawToken) != credsGenerator.TokenSize() { return c.invalidToken(w, r) } selectorBytes, verifierBytes := credsGenerator.ParseToken(string(rawToken)) selector := base64.StdEncoding.EncodeToString(selectorBytes[:]) storer := authboss.EnsureCanConfirm(c.Authboss.Config.Storage.Server) user, err := storer.LoadByConfirmSelector(r.Context(), selector) if err == authboss.ErrUserNotFound { return c.invalidToken(w, r) } else if err != nil { return err } dbVerifierBytes, err := base64.StdEncoding.DecodeString(user.GetConfirmVerifier()) if err != nil { return c.invalidToken(w, r) } if subtle.ConstantTimeEq(int32(len(verifierBytes)), int32(len(dbVerifierBytes))) != 1 || subtle.ConstantTimeCompare(verifierBytes[:], dbVerifierBytes) != 1 { return c.invalidToken(w, r) } user.PutConfirmSelector(\"\") user.PutConfirmVerifier(\"\") user.PutConfirmed(true) if err = c.Authboss.Config.Storage.Server.Save(r.Context(), user); err != nil { return err } ro := authboss.RedirectOptions{ Code: http.StatusTemporaryRedirect, Success: c.Localizef(r.Context(), authboss.TxtConfrimationSuccess), RedirectPath: c.Authboss.Config.Paths.ConfirmOK, } return c.Authboss.Config.Core.Redirector.Redirect(w, r, ro) }"
def fn_confirm_Confirm_invalidToken : String := "func(w http.ResponseWriter, r *http.Request) error { ro := authboss.RedirectOptions{ Code: http.StatusTemporaryRedirect, Failure: c.Localizef(r.Context(), authboss.TxtInvalidConfirmToken), RedirectPath: c.Authboss.Config.Paths.ConfirmNotOK, } return c.Authboss.Config.Core.Redirector.Redirect(w, r, ro) }"
def fn_confirm_Middleware : String := "func(ab *authboss.Authboss) func(http.Handler) http.Handler { return func(next http.Handler) http.Handler { return http.HandlerFunc(func(w http.ResponseWriter, r *http.Request) { user := ab.LoadCurrentUserP(&r) cu := authboss.MustBeConfirmable(user) if cu.GetConfirmed() { next.ServeHTTP(w, r) return } ro := authboss.RedirectOptions{ Code: http.StatusTemporaryRedirect, Failure: ab.Localizef(r.Context(), authboss.TxtAccountNotConfirmed), RedirectPath: ab.Config.Paths.ConfirmNotOK, } if err := ab.Config.Core.Redirector.Redirect(w, r, ro); err != nil { } }) } }"
def eventRegs_confirm : List (String × String) := [
  ("confirm.Confirm.Init", "Before authboss.EventAuth c.PreventAuth"),
  ("confirm.Confirm.Init", "After authboss.EventRegister c.StartConfirmationWeb")
]
def stateCalls_confirm : List (String × String) := [
]
def logCalls_confirm : List (String × String) := [
  ("confirm.Confirm.PreventAuth", "Infof(\"user %s is confirmed, allowing auth\" | user.GetPID())"),
  ("confirm.Confirm.PreventAuth", "Infof(\"user %s was not confirmed, preventing auth\" | user.GetPID())"),
  ("confirm.Confirm.StartConfirmation", "Infof(\"generated new confirm token for user: %s\" | user.GetPID())"),
  ("confirm.Confirm.SendConfirmEmail", "Infof(\"sending confirm e-mail to: %s\" | to)"),
  ("confirm.Confirm.SendConfirmEmail", "Errorf(\"failed to send confirm e-mail to %s: %+v\" | to | err)"),
  ("confirm.Confirm.Get", "Infof(\"validation failed in Confirm.Get, this typically means a bad token: %+v\" | errs)"),
  ("confirm.Confirm.Get", "Infof(\"error decoding token in Confirm.Get, this typically means a bad token: %+v\" | err)"),
  ("confirm.Confirm.Get", "Infof(\"invalid confirm token submitted, size was wrong: %d\" | len(rawToken))"),
  ("confirm.Confirm.Get", "Infof(\"confirm selector was not found in database: %s\" | selector)"),
  ("confirm.Confirm.Get", "Infof(\"invalid confirm verifier stored in database: %s\" | user.GetConfirmVerifier())"),
  ("confirm.Confirm.Get", "Info(\"stored confirm verifier does not match provided one\")"),
  ("confirm.Confirm.Get", "Infof(\"user %s confirmed their account\" | user.GetPID())"),
  ("confirm.Middleware", "Infof(\"user %s prevented from accessing %s: not confirmed\" | user.GetPID() | r.URL.Path)"),
  ("confirm.Middleware", "Errorf(\"error redirecting in confirm.Middleware: #%v\" | err)")
]
def routes_confirm : List (String × String) := [
  ("confirm.Confirm.Init", "callbackMethod \"/confirm\" c.Authboss.Config.Core.ErrorHandler.Wrap(c.Get)")
]
def fn_authboss_Authboss_CurrentUserID : String := "func(r *http.Request) (string, error) { if pid := r.Context().Value(CTXKeyPID); pid != nil { return pid.(string), nil } pid, _ := GetSession(r, SessionKey) return pid, nil }"
def fn_authboss_Authboss_CurrentUser : String := "func(r *http.Request) (User, error) { if user := r.Context().Value(CTXKeyUser); user != nil { return user.(User), nil } pid, err := a.CurrentUserID(r) if err != nil { return nil, err } else if len(pid) == 0 { return nil, ErrUserNotFound } return a.currentUser(r.Context(), pid) }"
def fn_authboss_Authboss_currentUser : String := "func(ctx context.Context, pid string) (User, error) { return a.Storage.Server.Load(ctx, pid) }"
def fn_authboss_Authboss_LoadCurrentUserID : String := "func(r **http.Request) (string, error) { pid, err := a.CurrentUserID(*r) if err != nil { return \"\", err } if len(pid) == 0 { return \"\", nil } ctx := context.WithValue((**r).Context(), CTXKeyPID, pid) *r = (**r).WithContext(ctx) return pid, nil }"
def fn_authboss_Authboss_LoadCurrentUser : String := "func(r **http.Request) (User, error) { if user := (*r).Context().Value(CTXKeyUser); user != nil { return user.(User), nil } pid, err := a.LoadCurrentUserID(r) if err != nil { return nil, err } else if len(pid) == 0 { return nil, ErrUserNotFound } ctx := (**r).Context() user, err := a.currentUser(ctx, pid) if err != nil { return nil, err } ctx = context.WithValue(ctx, CTXKeyUser, user) *r = (**r).WithContext(ctx) return user, nil }"
def fn_authboss_Authboss_LoadCurrentUserP : String := "func(r **http.Request) User { user, err := a.LoadCurrentUser(r) if err != nil { panic(err) } else if user == nil { panic(ErrUserNotFound) } return user }"
def fn_authboss_Authboss_CurrentUserP : String := "func(r *http.Request) User { i, err := a.CurrentUser(r) if err != nil { panic(err) } else if i == nil { panic(ErrUserNotFound) } return i }"
def fn_authboss_IsFullyAuthed : String := "func(r *http.Request) bool { _, hasHalfAuth := GetSession(r, SessionHalfAuthKey) return !hasHalfAuth }"
def fn_authboss_IsTwoFactored : String := "func(r *http.Request) bool { _, has2fa := GetSession(r, Session2FA) return has2fa }"
def fn_authboss_DelKnownSession : String := "func(w http.ResponseWriter) { DelSession(w, SessionKey) DelSession(w, SessionHalfAuthKey) DelSession(w, SessionLastAction) }"
def fn_authboss_DelKnownCookie : String := "func(w http.ResponseWriter) { DelCookie(w, CookieRemember) }"
def fn_authboss_Authboss_UpdatePassword : String := "func(ctx context.Context, user AuthableUser, newPassword string) error { pass, err := a.Config.Core.Hasher.GenerateHash(newPassword) if err != nil { return err } user.PutPassword(pass) storer := a.Config.Storage.Server if err := storer.Save(ctx, user); err != nil { return err } rmStorer, ok := storer.(RememberingServerStorer) if !ok { return nil } return rmStorer.DelRememberTokens(ctx, user.GetPID()) }"
def fn_authboss_Authboss_VerifyPassword : String := "func(user AuthableUser, password string) error { return a.Core.Hasher.CompareHashAndPassword(user.GetPassword(), password) }"
def fn_authboss_bcryptHasher_CompareHashAndPassword : String := "func(hashedPassword, password string) error { return bcrypt.CompareHashAndPassword([]byte(hashedPassword), []byte(password)) }"
def fn_authboss_bcryptHasher_GenerateHash : String := "func(password string) (string, error) { hash, err := bcrypt.GenerateFromPassword([]byte(password), h.cost) if err != nil { return \"\", err } return string(hash), nil }"
def fn_authboss_Sha512TokenGenerator_GenerateToken : String := "func() (selector, verifier, token string, err error) { rawToken := make([]byte, tokenSize) if _, err = io.ReadFull(rand.Reader, rawToken); err != nil { return \"\", \"\", \"\", err } selectorBytes := sha512.Sum512(rawToken[:tokenSplit]) verifierBytes := sha512.Sum512(rawToken[tokenSplit:]) return base64.StdEncoding.EncodeToString(selectorBytes[:]), base64.StdEncoding.EncodeToString(verifierBytes[:]), base64.URLEncoding.EncodeToString(rawToken), nil }"
def fn_authboss_Sha512TokenGenerator_ParseToken : String := "func(rawToken string) (selectorBytes, verifierBytes []byte) { selectorBytes64 := sha512.Sum512([]byte(rawToken)[:tokenSplit]) selectorBytes = selectorBytes64[:] verifierBytes64 := sha512.Sum512([]byte(rawToken)[tokenSplit:]) verifierBytes = verifierBytes64[:] return }"
def fn_authboss_Sha512TokenGenerator_TokenSize : String := "func() int { return tokenSize }"
def fn_authboss_MakeOAuth2PID : String := "func(provider, uid string) string { return fmt.Sprintf(\"oauth2;;%s;;%s\", provider, uid) }"
def fn_authboss_ParseOAuth2PID : String := "func(pid string) (provider, uid string, err error) { splits := strings.Split(pid, \";;\") if len(splits) != 3 { return \"\", \"\", errors.Errorf(\"failed to parse oauth2 pid, too many segments: %s\", pid) } if splits[0] != \"oauth2\" { return \"\", \"\", errors.Errorf(\"invalid oauth2 pid, did not start with oauth2: %s\", pid) } return splits[1], splits[2], nil }"
def fn_authboss_Authboss_Email : String := "func(ctx context.Context, email Email, ro EmailResponseOptions) error { ctxData := ctx.Value(CTXKeyData) if ctxData != nil { if ro.Data == nil { ro.Data = HTMLData{} } ro.Data.Merge(ctxData.(HTMLData)) } if len(ro.HTMLTemplate) != 0 { htmlBody, _, err := a.Core.MailRenderer.Render(ctx, ro.HTMLTemplate, ro.Data) if err != nil { return errors.Wrap(err, \"failed to render e-mail html body\") } email.HTMLBody = string(htmlBody) } if len(ro.TextTemplate) != 0 { textBody, _, err := a.Core.MailRenderer.Render(ctx, ro.TextTemplate, ro.Data) if err != nil { return errors.Wrap(err, \"failed to render e-mail text body\") } email.TextBody = string(textBody) } return a.Core.Mailer.Send(ctx, email) }"
def consts_authboss : List (String × String) := [
  ("authboss.RequireNone", "0x00"),
  ("authboss.RequireFullAuth", "0x01"),
  ("authboss.Require2FA", "0x02"),
  ("authboss.RespondNotFound", "iota"),
  ("authboss.RespondRedirect", "<iota-or-implicit>"),
  ("authboss.RespondUnauthorized", "<iota-or-implicit>"),
  ("authboss.SessionKey", "\"uid\""),
  ("authboss.SessionHalfAuthKey", "\"halfauth\""),
  ("authboss.SessionLastAction", "\"last_action\""),
  ("authboss.Session2FA", "\"twofactor\""),
  ("authboss.Session2FAAuthToken", "\"twofactor_auth_token\""),
  ("authboss.Session2FAAuthed", "\"twofactor_authed\""),
  ("authboss.SessionOAuth2State", "\"oauth2_state\""),
  ("authboss.SessionOAuth2Params", "\"oauth2_params\""),
  ("authboss.CookieRemember", "\"rm\""),
  ("authboss.FlashSuccessKey", "\"flash_success\""),
  ("authboss.FlashErrorKey", "\"flash_error\""),
  ("authboss.ClientStateEventPut", "iota"),
  ("authboss.ClientStateEventDel", "<iota-or-implicit>"),
  ("authboss.ClientStateEventDelAll", "<iota-or-implicit>"),
  ("authboss.CTXKeyPID", "\"pid\""),
  ("authboss.CTXKeyUser", "\"user\""),
  ("authboss.CTXKeySessionState", "\"session\""),
  ("authboss.CTXKeyCookieState", "\"cookie\""),
  ("authboss.CTXKeyData", "\"data\""),
  ("authboss.CTXKeyValues", "\"values\""),
  ("authboss.EventRegister", "iota"),
  ("authboss.EventAuth", "<iota-or-implicit>"),
  ("authboss.EventAuthHijack", "<iota-or-implicit>"),
  ("authboss.EventOAuth2", "<iota-or-implicit>"),
  ("authboss.EventAuthFail", "<iota-or-implicit>"),
  ("authboss.EventOAuth2Fail", "<iota-or-implicit>"),
  ("authboss.EventRecoverStart", "<iota-or-implicit>"),
  ("authboss.EventRecoverEnd", "<iota-or-implicit>"),
  ("authboss.EventGetUser", "<iota-or-implicit>"),
  ("authboss.EventGetUserSession", "<iota-or-implicit>"),
  ("authboss.EventPasswordReset", "<iota-or-implicit>"),
  ("authboss.EventLogout", "<iota-or-implicit>"),
  ("authboss.EventTwoFactorAdded", "<iota-or-implicit>"),
  ("authboss.EventTwoFactorRemoved", "<iota-or-implicit>"),
  ("authboss.DataErr", "\"error\""),
  ("authboss.DataValidation", "\"errors\""),
  ("authboss.DataPreserve", "\"preserve\""),
  ("authboss.DataModules", "\"modules\""),
  ("authboss.tokenSize", "64"),
  ("authboss.tokenSplit", "tokenSize / 2"),
  ("authboss.FormValueRedirect", "\"redir\""),
  ("authboss._Event_name", "\"EventRegisterEventAuthEventAuthHijackEventOAuth2EventAuthFailEventOAuth2FailEventRecoverStartEventRecoverEndEventGetUserEventGetUserSessionEventPasswordResetEventLogoutEventTwoFactorAddedEventTwoFactorRemoved\""),
  ("authboss.ConfirmPrefix", "\"confirm_\"")
]
def stateCalls_authboss : List (String × String) := [
  ("authboss.DelKnownSession", "DelSession(SessionKey)"),
  ("authboss.DelKnownSession", "DelSession(SessionHalfAuthKey)"),
  ("authboss.DelKnownSession", "DelSession(SessionLastAction)"),
  ("authboss.DelKnownCookie", "DelCookie(CookieRemember)"),
  ("authboss.FlashSuccess", "DelSession(FlashSuccessKey)"),
  ("authboss.FlashError", "DelSession(FlashErrorKey)")
]
def fn_authboss_Events_Before : String := "func(e Event, f EventHandler) { events := c.before[e] events = append(events, f) c.before[e] = events }"
def fn_authboss_Events_After : String := "func(e Event, f EventHandler) { events := c.after[e] events = append(events, f) c.after[e] = events }"
def fn_authboss_Events_FireBefore : String := "func(e Event, w http.ResponseWriter, r *http.Request) (bool, error) { return c.call(c.before[e], w, r) }"
def fn_authboss_Events_FireAfter : String := "func(e Event, w http.ResponseWriter, r *http.Request) (bool, error) { return c.call(c.after[e], w, r) }"
def fn_authboss_Events_call : String := "func(evs []EventHandler, w http.ResponseWriter, r *http.Request) (bool, error) { handled := false for _, fn := range evs { interrupt, err := fn(w, r, handled) if err != nil { return false, err } if interrupt { handled = true } } return handled, nil }"
def fn_authboss_NewEvents : String := "func() *Events { return &Events{ before: make(map[Event][]EventHandler), after: make(map[Event][]EventHandler), } }"
def fn_expire_Setup : String := "func(ab *authboss.Authboss) error { refresh := func(w http.ResponseWriter, r *http.Request, handled bool) (bool, error) { refreshExpiry(w) return false, nil } ab.Events.After(authboss.EventAuth, refresh) ab.Events.After(authboss.EventOAuth2, refresh) ab.Events.After(authboss.EventRegister, refresh) return nil }"
def fn_expire_timeToExpiry : String := "func(r *http.Request, expireAfter time.Duration) time.Duration { dateStr, ok := authboss.GetSession(r, authboss.SessionLastAction) if !ok { return expireAfter } date, err := time.Parse(time.RFC3339, dateStr) if err != nil { panic(\"last_action is not a valid RFC3339 date\") } remaining := date.Add(expireAfter).Sub(nowTime().UTC()) if remaining > 0 { return remaining } return 0 }"
def fn_expire_refreshExpiry : String := "func(w http.ResponseWriter) { authboss.PutSession(w, authboss.SessionLastAction, nowTime().UTC().Format(time.RFC3339)) }"
def fn_expire_Middleware : String := "func(ab *authboss.Authboss) func(http.Handler) http.Handler { return func(next http.Handler) http.Handler { return expireMiddleware{ expireAfter: ab.Config.Modules.ExpireAfter, next: next, sessionWhitelist: ab.Config.Storage.SessionStateWhitelistKeys, } } }"
def fn_expire_expireMiddleware_ServeHTTP : String := "func(w http.ResponseWriter, r *http.Request) { if _, ok := authboss.GetSession(r, authboss.SessionKey); ok { ttl := timeToExpiry(r, m.expireAfter) if ttl == 0 { authboss.DelAllSession(w, m.sessionWhitelist) authboss.DelSession(w, authboss.SessionKey) authboss.DelSession(w, authboss.SessionLastAction) ctx := context.WithValue(r.Context(), authboss.CTXKeyPID, nil) ctx = context.WithValue(ctx, authboss.CTXKeyUser, nil) ctxState := r.Context().Value(authboss.CTXKeySessionState) if ctxState != nil { state := ctxState.(authboss.ClientState) whitelist := make(map[string]struct{}) for _, w := range m.sessionWhitelist { whitelist[w] = struct{}{} } newState := stateHider{cs: state, whitelist: whitelist} ctx = context.WithValue(ctx, authboss.CTXKeySessionState, newState) } r = r.WithContext(ctx) } else { refreshExpiry(w) } } m.next.ServeHTTP(w, r) }"
def fn_expire_stateHider_Get : String := "func(s string) (string, bool) { _, ok := k.whitelist[s] if !ok { return \"\", false } return k.cs.Get(s) }"
def eventRegs_expire : List (String × String) := [
  ("expire.Setup", "After authboss.EventAuth refresh"),
  ("expire.Setup", "After authboss.EventOAuth2 refresh"),
  ("expire.Setup", "After authboss.EventRegister refresh")
]
def stateCalls_expire : List (String × String) := [
  ("expire.refreshExpiry", "PutSession(authboss.SessionLastAction, nowTime().UTC().Format(time.RFC3339))"),
  ("expire.expireMiddleware.ServeHTTP", "DelAllSession(m.sessionWhitelist)"),
  ("expire.expireMiddleware.ServeHTTP", "DelSession(authboss.SessionKey)"),
  ("expire.expireMiddleware.ServeHTTP", "DelSession(authboss.SessionLastAction)")
]
def pkgVars_expire : List (String × String) := [
  ("expire.nowTime", "time.Now")
]
def fn_lock_Lock_Init : String := "func(ab *authboss.Authboss) error { l.Authboss = ab l.Events.Before(authboss.EventAuth, l.BeforeAuth) l.Events.Before(authboss.EventOAuth2, l.BeforeAuth) l.Events.After(authboss.EventAuth, l.AfterAuthSuccess) l.Events.After(authboss.EventAuthFail, l.AfterAuthFail) return nil }"
def fn_lock_Lock_BeforeAuth : String := "func(w http.ResponseWriter, r *http.Request, handled bool) (bool, error) { return l.updateLockedState(w, r, true) }"
def fn_lock_Lock_AfterAuthSuccess : String := "func(w http.ResponseWriter, r *http.Request, handled bool) (bool, error) { user, err := l.Authboss.CurrentUser(r) if err != nil { return false, err } lu := authboss.MustBeLockable(user) lu.PutAttemptCount(0) lu.PutLastAttempt(time.Now().UTC()) return false, l.Authboss.Config.Storage.Server.Save(r.Context(), lu) }"
def fn_lock_Lock_AfterAuthFail : String := "func(w http.ResponseWriter, r *http.Request, handled bool) (bool, error) { return l.updateLockedState(w, r, false) }"
def fn_lock_Lock_updateLockedState : String := "func(w http.ResponseWriter, r *http.Request, wasCorrectPassword bool) (bool, error) { user, err := l.Authboss.CurrentUser(r) if err != nil { return false, err } lu := authboss.MustBeLockable(user) last := lu.GetLastAttempt() attempts := lu.GetAttemptCount() attempts++ if !wasCorrectPassword { if time.Now().UTC().Sub(last) > l.Modules.LockWindow { attempts = 1 } if attempts >= l.Modules.LockAfter { lu.PutLocked(time.Now().UTC().Add(l.Modules.LockDuration)) } lu.PutAttemptCount(attempts) } lu.PutLastAttempt(time.Now().UTC()) if err := l.Authboss.Config.Storage.Server.Save(r.Context(), lu); err != nil { return false, err } if !IsLocked(lu) { return false, nil } ro := authboss.RedirectOptions{ Code: http.StatusTemporaryRedirect, Failure: l.Localizef(r.Context(), authboss.TxtLocked), RedirectPath: l.Authboss.Config.Paths.LockNotOK, } return true, l.Authboss.Config.Core.Redirector.Redirect(w, r, ro) }"
def fn_lock_Lock_Lock : String := "func(ctx context.Context, key string) error { user, err := l.Authboss.Config.Storage.Server.Load(ctx, key) if err != nil { return err } lu := authboss.MustBeLockable(user) lu.PutLocked(time.Now().UTC().Add(l.Authboss.Config.Modules.LockDuration)) return l.Authboss.Config.Storage.Server.Save(ctx, lu) }"
def fn_lock_Lock_Unlock : String := "func(ctx context.Context, key string) error { user, err := l.Authboss.Config.Storage.Server.Load(ctx, key) if err != nil { return err } lu := authboss.MustBeLockable(user) now := time.Now().UTC() lu.PutAttemptCount(0) lu.PutLastAttempt(now.Add(-l.Authboss.Config.Modules.LockWindow * 2)) lu.PutLocked(now.Add(-l.Authboss.Config.Modules.LockDuration)) return l.Authboss.Config.Storage.Server.Save(ctx, lu) }"
def fn_lock_Middleware : String := "func(ab *authboss.Authboss) func(http.Handler) http.Handler { return func(next http.Handler) http.Handler { return http.HandlerFunc(func(w http.ResponseWriter, r *http.Request) { user := ab.LoadCurrentUserP(&r) lu := authboss.MustBeLockable(user) if !IsLocked(lu) { next.ServeHTTP(w, r) return } ro := authboss.RedirectOptions{ Code: http.StatusTemporaryRedirect, Failure: ab.Localizef(r.Context(), authboss.TxtLocked), RedirectPath: ab.Config.Paths.LockNotOK, } if err := ab.Config.Core.Redirector.Redirect(w, r, ro); err != nil { } }) } }"
def fn_lock_IsLocked : String := "func(lu authboss.LockableUser) bool { return lu.GetLocked().After(time.Now().UTC()) }"
def eventRegs_lock : List (String × String) := [
  ("lock.Lock.Init", "Before authboss.EventAuth l.BeforeAuth"),
  ("lock.Lock.Init", "Before authboss.EventOAuth2 l.BeforeAuth"),
  ("lock.Lock.Init", "After authboss.EventAuth l.AfterAuthSuccess"),
  ("lock.Lock.Init", "After authboss.EventAuthFail l.AfterAuthFail")
]
def stateCalls_lock : List (String × String) := [
]
def logCalls_lock : List (String × String) := [
  ("lock.Middleware", "Infof(\"user %s prevented from accessing %s: locked\" | user.GetPID() | r.URL.Path)"),
  ("lock.Middleware", "Errorf(\"error redirecting in lock.Middleware: #%v\" | err)")
]
def fn_logout_Logout_Init : String := "func(ab *authboss.Authboss) error { l.Authboss = ab var logoutRouteMethod func(string, http.Handler) switch l.Config.Modules.LogoutMethod { case \"GET\": logoutRouteMethod = l.Config.Core.Router.Get case \"POST\": logoutRouteMethod = l.Config.Core.Router.Post case \"DELETE\": logoutRouteMethod = l.Config.Core.Router.Delete default: return errors.Errorf(\"logout wants to register a logout route but was given an invalid method: %s\", l.Config.Modules.LogoutMethod) } logoutRouteMethod(\"/logout\", l.Core.ErrorHandler.Wrap(l.Logout)) return nil }"
def fn_logout_Logout_Logout : String := "func(w http.ResponseWriter, r *http.Request) error { user, err := l.CurrentUser(r) if err == nil && user != nil { } else { } var handled bool handled, err = l.Events.FireBefore(authboss.EventLogout, w, r) if err != nil { return err } else if handled { return nil } authboss.DelAllSession(w, l.Config.Storage.SessionStateWhitelistKeys) authboss.DelKnownSession(w) authboss.DelKnownCookie(w) handled, err = l.Events.FireAfter(authboss.EventLogout, w, r) if err != nil { return err } else if handled { return nil } ro := authboss.RedirectOptions{ Code: http.StatusTemporaryRedirect, RedirectPath: l.Paths.LogoutOK, Success: l.Localizef(r.Context(), authboss.TxtLoggedOut), } return l.Core.Redirector.Redirect(w, r, ro) }"
def eventRegs_logout : List (String × String) := [
]
def stateCalls_logout : List (String × String) := [
  ("logout.Logout.Logout", "DelAllSession(l.Config.Storage.SessionStateWhitelistKeys)"),
  ("logout.Logout.Logout", "DelKnownSession()"),
  ("logout.Logout.Logout", "DelKnownCookie()")
]
def logCalls_logout : List (String × String) := [
  ("logout.Logout.Logout", "Infof(\"user %s logged out\" | user.GetPID())"),
  ("logout.Logout.Logout", "Info(\"user (unknown) logged out\")")
]
def routes_logout : List (String × String) := [
  ("logout.Logout.Init", "logoutRouteMethod \"/logout\" l.Core.ErrorHandler.Wrap(l.Logout)")
]
def fn_authboss_MountedMiddleware2 : String := "func(ab *Authboss, mountPathed bool, reqs MWRequirements, failResponse MWRespondOnFailure) func(http.Handler) http.Handler { return func(next http.Handler) http.Handler { return http.HandlerFunc(func(w http.ResponseWriter, r *http.Request) { fail := func(w http.ResponseWriter, r *http.Request) { switch failResponse { case RespondNotFound: w.WriteHeader(http.StatusNotFound) case RespondUnauthorized: w.WriteHeader(http.StatusUnauthorized) case RespondRedirect: vals := make(url.Values) redirURL := r.URL.Path if mountPathed && len(ab.Config.Paths.Mount) != 0 { redirURL = path.Join(ab.Config.Paths.Mount, redirURL) } if len(r.URL.RawQuery) != 0 { redirURL += \"?\" + r.URL.RawQuery } vals.Set(FormValueRedirect, redirURL) ro := RedirectOptions{ Code: http.StatusTemporaryRedirect, Failure: ab.Localizef(r.Context(), TxtAuthFailed), RedirectPath: path.Join(ab.Config.Paths.Mount, fmt.Sprintf(\"/login?%s\", vals.Encode())), } if err := ab.Config.Core.Redirector.Redirect(w, r, ro); err != nil { } return } } if hasBit(reqs, RequireFullAuth) && !IsFullyAuthed(r) || hasBit(reqs, Require2FA) && !IsTwoFactored(r) { fail(w, r) return } if _, err := ab.LoadCurrentUser(&r); err == ErrUserNotFound { fail(w, r) return } else if err != nil { w.WriteHeader(http.StatusInternalServerError) return } else { next.ServeHTTP(w, r) } }) } }"
def fn_authboss_Middleware2 : String := "func(ab *Authboss, requirements MWRequirements, failureResponse MWRespondOnFailure) func(http.Handler) http.Handler { return MountedMiddleware2(ab, false, requirements, failureResponse) }"
def fn_authboss_MountedMiddleware : String := "func(ab *Authboss, mountPathed, redirectToLogin, forceFullAuth, force2fa bool) func(http.Handler) http.Handler { var reqs MWRequirements failResponse := RespondNotFound if forceFullAuth { reqs |= RequireFullAuth } if force2fa { reqs |= Require2FA } if redirectToLogin { failResponse = RespondRedirect } return MountedMiddleware2(ab, mountPathed, reqs, failResponse) }"
def fn_authboss_Middleware : String := "func(ab *Authboss, redirectToLogin bool, forceFullAuth bool, force2fa bool) func(http.Handler) http.Handler { return MountedMiddleware(ab, false, redirectToLogin, forceFullAuth, force2fa) }"
def fn_authboss_hasBit : String := "func(reqs, req MWRequirements) bool { return reqs&req == req }"
def fn_oauth2_OAuth2_Init : String := "func(ab *authboss.Authboss) error { o.Authboss = ab // Do annoying sorting on keys so we can have predictable // route registration (both for consistency inside the router but // also for tests -_-) var keys []string for k := range o.Authboss.Config.Modules.OAuth2Providers { keys = append(keys, k) } sort.Strings(keys) for _, provider := range keys { cfg := o.Authboss.Config.Modules.OAuth2Providers[provider] provider = strings.ToLower(provider) init := fmt.Sprintf(\"/oauth2/%s\", provider) callback := fmt.Sprintf(\"/oauth2/callback/%s\", provider) o.Authboss.Config.Core.Router.Get(init, o.Authboss.Core.ErrorHandler.Wrap(o.Start)) o.Authboss.Config.Core.Router.Get(callback, o.Authboss.Core.ErrorHandler.Wrap(o.End)) if mount := o.Authboss.Config.Paths.Mount; len(mount) > 0 { callback = path.Join(mount, callback) } cfg.OAuth2Config.RedirectURL = o.Authboss.Config.Paths.RootURL + callback } return nil }"
def fn_oauth2_OAuth2_Start : String := "func(w http.ResponseWriter, r *http.Request) error { provider := strings.ToLower(filepath.Base(r.URL.Path)) cfg, ok := o.Authboss.Config.Modules.OAuth2Providers[provider] if !ok { return errors.Errorf(\"oauth2 provider %q not found\", provider) } nonce := make([]byte, 32) if _, err := io.ReadFull(rand.Reader, nonce); err != nil { return errors.Wrap(err, \"failed to create nonce\") } state := base64.URLEncoding.EncodeToString(nonce) authboss.PutSession(w, authboss.SessionOAuth2State, state) passAlongs := make(map[string]string) for k, vals := range r.URL.Query() { for _, val := range vals { passAlongs[k] = val } } if len(passAlongs) > 0 { byt, err := json.Marshal(passAlongs) if err != nil { return err } authboss.PutSession(w, authboss.SessionOAuth2Params, string(byt)) } else { authboss.DelSession(w, authboss.SessionOAuth2Params) } authCodeUrl := cfg.OAuth2Config.AuthCodeURL(state) extraParams := cfg.AdditionalParams.Encode() if len(extraParams) > 0 { authCodeUrl = fmt.Sprintf(\"%s&%s\", authCodeUrl, extraParams) } ro := authboss.RedirectOptions{ Code: http.StatusTemporaryRedirect, RedirectPath: authCodeUrl, } return o.Authboss.Core.Redirector.Redirect(w, r, ro) }"
def fn_oauth2_OAuth2_End : String := "func(w http.ResponseWriter, r *http.Request) error { provider := strings.ToLower(filepath.Base(r.URL.Path)) cfg, ok := o.Authboss.Config.Modules.OAuth2Providers[provider] if !ok { return errors.Errorf(\"oauth2 provider %q not found\", provider) } wantState, ok := authboss.GetSession(r, authboss.SessionOAuth2State) if !ok { return errors.New(\"oauth2 endpoint hit without session state\") } state := r.FormValue(FormValueOAuth2State) if state != wantState { return errOAuthStateValidation } rawParams, ok := authboss.GetSession(r, authboss.SessionOAuth2Params) var params map[string]string if ok { if err := json.Unmarshal([]byte(rawParams), &params); err != nil { return errors.Wrap(err, \"failed to decode oauth2 params\") } } authboss.DelSession(w, authboss.SessionOAuth2State) authboss.DelSession(w, authboss.SessionOAuth2Params) hasErr := r.FormValue(\"error\") if len(hasErr) > 0 { reason := r.FormValue(\"error_reason\") handled, err := o.Authboss.Events.FireAfter(authboss.EventOAuth2Fail, w, r) if err != nil { return err } else if handled { return nil } ro := authboss.RedirectOptions{ Code: http.StatusTemporaryRedirect, RedirectPath: o.Authboss.Config.Paths.OAuth2LoginNotOK, Failure: o.Localizef(r.Context(), authboss.TxtOAuth2LoginNotOK, provider), } return o.Authboss.Core.Redirector.Redirect(w, r, ro) } code := r.FormValue(\"code\") token, err := exchanger(cfg.OAuth2Config, r.Context(), code) if err != nil { return errors.Wrap(err, \"could not validate oauth2 code\") } details, err := cfg.FindUserDetails(r.Context(), *cfg.OAuth2Config, token) if err != nil { return err } storer := authboss.EnsureCanOAuth2(o.Authboss.Config.Storage.Server) user, err := storer.NewFromOAuth2(r.Context(), provider, details) if err != nil { return errors.Wrap(err, \"failed to create oauth2 user from values\") } user.PutOAuth2Provider(provider) user.PutOAuth2AccessToken(token.AccessToken) user.PutOAuth2Expiry(token.Expiry) if len(token.RefreshToken) != 0 { user.PutOAuth2RefreshToken(token.RefreshToken) } if err := storer.SaveOAuth2(r.Context(), user); err != nil { return err } r = r.WithContext(context.WithValue(r.Context(), authboss.CTXKeyUser, user)) handled, err := o.Authboss.Events.FireBefore(authboss.EventOAuth2, w, r) if err != nil { return err } else if handled { return nil } authboss.PutSession(w, authboss.SessionKey, authboss.MakeOAuth2PID(provider, user.GetOAuth2UID())) authboss.DelSession(w, authboss.SessionHalfAuthKey) redirect := o.Authboss.Config.Paths.OAuth2LoginOK query := make(url.Values) for k, v := range params { switch k { case authboss.CookieRemember: if v == \"true\" { r = r.WithContext(context.WithValue(r.Context(), authboss.CTXKeyValues, RMTrue{})) } case FormValueOAuth2Redir: if isSameSiteRedirect(v) { redirect = v } default: query.Set(k, v) } } handled, err = o.Authboss.Events.FireAfter(authboss.EventOAuth2, w, r) if err != nil { return err } else if handled { return nil } if len(query) > 0 { redirect = fmt.Sprintf(\"%s?%s\", redirect, query.Encode()) } ro := authboss.RedirectOptions{ Code: http.StatusTemporaryRedirect, RedirectPath: redirect, Success: o.Localizef(r.Context(), authboss.TxtOAuth2LoginOK, provider), } return o.Authboss.Config.Core.Redirector.Redirect(w, r, ro) }"
def fn_oauth2_RMTrue_GetShouldRemember : String := "func() bool { return true }"
def consts_oauth2 : List (String × String) := [
  ("oauth2.FormValueOAuth2State", "\"state\""),
  ("oauth2.FormValueOAuth2Redir", "\"redir\""),
  ("oauth2.OAuth2UID", "\"uid\""),
  ("oauth2.OAuth2Email", "\"email\""),
  ("oauth2.OAuth2Name", "\"name\""),
  ("oauth2.googleInfoEndpoint", "`https://www.googleapis.com/userinfo/v2/me`"),
  ("oauth2.facebookInfoEndpoint", "`https://graph.facebook.com/me?fields=name,email`")
]
def eventRegs_oauth2 : List (String × String) := [
]
def stateCalls_oauth2 : List (String × String) := [
  ("oauth2.OAuth2.Start", "PutSession(authboss.SessionOAuth2State, state)"),
  ("oauth2.OAuth2.Start", "PutSession(authboss.SessionOAuth2Params, string(byt))"),
  ("oauth2.OAuth2.Start", "DelSession(authboss.SessionOAuth2Params)"),
  ("oauth2.OAuth2.End", "DelSession(authboss.SessionOAuth2State)"),
  ("oauth2.OAuth2.End", "DelSession(authboss.SessionOAuth2Params)"),
  ("oauth2.OAuth2.End", "PutSession(authboss.SessionKey, authboss.MakeOAuth2PID(provider, user.GetOAuth2UID()))"),
  ("oauth2.OAuth2.End", "DelSession(authboss.SessionHalfAuthKey)")
]
def logCalls_oauth2 : List (String × String) := [
  ("oauth2.OAuth2.Start", "Infof(\"started oauth2 flow for provider: %s\" | provider)"),
  ("oauth2.OAuth2.End", "Infof(\"finishing oauth2 flow for provider: %s\" | provider)"),
  ("oauth2.OAuth2.End", "Infof(\"oauth2 login failed: %s, reason: %s\" | hasErr | reason)")
]
def routes_oauth2 : List (String × String) := [
  ("oauth2.OAuth2.Init", "Get init o.Authboss.Core.ErrorHandler.Wrap(o.Start)"),
  ("oauth2.OAuth2.Init", "Get callback o.Authboss.Core.ErrorHandler.Wrap(o.End)")
]
def pkgVars_oauth2 : List (String × String) := [
  ("oauth2.errOAuthStateValidation", "errors.New(\"could not validate oauth2 state param\")"),
  ("oauth2.exchanger", "(*oauth2.Config).Exchange"),
  ("oauth2.clientGet", "(*http.Client).Get")
]
def fn_otp_OTP_Init : String := "func(ab *authboss.Authboss) (err error) { o.Authboss = ab if err = o.Authboss.Config.Core.ViewRenderer.Load(PageLogin, PageAdd, PageClear); err != nil { return err } o.Authboss.Config.Core.Router.Get(\"/otp/login\", o.Authboss.Core.ErrorHandler.Wrap(o.LoginGet)) o.Authboss.Config.Core.Router.Post(\"/otp/login\", o.Authboss.Core.ErrorHandler.Wrap(o.LoginPost)) var unauthedResponse authboss.MWRespondOnFailure if ab.Config.Modules.ResponseOnUnauthed != 0 { unauthedResponse = ab.Config.Modules.ResponseOnUnauthed } else if ab.Config.Modules.RoutesRedirectOnUnauthed { unauthedResponse = authboss.RespondRedirect } middleware := authboss.MountedMiddleware2(ab, true, authboss.RequireNone, unauthedResponse) o.Authboss.Config.Core.Router.Get(\"/otp/add\", middleware(o.Authboss.Core.ErrorHandler.Wrap(o.AddGet))) o.Authboss.Config.Core.Router.Post(\"/otp/add\", middleware(o.Authboss.Core.ErrorHandler.Wrap(o.AddPost))) o.Authboss.Config.Core.Router.Get(\"/otp/clear\", middleware(o.Authboss.Core.ErrorHandler.Wrap(o.ClearGet))) o.Authboss.Config.Core.Router.Post(\"/otp/clear\", middleware(o.Authboss.Core.ErrorHandler.Wrap(o.ClearPost))) return nil }"
def fn_otp_OTP_LoginPost : String := "func(w http.ResponseWriter, r *http.Request) error { validatable, err := o.Authboss.Core.BodyReader.Read(PageLogin, r) if err != nil { return err } creds := authboss.MustHaveUserValues(validatable) pid := creds.GetPID() pidUser, err := o.Authboss.Storage.Server.Load(r.Context(), pid) if err == authboss.ErrUserNotFound { data := authboss.HTMLData{authboss.DataErr: o.Localizef(r.Context(), authboss.TxtInvalidCredentials)} return o.Authboss.Core.Responder.Respond(w, r, http.StatusOK, PageLogin, data) } else if err != nil { return err } otpUser := MustBeOTPable(pidUser) passwords := splitOTPs(otpUser.GetOTPs()) r = r.WithContext(context.WithValue(r.Context(), authboss.CTXKeyUser, pidUser)) inputSum := sha512.Sum512([]byte(creds.GetPassword())) matchPassword := -1 for i, p := range passwords { dbSum, err := base64.StdEncoding.DecodeString(p) if err != nil { return errors.Wrap(err, \"otp in database was not valid base64\") } if 1 == subtle.ConstantTimeCompare(inputSum[:], dbSum) { matchPassword = i break } } var handled bool if matchPassword < 0 { handled, err = o.Authboss.Events.FireAfter(authboss.EventAuthFail, w, r) if err != nil { return err } else if handled { return nil } data := authboss.HTMLData{authboss.DataErr: o.Localizef(r.Context(), authboss.TxtInvalidCredentials)} return o.Authboss.Core.Responder.Respond(w, r, http.StatusOK, PageLogin, data) } passwords[matchPassword] = passwords[len(passwords)-1] passwords = passwords[:len(passwords)-1] otpUser.PutOTPs(joinOTPs(passwords)) if err = o.Authboss.Config.Storage.Server.Save(r.Context(), pidUser); err != nil { return err } r = r.WithContext(context.WithValue(r.Context(), authboss.CTXKeyValues, validatable)) handled, err = o.Events.FireBefore(authboss.EventAuth, w, r) if err != nil { return err } else if handled { return nil } handled, err = o.Events.FireBefore(authboss.EventAuthHijack, w, r) if err != nil { return err } else if handled { return nil } authboss.PutSession(w, authboss.SessionKey, pid) authboss.DelSession(w, authboss.SessionHalfAuthKey) handled, err = o.Authboss.Events.FireAfter(authboss.EventAuth, w, r) if err != nil { return err } else if handled { return nil } ro := authboss.RedirectOptions{ Code: http.StatusTemporaryRedirect, RedirectPath: o.Authboss.Paths.AuthLoginOK, FollowRedirParam: true, } return o.Authboss.Core.Redirector.Redirect(w, r, ro) }"
def fn_otp_OTP_AddPost : String := "func(w http.ResponseWriter, r *http.Request) error { user, err := o.Authboss.CurrentUser(r) if err != nil { return err } otpUser := MustBeOTPable(user) currentOTPs := splitOTPs(otpUser.GetOTPs()) if len(currentOTPs) >= maxOTPs { data := authboss.HTMLData{authboss.DataValidation: o.Localizef(r.Context(), authboss.TxtTooManyOTPs, maxOTPs)} return o.Core.Responder.Respond(w, r, http.StatusOK, PageAdd, data) } otp, hash, err := generateOTP() if err != nil { return err } currentOTPs = append(currentOTPs, hash) otpUser.PutOTPs(joinOTPs(currentOTPs)) if err := o.Authboss.Config.Storage.Server.Save(r.Context(), user); err != nil { return err } return o.Core.Responder.Respond(w, r, http.StatusOK, PageAdd, authboss.HTMLData{DataOTP: otp}) }"
def fn_otp_OTP_ClearPost : String := "func(w http.ResponseWriter, r *http.Request) error { user, err := o.Authboss.CurrentUser(r) if err != nil { return err } otpUser := MustBeOTPable(user) otpUser.PutOTPs(\"\") if err := o.Authboss.Config.Storage.Server.Save(r.Context(), user); err != nil { return err } return o.Core.Responder.Respond(w, r, http.StatusOK, PageAdd, authboss.HTMLData{DataNumberOTPs: \"0\"}) }"
def fn_otp_splitOTPs : String := "func(otps string) []string { if len(otps) == 0 { return nil } return strings.Split(otps, \",\") }"
def fn_otp_joinOTPs : String := "func(otps []string) string { return strings.Join(otps, \",\") }"
def fn_otp_generateOTP : String := "func() (otp string, hash string, err error) { secret := make([]byte, otpSize) if _, err = io.ReadFull(rand.Reader, secret); err != nil { return \"\", \"\", err } otp = fmt.Sprintf(\"%x-%x-%x-%x\", secret[0:4], secret[4:8], secret[8:12], secret[12:16], ) sum := sha512.Sum512([]byte(otp)) encoded := make([]byte, base64.StdEncoding.EncodedLen(sha512.Size)) base64.StdEncoding.Encode(encoded, sum[:]) hash = string(encoded) return otp, hash, nil }"
def consts_otp : List (String × String) := [
  ("otp.otpSize", "16"),
  ("otp.maxOTPs", "5"),
  ("otp.PageLogin", "\"otplogin\""),
  ("otp.PageAdd", "\"otpadd\""),
  ("otp.PageClear", "\"otpclear\""),
  ("otp.DataNumberOTPs", "\"otp_count\""),
  ("otp.DataOTP", "\"otp\"")
]
def eventRegs_otp : List (String × String) := [
]
def stateCalls_otp : List (String × String) := [
  ("otp.OTP.LoginPost", "PutSession(authboss.SessionKey, pid)"),
  ("otp.OTP.LoginPost", "DelSession(authboss.SessionHalfAuthKey)")
]
def logCalls_otp : List (String × String) := [
  ("otp.OTP.LoginPost", "Infof(\"failed to load user requested by pid: %s\" | pid)"),
  ("otp.OTP.LoginPost", "Infof(\"user %s failed to log in with otp\" | pid)"),
  ("otp.OTP.LoginPost", "Infof(\"removing otp password from %s\" | pid)"),
  ("otp.OTP.LoginPost", "Infof(\"user %s logged in via otp\" | pid)"),
  ("otp.OTP.AddPost", "Infof(\"generating otp for %s\" | user.GetPID())"),
  ("otp.OTP.ClearPost", "Infof(\"clearing all otps for user: %s\" | user.GetPID())")
]
def routes_otp : List (String × String) := [
  ("otp.OTP.Init", "Get \"/otp/login\" o.Authboss.Core.ErrorHandler.Wrap(o.LoginGet)"),
  ("otp.OTP.Init", "Post \"/otp/login\" o.Authboss.Core.ErrorHandler.Wrap(o.LoginPost)"),
  ("otp.OTP.Init", "Get \"/otp/add\" middleware(o.Authboss.Core.ErrorHandler.Wrap(o.AddGet))"),
  ("otp.OTP.Init", "Post \"/otp/add\" middleware(o.Authboss.Core.ErrorHandler.Wrap(o.AddPost))"),
  ("otp.OTP.Init", "Get \"/otp/clear\" middleware(o.Authboss.Core.ErrorHandler.Wrap(o.ClearGet))"),
  ("otp.OTP.Init", "Post \"/otp/clear\" middleware(o.Authboss.Core.ErrorHandler.Wrap(o.ClearPost))")
]
def fn_recover_Recover_Init : String := "func(ab *authboss.Authboss) (err error) { r.Authboss = ab if err := r.Config.Core.ViewRenderer.Load(PageRecoverStart, PageRecoverEnd); err != nil { return err } if err := r.Config.Core.MailRenderer.Load(EmailRecoverHTML, EmailRecoverTxt); err != nil { return err } r.Config.Core.Router.Get(\"/recover\", r.Core.ErrorHandler.Wrap(r.StartGet)) r.Config.Core.Router.Post(\"/recover\", r.Core.ErrorHandler.Wrap(r.StartPost)) r.Config.Core.Router.Get(\"/recover/end\", r.Core.ErrorHandler.Wrap(r.EndGet)) r.Config.Core.Router.Post(\"/recover/end\", r.Core.ErrorHandler.Wrap(r.EndPost)) return nil }"
def fn_recover_Recover_StartPost : String := "func(w http.ResponseWriter, req *http.Request) error { validatable, err := r.Core.BodyReader.Read(PageRecoverStart, req) if err != nil { return err } if errs := validatable.Validate(); errs != nil { data := authboss.HTMLData{authboss.DataValidation: authboss.ErrorMap(errs)} return r.Core.Responder.Respond(w, req, http.StatusOK, PageRecoverStart, data) } recoverVals := authboss.MustHaveRecoverStartValues(validatable) user, err := r.Storage.Server.Load(req.Context(), recoverVals.GetPID()) if err == authboss.ErrUserNotFound { ro := authboss.RedirectOptions{ Code: http.StatusTemporaryRedirect, RedirectPath: r.Config.Paths.RecoverOK, Success: r.Localizef(req.Context(), authboss.TxtRecoverInitiateSuccessFlash), } return r.Core.Redirector.Redirect(w, req, ro) } else if err != nil { return err } ru := authboss.MustBeRecoverable(user) req = req.WithContext(context.WithValue(req.Context(), authboss.CTXKeyUser, user)) handled, err := r.Events.FireBefore(authboss.EventRecoverStart, w, req) if err != nil { return err } else if handled { return nil } selector, verifier, token, err := r.Config.Core.OneTimeTokenGenerator.GenerateToken() if err != nil { return err } ruWithSecondaries, hasSecondaryEmails := authboss.CanBeRecoverableUserWithSecondaryEmails(user) ru.PutRecoverSelector(selector) ru.PutRecoverVerifier(verifier) ru.PutRecoverExpiry(time.Now().UTC().Add(r.Config.Modules.RecoverTokenDuration)) if err := r.Storage.Server.Save(req.Context(), ru); err != nil { return err } recoveryEmailRecipients := []string{ru.GetEmail()} if hasSecondaryEmails { recoveryEmailRecipients = append(recoveryEmailRecipients, ruWithSecondaries.GetSecondaryEmails()...) } if r.Modules.MailNoGoroutine { r.SendRecoverEmail(req.Context(), recoveryEmailRecipients, token) } else { go r.SendRecoverEmail(req.Context(), recoveryEmailRecipients, token) } _, err = r.Events.FireAfter(authboss.EventRecoverStart, w, req) if err != nil { return err } ro := authboss.RedirectOptions{ Code: http.StatusTemporaryRedirect, RedirectPath: r.Config.Paths.RecoverOK, Success: r.Localizef(req.Context(), authboss.TxtRecoverInitiateSuccessFlash), } return r.Core.Redirector.Redirect(w, req, ro) }"
def fn_recover_Recover_SendRecoverEmail : String := "func(ctx context.Context, to []string, encodedToken string) { mailURL := r.mailURL(encodedToken) email := authboss.Email{ To: to, From: r.Config.Mail.From, FromName: r.Config.Mail.FromName, Subject: r.Config.Mail.SubjectPrefix + r.Localizef(ctx, authboss.TxtPasswordResetEmailSubject), } ro := authboss.EmailResponseOptions{ HTMLTemplate: EmailRecoverHTML, TextTemplate: EmailRecoverTxt, Data: authboss.HTMLData{ DataRecoverURL: mailURL, }, } if err := r.Email(ctx, email, ro); err != nil { } }"
def fn_recover_Recover_EndPost : String := "func(w http.ResponseWriter, req *http.Request) error { validatable, err := r.Core.BodyReader.Read(PageRecoverEnd, req) if err != nil { return err } values := authboss.MustHaveRecoverEndValues(validatable) password := values.GetPassword() token := values.GetToken() if errs := validatable.Validate(); errs != nil { data := authboss.HTMLData{ authboss.DataValidation: authboss.ErrorMap(errs), DataRecoverToken: token, } return r.Config.Core.Responder.Respond(w, req, http.StatusOK, PageRecoverEnd, data) } rawToken, err := base64.URLEncoding.DecodeString(token) if err != nil { return r.invalidToken(PageRecoverEnd, w, req) } credsGenerator := r.Core.OneTimeTokenGenerator if len(rawToken) != credsGenerator.TokenSize() { return r.invalidToken(PageRecoverEnd, w, req) } selectorBytes, verifierBytes := credsGenerator.ParseToken(string(rawToken)) selector := base64.StdEncoding.EncodeToString(selectorBytes[:]) storer := authboss.EnsureCanRecover(r.Config.Storage.Server) user, err := storer.LoadByRecoverSelector(req.Context(), selector) if err == authboss.ErrUserNotFound { return r.invalidToken(PageRecoverEnd, w, req) } else if err != nil { return err } if time.Now().UTC().After(user.GetRecoverExpiry()) { return r.invalidToken(PageRecoverEnd, w, req) } dbVerifierBytes, err := base64.StdEncoding.DecodeString(user.GetRecoverVerifier()) if err != nil { return r.invalidToken(PageRecoverEnd, w, req) } if subtle.ConstantTimeEq(int32(len(verifierBytes)), int32(len(dbVerifierBytes))) != 1 || subtle.ConstantTimeCompare(verifierBytes[:], dbVerifierBytes) != 1 { return r.invalidToken(PageRecoverEnd, w, req) } req = req.WithContext(context.WithValue(req.Context(), authboss.CTXKeyUser, user)) handled, err := r.Events.FireBefore(authboss.EventRecoverEnd, w, req) if err != nil { return err } else if handled { return nil } pass, err := r.Config.Core.Hasher.GenerateHash(password) if err != nil { return err } user.PutPassword(pass) user.PutRecoverSelector(\"\") user.PutRecoverVerifier(\"\") user.PutRecoverExpiry(time.Now().UTC()) if err := storer.Save(req.Context(), user); err != nil { return err } _, err = r.Events.FireAfter(authboss.EventRecoverEnd, w, req) if err != nil { return err } successMsg := r.Localizef(req.Context(), authboss.TxtRecoverSuccessMsg) if r.Config.Modules.RecoverLoginAfterRecovery { handled, err = r.Events.FireBefore(authboss.EventAuth, w, req) if err != nil { return err } else if handled { return nil } handled, err = r.Events.FireBefore(authboss.EventAuthHijack, w, req) if err != nil { return err } else if handled { return nil } authboss.PutSession(w, authboss.SessionKey, user.GetPID()) successMsg = r.Localizef(req.Context(), authboss.TxtRecoverAndLoginSuccessMsg) handled, err = r.Events.FireAfter(authboss.EventAuth, w, req) if err != nil { return err } else if handled { return nil } } ro := authboss.RedirectOptions{ Code: http.StatusTemporaryRedirect, RedirectPath: r.Config.Paths.RecoverOK, Success: successMsg, } return r.Config.Core.Redirector.Redirect(w, req, ro) }"
def fn_recover_Recover_invalidToken : String := "func(page string, w http.ResponseWriter, req *http.Request) error { errorsAll := []error{errors.New(\"recovery token is invalid\")} data := authboss.HTMLData{authboss.DataValidation: authboss.ErrorMap(errorsAll)} return r.Core.Responder.Respond(w, req, http.StatusOK, PageRecoverEnd, data) }"
def eventRegs_recover : List (String × String) := [
]
def stateCalls_recover : List (String × String) := [
  ("recover.Recover.EndPost", "PutSession(authboss.SessionKey, user.GetPID())")
]
def logCalls_recover : List (String × String) := [
  ("recover.Recover.StartPost", "Info(\"recover validation failed\")"),
  ("recover.Recover.StartPost", "Infof(\"user %s was attempted to be recovered, user does not exist, faking successful response\" | recoverVals.GetPID())"),
  ("recover.Recover.StartPost", "Infof(\"user %s password recovery initiated\" | ru.GetPID())"),
  ("recover.Recover.SendRecoverEmail", "Infof(\"sending recover e-mail to: %s\" | to)"),
  ("recover.Recover.SendRecoverEmail", "Errorf(\"failed to recover send e-mail to %s: %+v\" | to | err)"),
  ("recover.Recover.EndPost", "Info(\"recovery validation failed\")"),
  ("recover.Recover.EndPost", "Infof(\"invalid recover token submitted, base64 decode failed: %+v\" | err)"),
  ("recover.Recover.EndPost", "Infof(\"invalid recover token submitted, size was wrong: %d\" | len(rawToken))"),
  ("recover.Recover.EndPost", "Info(\"invalid recover token submitted, user not found\")"),
  ("recover.Recover.EndPost", "Infof(\"invalid recover token submitted, already expired: %+v\" | err)"),
  ("recover.Recover.EndPost", "Infof(\"invalid recover verifier stored in database: %s\" | user.GetRecoverVerifier())"),
  ("recover.Recover.EndPost", "Info(\"stored recover verifier does not match provided one\")")
]
def routes_recover : List (String × String) := [
  ("recover.Recover.Init", "Get \"/recover\" r.Core.ErrorHandler.Wrap(r.StartGet)"),
  ("recover.Recover.Init", "Post \"/recover\" r.Core.ErrorHandler.Wrap(r.StartPost)"),
  ("recover.Recover.Init", "Get \"/recover/end\" r.Core.ErrorHandler.Wrap(r.EndGet)"),
  ("recover.Recover.Init", "Post \"/recover/end\" r.Core.ErrorHandler.Wrap(r.EndPost)")
]
def fn_register_Register_Init : String := "func(ab *authboss.Authboss) (err error) { r.Authboss = ab if _, ok := ab.Config.Storage.Server.(authboss.CreatingServerStorer); !ok { return errors.New(\"register module activated but storer could not be upgraded to CreatingServerStorer\") } if err := ab.Config.Core.ViewRenderer.Load(PageRegister); err != nil { return err } sort.Strings(ab.Config.Modules.RegisterPreserveFields) ab.Config.Core.Router.Get(\"/register\", ab.Config.Core.ErrorHandler.Wrap(r.Get)) ab.Config.Core.Router.Post(\"/register\", ab.Config.Core.ErrorHandler.Wrap(r.Post)) return nil }"
def fn_register_Register_Post : String := "func(w http.ResponseWriter, req *http.Request) error { validatable, err := r.Core.BodyReader.Read(PageRegister, req) if err != nil { return err } var arbitrary map[string]string var preserve map[string]string if arb, ok := validatable.(authboss.ArbitraryValuer); ok { arbitrary = arb.GetValues() preserve = make(map[string]string) for k, v := range arbitrary { if hasString(r.Config.Modules.RegisterPreserveFields, k) { preserve[k] = v } } } errs := validatable.Validate() if errs != nil { data := authboss.HTMLData{ authboss.DataValidation: authboss.ErrorMap(errs), } if preserve != nil { data[authboss.DataPreserve] = preserve } return r.Config.Core.Responder.Respond(w, req, http.StatusOK, PageRegister, data) } userVals := authboss.MustHaveUserValues(validatable) pid, password := userVals.GetPID(), userVals.GetPassword() storer := authboss.EnsureCanCreate(r.Config.Storage.Server) user := authboss.MustBeAuthable(storer.New(req.Context())) pass, err := r.Authboss.Config.Core.Hasher.GenerateHash(password) if err != nil { return err } user.PutPID(pid) user.PutPassword(pass) if arbUser, ok := user.(authboss.ArbitraryUser); ok && arbitrary != nil { arbUser.PutArbitrary(arbitrary) } err = storer.Create(req.Context(), user) switch { case err == authboss.ErrUserFound: errs = []error{errors.New(r.Localizef(req.Context(), authboss.TxtUserAlreadyExists))} data := authboss.HTMLData{ authboss.DataValidation: authboss.ErrorMap(errs), } if preserve != nil { data[authboss.DataPreserve] = preserve } return r.Config.Core.Responder.Respond(w, req, http.StatusOK, PageRegister, data) case err != nil: return err } req = req.WithContext(context.WithValue(req.Context(), authboss.CTXKeyUser, user)) handled, err := r.Events.FireAfter(authboss.EventRegister, w, req) if err != nil { return err } else if handled { return nil } authboss.PutSession(w, authboss.SessionKey, pid) ro := authboss.RedirectOptions{ Code: http.StatusTemporaryRedirect, Success: r.Localizef(req.Context(), authboss.TxtRegisteredAndLoggedIn), RedirectPath: r.Config.Paths.RegisterOK, } return r.Config.Core.Redirector.Redirect(w, req, ro) }"
def fn_register_hasString : String := "func(arr []string, s string) bool { index := sort.SearchStrings(arr, s) if index < 0 || index >= len(arr) { return false } return arr[index] == s }"
def eventRegs_register : List (String × String) := [
]
def stateCalls_register : List (String × String) := [
  ("register.Register.Post", "PutSession(authboss.SessionKey, pid)")
]
def logCalls_register : List (String × String) := [
  ("register.Register.Post", "Info(\"registration validation failed\")"),
  ("register.Register.Post", "Infof(\"user %s attempted to re-register\" | pid)"),
  ("register.Register.Post", "Infof(\"registered and logged in user %s\" | pid)")
]
def routes_register : List (String × String) := [
  ("register.Register.Init", "Get \"/register\" ab.Config.Core.ErrorHandler.Wrap(r.Get)"),
  ("register.Register.Init", "Post \"/register\" ab.Config.Core.ErrorHandler.Wrap(r.Post)")
]
def fn_remember_Remember_Init : String := "func(ab *authboss.Authboss) error { r.Authboss = ab r.Events.After(authboss.EventAuth, r.RememberAfterAuth) r.Events.After(authboss.EventOAuth2, r.RememberAfterAuth) r.Events.After(authboss.EventRecoverEnd, r.AfterPasswordReset) return nil }"
def fn_remember_Remember_RememberAfterAuth : String := "func(w http.ResponseWriter, req *http.Request, handled bool) (bool, error) { rmIntf := req.Context().Value(authboss.CTXKeyValues) if rmIntf == nil { return false, nil } else if rm, ok := rmIntf.(authboss.RememberValuer); !ok || !rm.GetShouldRemember() { return false, nil } user := r.Authboss.CurrentUserP(req) hash, token, err := GenerateToken(user.GetPID()) if err != nil { return false, err } storer := authboss.EnsureCanRemember(r.Authboss.Config.Storage.Server) if err = storer.AddRememberToken(req.Context(), user.GetPID(), hash); err != nil { return false, err } authboss.PutCookie(w, authboss.CookieRemember, token) return false, nil }"
def fn_remember_Middleware : String := "func(ab *authboss.Authboss) func(http.Handler) http.Handler { return func(next http.Handler) http.Handler { return http.HandlerFunc(func(w http.ResponseWriter, r *http.Request) { if id, _ := ab.CurrentUserID(r); len(id) == 0 { if err := Authenticate(ab, w, &r); err != nil { } } next.ServeHTTP(w, r) }) } }"
def fn_remember_Authenticate : String := "func(ab *authboss.Authboss, w http.ResponseWriter, req **http.Request) error { cookie, ok := authboss.GetCookie(*req, authboss.CookieRemember) if !ok { return nil } rawToken, err := base64.URLEncoding.DecodeString(cookie) if err != nil { authboss.DelCookie(w, authboss.CookieRemember) return nil } index := len(rawToken) - nNonceSize - 1 if index < 0 || rawToken[index] != ';' { authboss.DelCookie(w, authboss.CookieRemember) return nil } pid := string(rawToken[:index]) sum := sha512.Sum512(rawToken) hash := base64.StdEncoding.EncodeToString(sum[:]) storer := authboss.EnsureCanRemember(ab.Config.Storage.Server) err = storer.UseRememberToken((*req).Context(), pid, hash) switch { case err == authboss.ErrTokenNotFound: authboss.DelCookie(w, authboss.CookieRemember) return nil case err != nil: return err } hash, token, err := GenerateToken(pid) if err != nil { return err } if err = storer.AddRememberToken((*req).Context(), pid, hash); err != nil { return errors.Wrap(err, \"failed to save remember me token\") } ctx := context.WithValue((*req).Context(), authboss.CTXKeyPID, pid) state, _ := ctx.Value(authboss.CTXKeySessionState).(authboss.ClientState) ctx = context.WithValue(ctx, authboss.CTXKeySessionState, halfAuthState{cs: state}) *req = (*req).WithContext(ctx) authboss.PutSession(w, authboss.SessionKey, pid) authboss.PutSession(w, authboss.SessionHalfAuthKey, \"true\") authboss.DelCookie(w, authboss.CookieRemember) authboss.PutCookie(w, authboss.CookieRemember, token) return nil }"
def fn_remember_Remember_AfterPasswordReset : String := "func(w http.ResponseWriter, req *http.Request, handled bool) (bool, error) { user, err := r.Authboss.CurrentUser(req) if err != nil { return false, err } storer := authboss.EnsureCanRemember(r.Authboss.Config.Storage.Server) pid := user.GetPID() authboss.DelCookie(w, authboss.CookieRemember) return false, storer.DelRememberTokens(req.Context(), pid) }"
def fn_remember_GenerateToken : String := "func(pid string) (hash string, token string, err error) { rawToken := make([]byte, nNonceSize+len(pid)+1) copy(rawToken, pid) rawToken[len(pid)] = ';' if _, err := io.ReadFull(rand.Reader, rawToken[len(pid)+1:]); err != nil { return \"\", \"\", errors.Wrap(err, \"failed to create remember me nonce\") } sum := sha512.Sum512(rawToken) return base64.StdEncoding.EncodeToString(sum[:]), base64.URLEncoding.EncodeToString(rawToken), nil }"
def fn_remember_halfAuthState_Get : String := "func(key string) (string, bool) { if key == authboss.SessionHalfAuthKey { return \"true\", true } if h.cs == nil { return \"\", false } return h.cs.Get(key) }"
def consts_remember : List (String × String) := [
  ("remember.nNonceSize", "32")
]
def eventRegs_remember : List (String × String) := [
  ("remember.Remember.Init", "After authboss.EventAuth r.RememberAfterAuth"),
  ("remember.Remember.Init", "After authboss.EventOAuth2 r.RememberAfterAuth"),
  ("remember.Remember.Init", "After authboss.EventRecoverEnd r.AfterPasswordReset")
]
def stateCalls_remember : List (String × String) := [
  ("remember.Remember.RememberAfterAuth", "PutCookie(authboss.CookieRemember, token)"),
  ("remember.Authenticate", "DelCookie(authboss.CookieRemember)"),
  ("remember.Authenticate", "DelCookie(authboss.CookieRemember)"),
  ("remember.Authenticate", "DelCookie(authboss.CookieRemember)"),
  ("remember.Authenticate", "PutSession(authboss.SessionKey, pid)"),
  ("remember.Authenticate", "PutSession(authboss.SessionHalfAuthKey, \"true\")"),
  ("remember.Authenticate", "DelCookie(authboss.CookieRemember)"),
  ("remember.Authenticate", "PutCookie(authboss.CookieRemember, token)"),
  ("remember.Remember.AfterPasswordReset", "DelCookie(authboss.CookieRemember)")
]
def logCalls_remember : List (String × String) := [
  ("remember.Middleware", "Errorf(\"failed to authenticate user via remember me: %+v\" | err)"),
  ("remember.Authenticate", "Infof(\"failed to decode remember me cookie, deleting cookie\")"),
  ("remember.Authenticate", "Infof(\"failed to decode remember me token, deleting cookie\")"),
  ("remember.Authenticate", "Infof(\"remember me cookie had a token that was not in storage, deleting cookie\")"),
  ("remember.Remember.AfterPasswordReset", "Infof(\"deleting tokens and rm cookies for user %s due to password reset\" | pid)")
]
def fn_defaults_Responder_Respond : String := "func(w http.ResponseWriter, req *http.Request, code int, page string, data authboss.HTMLData) error { ctxData := req.Context().Value(authboss.CTXKeyData) if ctxData != nil { if data == nil { data = authboss.HTMLData{} } data.Merge(ctxData.(authboss.HTMLData)) } rendered, mime, err := r.Renderer.Render(req.Context(), page, data) if err != nil { return err } w.Header().Set(\"Content-Type\", mime) w.WriteHeader(code) _, err = w.Write(rendered) return err }"
def fn_defaults_Redirector_Redirect : String := "func(w http.ResponseWriter, req *http.Request, ro authboss.RedirectOptions) error { var redirectFunction = r.redirectNonAPI if isAPIRequest(req) { redirectFunction = r.redirectAPI } return redirectFunction(w, req, ro) }"
def fn_defaults_Redirector_redirectAPI : String := "func(w http.ResponseWriter, req *http.Request, ro authboss.RedirectOptions) error { path := ro.RedirectPath redir := req.FormValue(r.FormValueName) if !isSameSiteRedirect(redir) { redir = \"\" } if len(redir) != 0 && ro.FollowRedirParam { path = redir } var status = \"success\" var message string if len(ro.Success) != 0 { message = ro.Success } if len(ro.Failure) != 0 { status = \"failure\" message = ro.Failure } data := authboss.HTMLData{ \"location\": path, } data[\"status\"] = status if len(message) != 0 { data[\"message\"] = message } body, mime, err := r.Renderer.Render(req.Context(), \"redirect\", data) if err != nil { return err } if len(body) != 0 { w.Header().Set(\"Content-Type\", mime) } if ro.Code != 0 { if r.CorceRedirectTo200 && (ro.Code == http.StatusTemporaryRedirect || ro.Code == http.StatusPermanentRedirect) { w.WriteHeader(http.StatusOK) } else { w.WriteHeader(ro.Code) } } _, err = w.Write(body) return err }"
def fn_defaults_Redirector_redirectNonAPI : String := "func(w http.ResponseWriter, req *http.Request, ro authboss.RedirectOptions) error { path := ro.RedirectPath redir := req.FormValue(r.FormValueName) if !isSameSiteRedirect(redir) { redir = \"\" } if len(redir) != 0 && ro.FollowRedirParam { path = redir } if len(ro.Success) != 0 { authboss.PutSession(w, authboss.FlashSuccessKey, ro.Success) } if len(ro.Failure) != 0 { authboss.PutSession(w, authboss.FlashErrorKey, ro.Failure) } http.Redirect(w, req, path, http.StatusFound) return nil }"
def fn_defaults_isAPIRequest : String := "func(r *http.Request) bool { return strings.HasPrefix(r.Header.Get(\"Content-Type\"), \"application/json\") }"
def fn_defaults_errorHandler_ServeHTTP : String := "func(w http.ResponseWriter, r *http.Request) { err := e.Handler(w, r) if err == nil { return } }"
def fn_defaults_ErrorHandler_Wrap : String := "func(handler func(w http.ResponseWriter, r *http.Request) error) http.Handler { return errorHandler{ Handler: handler, LogWriter: e.LogWriter, } }"
def fn_defaults_Router_ServeHTTP : String := "func(w http.ResponseWriter, req *http.Request) { var router http.Handler switch req.Method { case \"GET\": router = r.gets case \"POST\": router = r.posts case \"DELETE\": router = r.deletes default: w.WriteHeader(http.StatusMethodNotAllowed) io.WriteString(w, \"method not allowed\") return } router.ServeHTTP(w, req) }"
def fn_defaults_JSONRenderer_Render : String := "func(ctx context.Context, page string, data authboss.HTMLData) (output []byte, contentType string, err error) { if data == nil { return []byte(`{\"status\":\"success\"}`), \"application/json\", nil } if _, hasStatus := data[\"status\"]; !hasStatus { failures := j.Failures if len(failures) == 0 { failures = jsonDefaultFailures } status := \"success\" for _, failure := range failures { val, has := data[failure] if has && val != nil { status = \"failure\" break } } data[\"status\"] = status } b, err := json.Marshal(data) if err != nil { return nil, \"\", err } return b, \"application/json\", nil }"
def fn_defaults_SMTPMailer_Send : String := "func(ctx context.Context, mail authboss.Email) error { if len(mail.TextBody) == 0 && len(mail.HTMLBody) == 0 { return errors.New(\"refusing to send mail without text or html body\") } buf := &bytes.Buffer{} data := struct { Boundary string Mail authboss.Email }{ Boundary: s.boundary(), Mail: mail, } err := emailTmpl.Execute(buf, data) if err != nil { return err } toSend := bytes.Replace(buf.Bytes(), []byte{'\\n'}, []byte{'\\r', '\\n'}, -1) return smtp.SendMail(s.Server, s.Auth, mail.From, mail.To, toSend) }"
def fn_defaults_SMTPMailer_boundary : String := "func() string { const alphabet = \"abcdefghijklmnopqrstuvwxyz0123456789\" buf := &bytes.Buffer{} randMu.Lock() defer randMu.Unlock() for i := 0; i < 23; i++ { buf.WriteByte(alphabet[s.rand.Int()%len(alphabet)]) } return buf.String() }"
def fn_defaults_NewSMTPMailer : String := "func(server string, auth smtp.Auth) *SMTPMailer { if len(server) == 0 { panic(\"SMTP Mailer must be created with a server string.\") } random := rand.New(rand.NewSource(time.Now().UnixNano())) return &SMTPMailer{server, auth, random} }"
def fn_defaults_LogMailer_Send : String := "func(ctx context.Context, mail authboss.Email) error { buf := &bytes.Buffer{} data := struct { Boundary string Mail authboss.Email }{ Boundary: \"284fad24nao8f4na284f2n4\", Mail: mail, } err := emailTmpl.Execute(buf, data) if err != nil { return err } toSend := bytes.Replace(buf.Bytes(), []byte{'\\n'}, []byte{'\\r', '\\n'}, -1) _, err = l.Write(toSend) return err }"
def fn_defaults_Logger_Info : String := "func(s string) { fmt.Fprintf(l.Writer, \"%s [INFO]: %s\\n\", time.Now().UTC().Format(time.RFC3339), s) }"
def fn_defaults_Logger_Error : String := "func(s string) { fmt.Fprintf(l.Writer, \"%s [EROR]: %s\\n\", time.Now().UTC().Format(time.RFC3339), s) }"
def fn_defaults_SetCore : String := "func(config *authboss.Config, readJSON, useUsername bool) { logger := NewLogger(os.Stdout) config.Core.Router = NewRouter() config.Core.ErrorHandler = NewErrorHandler(logger) config.Core.Responder = NewResponder(config.Core.ViewRenderer) config.Core.Redirector = NewRedirector(config.Core.ViewRenderer, authboss.FormValueRedirect) config.Core.BodyReader = NewHTTPBodyReader(readJSON, useUsername) config.Core.Mailer = NewLogMailer(os.Stdout) config.Core.Logger = logger }"
def fn_authboss_Authboss_Init : String := "func(modulesToLoad ...string) error { if a.Config.Core.Hasher == nil { a.Config.Core.Hasher = NewBCryptHasher(a.Config.Modules.BCryptCost) } if len(modulesToLoad) == 0 { modulesToLoad = RegisteredModules() } for _, name := range modulesToLoad { if err := a.loadModule(name); err != nil { return errors.Errorf(\"module %s failed to load: %+v\", name, err) } } return nil }"
def fn_authboss_Authboss_loadModule : String := "func(name string) error { module, ok := registeredModules[name] if !ok { panic(\"could not find module: \" + name) } var wasPtr bool modVal := reflect.ValueOf(module) if modVal.Kind() == reflect.Ptr { wasPtr = true modVal = modVal.Elem() } modType := modVal.Type() value := reflect.New(modType) if !wasPtr { value = value.Elem() value.Set(modVal) } else { value.Elem().Set(modVal) } mod := value.Interface().(Moduler) a.loadedModules[name] = mod return mod.Init(a) }"
def fn_authboss_RegisterModule : String := "func(name string, m Moduler) { registeredModules[name] = m }"
def fn_authboss_New : String := "func() *Authboss { ab := &Authboss{} ab.loadedModules = make(map[string]Moduler) ab.Events = NewEvents() ab.Config.Defaults() return ab }"
def pkgVars_authboss : List (String × String) := [
  ("authboss.TxtSuccess", "LocalizationKey{ ID: \"Success\", Default: \"success\", }"),
  ("authboss.TxtInvalidCredentials", "LocalizationKey{ ID: \"InvalidCredentials\", Default: \"Invalid Credentials\", }"),
  ("authboss.TxtAuthFailed", "LocalizationKey{ ID: \"AuthFailed\", Default: \"Please login\", }"),
  ("authboss.TxtUserAlreadyExists", "LocalizationKey{ ID: \"UserAlreadyExists\", Default: \"User already exists\", }"),
  ("authboss.TxtRegisteredAndLoggedIn", "LocalizationKey{ ID: \"RegisteredAndLoggedIn\", Default: \"Account successfully created, you are now logged in\", }"),
  ("authboss.TxtConfirmYourAccount", "LocalizationKey{ ID: \"ConfirmYourAccount\", Default: \"Please verify your account, an e-mail has been sent to you.\", }"),
  ("authboss.TxtAccountNotConfirmed", "LocalizationKey{ ID: \"AccountNotConfirmed\", Default: \"Your account has not been confirmed, please check your e-mail.\", }"),
  ("authboss.TxtInvalidConfirmToken", "LocalizationKey{ ID: \"InvalidConfirmToken\", Default: \"Your confirmation token is invalid.\", }"),
  ("authboss.TxtConfrimationSuccess", "LocalizationKey{ ID: \"ConfrimationSuccess\", Default: \"You have successfully confirmed your account.\", }"),
  ("authboss.TxtConfirmEmailSubject", "LocalizationKey{ ID: \"ConfirmEmailSubject\", Default: \"Confirm New Account\", }"),
  ("authboss.TxtLocked", "LocalizationKey{ ID: \"Locked\", Default: \"Your account has been locked, please contact the administrator.\", }"),
  ("authboss.TxtLoggedOut", "LocalizationKey{ ID: \"LoggedOut\", Default: \"You have been logged out\", }"),
  ("authboss.TxtOAuth2LoginOK", "LocalizationKey{ ID: \"OAuth2LoginOK\", Default: \"Logged in successfully with %s.\", }"),
  ("authboss.TxtOAuth2LoginNotOK", "LocalizationKey{ ID: \"OAuth2LoginNotOK\", Default: \"%s login cancelled or failed\", }"),
  ("authboss.TxtRecoverInitiateSuccessFlash", "LocalizationKey{ ID: \"RecoverInitiateSuccessFlash\", Default: \"An email has been sent to you with further instructions on how to reset your password.\", }"),
  ("authboss.TxtPasswordResetEmailSubject", "LocalizationKey{ ID: \"PasswordResetEmailSubject\", Default: \"Password Reset\", }"),
  ("authboss.TxtRecoverSuccessMsg", "LocalizationKey{ ID: \"RecoverSuccessMsg\", Default: \"Successfully updated password\", }"),
  ("authboss.TxtRecoverAndLoginSuccessMsg", "LocalizationKey{ ID: \"RecoverAndLoginSuccessMsg\", Default: \"Successfully updated password and logged in\", }"),
  ("authboss.TxtTooManyOTPs", "LocalizationKey{ ID: \"TooManyOTPs\", Default: \"You cannot have more than %d one time passwords\", }"),
  ("authboss.TxtEmailVerifyTriggered", "LocalizationKey{ ID: \"EmailVerifyTriggered\", Default: \"An e-mail has been sent to confirm 2FA activation\", }"),
  ("authboss.TxtEmailVerifySubject", "LocalizationKey{ ID: \"EmailVerifySubject\", Default: \"Add 2FA to Account\", }"),
  ("authboss.TxtInvalid2FAVerificationToken", "LocalizationKey{ ID: \"Invalid2FAVerificationToken\", Default: \"Invalid 2FA email verification token\", }"),
  ("authboss.Txt2FAAuthorizationRequired", "LocalizationKey{ ID: \"2FAAuthorizationRequired\", Default: \"You must first authorize adding 2fa by e-mail\", }"),
  ("authboss.TxtInvalid2FACode", "LocalizationKey{ ID: \"Invalid2FACode\", Default: \"2FA code was invalid\", }"),
  ("authboss.TxtRepeated2FACode", "LocalizationKey{ ID: \"Repeated2FACode\", Default: \"2FA code was previously used\", }"),
  ("authboss.TxtTOTP2FANotActive", "LocalizationKey{ ID: \"TOTP2FANotActive\", Default: \"TOTP 2FA is not active\", }"),
  ("authboss.TxtSMSNumberRequired", "LocalizationKey{ ID: \"SMSNumberRequired\", Default: \"You must provide a phone number\", }"),
  ("authboss.TxtSMSWaitToResend", "LocalizationKey{ ID: \"SMSWaitToResend\", Default: \"Please wait a few moments before resending the SMS code\", }"),
  ("authboss.registeredModules", "make(map[string]Moduler)"),
  ("authboss.ErrUserFound", "errors.New(\"user found\")"),
  ("authboss.ErrUserNotFound", "errors.New(\"user not found\")"),
  ("authboss.ErrTokenNotFound", "errors.New(\"token not found\")"),
  ("authboss._Event_index", "[...]uint8{0, 13, 22, 37, 48, 61, 76, 93, 108, 120, 139, 157, 168, 187, 208}")
]
def pkgVars_auth : List (String × String) := [
]
def pkgVars_confirm : List (String × String) := [
]
def pkgVars_lock : List (String × String) := [
]
def pkgVars_logout : List (String × String) := [
]
def pkgVars_otp : List (String × String) := [
]
def pkgVars_otp_twofactor : List (String × String) := [
]
def pkgVars_otp_twofactor_sms2fa : List (String × String) := [
  ("otp_twofactor_sms2fa.errSMSRateLimit", "errors.New(\"user sms send rate-limited\")"),
  ("otp_twofactor_sms2fa.errBadPhoneNumber", "errors.New(\"bad phone number provided\")")
]
def pkgVars_otp_twofactor_totp2fa : List (String × String) := [
  ("otp_twofactor_totp2fa.errNoTOTPEnabled", "errors.New(\"user does not have totp 2fa enabled\")")
]
def pkgVars_recover : List (String × String) := [
]
def pkgVars_register : List (String × String) := [
]
def pkgVars_remember : List (String × String) := [
]
def fn_otp_twofactor_sms2fa_SMS_Setup : String := "func() error { if s.Sender == nil { return errors.New(\"must have SMS.Sender set\") } var unauthedResponse authboss.MWRespondOnFailure if s.Config.Modules.ResponseOnUnauthed != 0 { unauthedResponse = s.Config.Modules.ResponseOnUnauthed } else if s.Config.Modules.RoutesRedirectOnUnauthed { unauthedResponse = authboss.RespondRedirect } abmw := authboss.MountedMiddleware2(s.Authboss, true, authboss.RequireFullAuth, unauthedResponse) var middleware, verified func(func(w http.ResponseWriter, r *http.Request) error) http.Handler middleware = func(handler func(http.ResponseWriter, *http.Request) error) http.Handler { return abmw(s.Core.ErrorHandler.Wrap(handler)) } if s.Authboss.Config.Modules.TwoFactorEmailAuthRequired { setupPath := path.Join(s.Authboss.Paths.Mount, \"/2fa/sms/setup\") emailVerify, err := twofactor.SetupEmailVerify(s.Authboss, \"sms\", setupPath) if err != nil { return err } verified = func(handler func(http.ResponseWriter, *http.Request) error) http.Handler { return abmw(emailVerify.Wrap(s.Core.ErrorHandler.Wrap(handler))) } } else { verified = middleware } s.Authboss.Core.Router.Get(\"/2fa/sms/setup\", verified(s.GetSetup)) s.Authboss.Core.Router.Post(\"/2fa/sms/setup\", verified(s.PostSetup)) confirm := &SMSValidator{SMS: s, Page: PageSMSConfirm} s.Authboss.Core.Router.Get(\"/2fa/sms/confirm\", verified(confirm.Get)) s.Authboss.Core.Router.Post(\"/2fa/sms/confirm\", verified(confirm.Post)) remove := &SMSValidator{SMS: s, Page: PageSMSRemove} s.Authboss.Core.Router.Get(\"/2fa/sms/remove\", middleware(remove.Get)) s.Authboss.Core.Router.Post(\"/2fa/sms/remove\", middleware(remove.Post)) validate := &SMSValidator{SMS: s, Page: PageSMSValidate} s.Authboss.Core.Router.Get(\"/2fa/sms/validate\", s.Core.ErrorHandler.Wrap(validate.Get)) s.Authboss.Core.Router.Post(\"/2fa/sms/validate\", s.Core.ErrorHandler.Wrap(validate.Post)) s.Authboss.Events.Before(authboss.EventAuthHijack, s.HijackAuth) return s.Authboss.Core.ViewRenderer.Load( PageSMSConfirm, PageSMSConfirmSuccess, PageSMSRemove, PageSMSRemoveSuccess, PageSMSSetup, PageSMSValidate, ) }"
def fn_otp_twofactor_sms2fa_SMS_HijackAuth : String := "func(w http.ResponseWriter, r *http.Request, handled bool) (bool, error) { if handled { return false, nil } user := r.Context().Value(authboss.CTXKeyUser).(User) number := user.GetSMSPhoneNumber() if len(number) == 0 { return false, nil } authboss.PutSession(w, SessionSMSPendingPID, user.GetPID()) err := s.SendCodeToUser(w, r, user.GetPID(), number) if err != nil && err != errSMSRateLimit { return false, err } var query string if len(r.URL.RawQuery) != 0 { query = \"?\" + r.URL.RawQuery } ro := authboss.RedirectOptions{ Code: http.StatusTemporaryRedirect, RedirectPath: s.Paths.Mount + \"/2fa/sms/validate\" + query, } return true, s.Authboss.Config.Core.Redirector.Redirect(w, r, ro) }"
def fn_otp_twofactor_sms2fa_SMS_SendCodeToUser : String := "func(w http.ResponseWriter, r *http.Request, pid, number string) error { code, err := generateRandomCode() if err != nil { return err } if len(number) == 0 { return errBadPhoneNumber } lastStr, ok := authboss.GetSession(r, SessionSMSLast) suppress := false if ok { last, err := strconv.ParseInt(lastStr, 10, 64) if err != nil { return err } suppress = time.Now().UTC().Unix()-last < smsRateLimitSeconds } if suppress { return errSMSRateLimit } authboss.PutSession(w, SessionSMSLast, strconv.FormatInt(time.Now().UTC().Unix(), 10)) authboss.PutSession(w, SessionSMSSecret, code) if err := s.Sender.Send(r.Context(), number, code); err != nil { return err } return nil }"
def fn_otp_twofactor_sms2fa_SMS_GetSetup : String := "func(w http.ResponseWriter, r *http.Request) error { abUser, err := s.CurrentUser(r) if err != nil { return err } var data authboss.HTMLData numberProvider, ok := abUser.(SMSNumberProvider) if ok { if val := numberProvider.GetSMSPhoneNumberSeed(); len(val) != 0 { data = authboss.HTMLData{DataSMSPhoneNumber: val} } } authboss.DelSession(w, SessionSMSSecret) authboss.DelSession(w, SessionSMSNumber) return s.Core.Responder.Respond(w, r, http.StatusOK, PageSMSSetup, data) }"
def fn_otp_twofactor_sms2fa_SMS_PostSetup : String := "func(w http.ResponseWriter, r *http.Request) error { abUser, err := s.CurrentUser(r) if err != nil { return err } user := abUser.(User) validator, err := s.Authboss.Config.Core.BodyReader.Read(PageSMSSetup, r) if err != nil { return err } smsVals := MustHaveSMSPhoneNumberValue(validator) number := smsVals.GetPhoneNumber() if len(number) == 0 { data := authboss.HTMLData{ authboss.DataValidation: map[string][]string{FormValuePhoneNumber: { s.Localizef(r.Context(), authboss.TxtSMSNumberRequired), }}, } return s.Core.Responder.Respond(w, r, http.StatusOK, PageSMSSetup, data) } authboss.PutSession(w, SessionSMSNumber, number) if err = s.SendCodeToUser(w, r, user.GetPID(), number); err != nil { return err } ro := authboss.RedirectOptions{ Code: http.StatusTemporaryRedirect, RedirectPath: s.Paths.Mount + \"/2fa/sms/confirm\", } return s.Core.Redirector.Redirect(w, r, ro) }"
def fn_otp_twofactor_sms2fa_SMSValidator_Post : String := "func(w http.ResponseWriter, r *http.Request) error { abUser, err := s.Authboss.CurrentUser(r) if err == authboss.ErrUserNotFound { pid, ok := authboss.GetSession(r, SessionSMSPendingPID) if ok && len(pid) != 0 { abUser, err = s.Authboss.Config.Storage.Server.Load(r.Context(), pid) } } if err != nil { return err } user := abUser.(User) validator, err := s.Authboss.Config.Core.BodyReader.Read(s.Page, r) if err != nil { return err } smsCodeValues := MustHaveSMSValues(validator) var inputCode, recoveryCode string inputCode = smsCodeValues.GetCode() if s.Page == PageSMSValidate || s.Page == PageSMSRemove { recoveryCode = smsCodeValues.GetRecoveryCode() } if len(recoveryCode) == 0 && len(inputCode) == 0 { return s.sendCode(w, r, user) } if len(recoveryCode) != 0 { return s.validateCode(w, r, user, \"\", recoveryCode) } return s.validateCode(w, r, user, inputCode, \"\") }"
def fn_otp_twofactor_sms2fa_SMSValidator_sendCode : String := "func(w http.ResponseWriter, r *http.Request, user User) error { var phoneNumber string switch s.Page { case PageSMSConfirm: var ok bool phoneNumber, ok = authboss.GetSession(r, SessionSMSNumber) if !ok { return errors.New(\"request failed, no sms number present in session\") } case PageSMSValidate, PageSMSRemove: phoneNumber = user.GetSMSPhoneNumber() } if len(phoneNumber) == 0 { return errors.Errorf(\"no phone number was available in PostSendCode for user %s\", user.GetPID()) } var data authboss.HTMLData err := s.SendCodeToUser(w, r, user.GetPID(), phoneNumber) if err == errSMSRateLimit { data = authboss.HTMLData{authboss.DataErr: s.Localizef(r.Context(), authboss.TxtSMSWaitToResend)} } else if err != nil { return err } return s.Core.Responder.Respond(w, r, http.StatusOK, s.Page, data) }"
def fn_otp_twofactor_sms2fa_SMSValidator_validateCode : String := "func(w http.ResponseWriter, r *http.Request, user User, inputCode, recoveryCode string) error { var verified bool if len(recoveryCode) != 0 { var ok bool recoveryCodes := twofactor.DecodeRecoveryCodes(user.GetRecoveryCodes()) recoveryCodes, ok = twofactor.UseRecoveryCode(recoveryCodes, recoveryCode) verified = ok if verified { user.PutRecoveryCodes(twofactor.EncodeRecoveryCodes(recoveryCodes)) if err := s.Authboss.Config.Storage.Server.Save(r.Context(), user); err != nil { return err } } } else { code, ok := authboss.GetSession(r, SessionSMSSecret) if !ok || len(code) == 0 { return errors.Errorf(\"no code in session for user %s\", user.GetPID()) } verified = 1 == subtle.ConstantTimeCompare([]byte(inputCode), []byte(code)) } if !verified { r = r.WithContext(context.WithValue(r.Context(), authboss.CTXKeyUser, user)) handled, err := s.Authboss.Events.FireAfter(authboss.EventAuthFail, w, r) if err != nil { return err } else if handled { return nil } data := authboss.HTMLData{ authboss.DataValidation: map[string][]string{FormValueCode: {s.Localizef(r.Context(), authboss.TxtInvalid2FACode)}}, } return s.Authboss.Core.Responder.Respond(w, r, http.StatusOK, s.Page, data) } var data authboss.HTMLData switch s.Page { case PageSMSConfirm: phoneNumber, ok := authboss.GetSession(r, SessionSMSNumber) if !ok { return errors.New(\"request failed, no sms number present in session\") } codes, err := twofactor.GenerateRecoveryCodes() if err != nil { return err } crypted, err := twofactor.BCryptRecoveryCodes(codes) if err != nil { return err } user.PutSMSPhoneNumber(phoneNumber) user.PutRecoveryCodes(twofactor.EncodeRecoveryCodes(crypted)) if err = s.Authboss.Config.Storage.Server.Save(r.Context(), user); err != nil { return err } authboss.DelSession(w, authboss.Session2FAAuthed) authboss.DelSession(w, SessionSMSSecret) authboss.DelSession(w, SessionSMSNumber) data = authboss.HTMLData{twofactor.DataRecoveryCodes: codes} r = r.WithContext(context.WithValue(r.Context(), authboss.CTXKeyUser, user)) if handled, err := s.Authboss.Events.FireAfter(authboss.EventTwoFactorAdded, w, r); err != nil { return err } else if handled { return nil } case PageSMSRemove: user.PutSMSPhoneNumber(\"\") if err := s.Authboss.Config.Storage.Server.Save(r.Context(), user); err != nil { return err } authboss.DelSession(w, authboss.Session2FA) r = r.WithContext(context.WithValue(r.Context(), authboss.CTXKeyUser, user)) if handled, err := s.Authboss.Events.FireAfter(authboss.EventTwoFactorRemoved, w, r); err != nil { return err } else if handled { return nil } case PageSMSValidate: r = r.WithContext(context.WithValue(r.Context(), authboss.CTXKeyUser, user)) handled, err := s.Authboss.Events.FireBefore(authboss.EventAuth, w, r) if err != nil { return err } else if handled { return nil } authboss.PutSession(w, authboss.SessionKey, user.GetPID()) authboss.PutSession(w, authboss.Session2FA, \"sms\") authboss.DelSession(w, authboss.SessionHalfAuthKey) authboss.DelSession(w, SessionSMSPendingPID) authboss.DelSession(w, SessionSMSSecret) handled, err = s.Authboss.Events.FireAfter(authboss.EventAuth, w, r) if err != nil { return err } else if handled { return nil } ro := authboss.RedirectOptions{ Code: http.StatusTemporaryRedirect, RedirectPath: s.Authboss.Config.Paths.AuthLoginOK, FollowRedirParam: true, } return s.Authboss.Core.Redirector.Redirect(w, r, ro) default: return errors.New(\"unknown action for sms validate\") } return s.Authboss.Core.Responder.Respond(w, r, http.StatusOK, s.Page+successSuffix, data) }"
def fn_otp_twofactor_sms2fa_generateRandomCode : String := "func() (code string, err error) { sb := new(strings.Builder) random := make([]byte, smsCodeLength) if _, err = io.ReadFull(rand.Reader, random); err != nil { return \"\", err } for i := range random { sb.WriteByte(random[i]%10 + 48) } return sb.String(), nil }"
def consts_otp_twofactor_sms2fa : List (String × String) := [
  ("otp_twofactor_sms2fa.SessionSMSNumber", "\"sms_number\""),
  ("otp_twofactor_sms2fa.SessionSMSSecret", "\"sms_secret\""),
  ("otp_twofactor_sms2fa.SessionSMSLast", "\"sms_last\""),
  ("otp_twofactor_sms2fa.SessionSMSPendingPID", "\"sms_pending\""),
  ("otp_twofactor_sms2fa.FormValueCode", "\"code\""),
  ("otp_twofactor_sms2fa.FormValuePhoneNumber", "\"phone_number\""),
  ("otp_twofactor_sms2fa.successSuffix", "\"_success\""),
  ("otp_twofactor_sms2fa.PageSMSConfirm", "\"sms2fa_confirm\""),
  ("otp_twofactor_sms2fa.PageSMSConfirmSuccess", "\"sms2fa_confirm_success\""),
  ("otp_twofactor_sms2fa.PageSMSRemove", "\"sms2fa_remove\""),
  ("otp_twofactor_sms2fa.PageSMSRemoveSuccess", "\"sms2fa_remove_success\""),
  ("otp_twofactor_sms2fa.PageSMSSetup", "\"sms2fa_setup\""),
  ("otp_twofactor_sms2fa.PageSMSValidate", "\"sms2fa_validate\""),
  ("otp_twofactor_sms2fa.DataSMSSecret", "SessionSMSSecret"),
  ("otp_twofactor_sms2fa.DataSMSPhoneNumber", "\"sms_phone_number\""),
  ("otp_twofactor_sms2fa.smsCodeLength", "6"),
  ("otp_twofactor_sms2fa.smsRateLimitSeconds", "10")
]
def eventRegs_otp_twofactor_sms2fa : List (String × String) := [
  ("otp_twofactor_sms2fa.SMS.Setup", "Before authboss.EventAuthHijack s.HijackAuth")
]
def stateCalls_otp_twofactor_sms2fa : List (String × String) := [
  ("otp_twofactor_sms2fa.SMS.HijackAuth", "PutSession(SessionSMSPendingPID, user.GetPID())"),
  ("otp_twofactor_sms2fa.SMS.SendCodeToUser", "PutSession(SessionSMSLast, strconv.FormatInt(time.Now().UTC().Unix(), 10))"),
  ("otp_twofactor_sms2fa.SMS.SendCodeToUser", "PutSession(SessionSMSSecret, code)"),
  ("otp_twofactor_sms2fa.SMS.GetSetup", "DelSession(SessionSMSSecret)"),
  ("otp_twofactor_sms2fa.SMS.GetSetup", "DelSession(SessionSMSNumber)"),
  ("otp_twofactor_sms2fa.SMS.PostSetup", "PutSession(SessionSMSNumber, number)"),
  ("otp_twofactor_sms2fa.SMSValidator.validateCode", "DelSession(authboss.Session2FAAuthed)"),
  ("otp_twofactor_sms2fa.SMSValidator.validateCode", "DelSession(SessionSMSSecret)"),
  ("otp_twofactor_sms2fa.SMSValidator.validateCode", "DelSession(SessionSMSNumber)"),
  ("otp_twofactor_sms2fa.SMSValidator.validateCode", "DelSession(authboss.Session2FA)"),
  ("otp_twofactor_sms2fa.SMSValidator.validateCode", "PutSession(authboss.SessionKey, user.GetPID())"),
  ("otp_twofactor_sms2fa.SMSValidator.validateCode", "PutSession(authboss.Session2FA, \"sms\")"),
  ("otp_twofactor_sms2fa.SMSValidator.validateCode", "DelSession(authboss.SessionHalfAuthKey)"),
  ("otp_twofactor_sms2fa.SMSValidator.validateCode", "DelSession(SessionSMSPendingPID)"),
  ("otp_twofactor_sms2fa.SMSValidator.validateCode", "DelSession(SessionSMSSecret)")
]
def logCalls_otp_twofactor_sms2fa : List (String × String) := [
  ("otp_twofactor_sms2fa.SMS.SendCodeToUser", "Infof(\"rate-limited sms for %s to %s\" | pid | number)"),
  ("otp_twofactor_sms2fa.SMS.SendCodeToUser", "Infof(\"sending sms for %s to %s\" | pid | number)"),
  ("otp_twofactor_sms2fa.SMS.SendCodeToUser", "Infof(\"failed to send sms for %s to %s: %+v\" | pid | number | err)"),
  ("otp_twofactor_sms2fa.SMSValidator.validateCode", "Infof(\"user %s used recovery code instead of sms2fa\" | user.GetPID())"),
  ("otp_twofactor_sms2fa.SMSValidator.validateCode", "Infof(\"user %s sms 2fa failure (wrong code)\" | user.GetPID())"),
  ("otp_twofactor_sms2fa.SMSValidator.validateCode", "Infof(\"user %s enabled sms 2fa\" | user.GetPID())"),
  ("otp_twofactor_sms2fa.SMSValidator.validateCode", "Infof(\"user %s disabled sms 2fa\" | user.GetPID())"),
  ("otp_twofactor_sms2fa.SMSValidator.validateCode", "Infof(\"user %s sms 2fa success\" | user.GetPID())")
]
def routes_otp_twofactor_sms2fa : List (String × String) := [
  ("otp_twofactor_sms2fa.SMS.Setup", "Get \"/2fa/sms/setup\" verified(s.GetSetup)"),
  ("otp_twofactor_sms2fa.SMS.Setup", "Post \"/2fa/sms/setup\" verified(s.PostSetup)"),
  ("otp_twofactor_sms2fa.SMS.Setup", "Get \"/2fa/sms/confirm\" verified(confirm.Get)"),
  ("otp_twofactor_sms2fa.SMS.Setup", "Post \"/2fa/sms/confirm\" verified(confirm.Post)"),
  ("otp_twofactor_sms2fa.SMS.Setup", "Get \"/2fa/sms/remove\" middleware(remove.Get)"),
  ("otp_twofactor_sms2fa.SMS.Setup", "Post \"/2fa/sms/remove\" middleware(remove.Post)"),
  ("otp_twofactor_sms2fa.SMS.Setup", "Get \"/2fa/sms/validate\" s.Core.ErrorHandler.Wrap(validate.Get)"),
  ("otp_twofactor_sms2fa.SMS.Setup", "Post \"/2fa/sms/validate\" s.Core.ErrorHandler.Wrap(validate.Post)")
]
def fn_otp_twofactor_totp2fa_TOTP_Setup : String := "func() error { var unauthedResponse authboss.MWRespondOnFailure if t.Config.Modules.ResponseOnUnauthed != 0 { unauthedResponse = t.Config.Modules.ResponseOnUnauthed } else if t.Config.Modules.RoutesRedirectOnUnauthed { unauthedResponse = authboss.RespondRedirect } abmw := authboss.MountedMiddleware2(t.Authboss, true, authboss.RequireFullAuth, unauthedResponse) var middleware, verified func(func(w http.ResponseWriter, r *http.Request) error) http.Handler middleware = func(handler func(http.ResponseWriter, *http.Request) error) http.Handler { return abmw(t.Core.ErrorHandler.Wrap(handler)) } if t.Authboss.Config.Modules.TwoFactorEmailAuthRequired { setupPath := path.Join(t.Authboss.Paths.Mount, \"/2fa/totp/setup\") emailVerify, err := twofactor.SetupEmailVerify(t.Authboss, \"totp\", setupPath) if err != nil { return err } verified = func(handler func(http.ResponseWriter, *http.Request) error) http.Handler { return abmw(emailVerify.Wrap(t.Core.ErrorHandler.Wrap(handler))) } } else { verified = middleware } t.Authboss.Core.Router.Get(\"/2fa/totp/setup\", verified(t.GetSetup)) t.Authboss.Core.Router.Post(\"/2fa/totp/setup\", verified(t.PostSetup)) t.Authboss.Core.Router.Get(\"/2fa/totp/qr\", verified(t.GetQRCode)) t.Authboss.Core.Router.Get(\"/2fa/totp/confirm\", verified(t.GetConfirm)) t.Authboss.Core.Router.Post(\"/2fa/totp/confirm\", verified(t.PostConfirm)) t.Authboss.Core.Router.Get(\"/2fa/totp/remove\", middleware(t.GetRemove)) t.Authboss.Core.Router.Post(\"/2fa/totp/remove\", middleware(t.PostRemove)) t.Authboss.Core.Router.Get(\"/2fa/totp/validate\", t.Core.ErrorHandler.Wrap(t.GetValidate)) t.Authboss.Core.Router.Post(\"/2fa/totp/validate\", t.Core.ErrorHandler.Wrap(t.PostValidate)) t.Authboss.Events.Before(authboss.EventAuthHijack, t.HijackAuth) return t.Authboss.Core.ViewRenderer.Load( PageTOTPSetup, PageTOTPValidate, PageTOTPConfirm, PageTOTPConfirmSuccess, PageTOTPRemove, PageTOTPRemoveSuccess, ) }"
def fn_otp_twofactor_totp2fa_TOTP_HijackAuth : String := "func(w http.ResponseWriter, r *http.Request, handled bool) (bool, error) { if handled { return false, nil } user := r.Context().Value(authboss.CTXKeyUser).(User) if len(user.GetTOTPSecretKey()) == 0 { return false, nil } authboss.PutSession(w, SessionTOTPPendingPID, user.GetPID()) var query string if len(r.URL.RawQuery) != 0 { query = \"?\" + r.URL.RawQuery } ro := authboss.RedirectOptions{ Code: http.StatusTemporaryRedirect, RedirectPath: t.Paths.Mount + \"/2fa/totp/validate\" + query, } return true, t.Authboss.Config.Core.Redirector.Redirect(w, r, ro) }"
def fn_otp_twofactor_totp2fa_TOTP_GetSetup : String := "func(w http.ResponseWriter, r *http.Request) error { authboss.DelSession(w, SessionTOTPSecret) return t.Core.Responder.Respond(w, r, http.StatusOK, PageTOTPSetup, nil) }"
def fn_otp_twofactor_totp2fa_TOTP_PostSetup : String := "func(w http.ResponseWriter, r *http.Request) error { abUser, err := t.CurrentUser(r) if err != nil { return err } user := abUser.(User) key, err := totp.Generate(totp.GenerateOpts{ Issuer: t.Authboss.Config.Modules.TOTP2FAIssuer, AccountName: user.GetEmail(), }) if err != nil { return errors.Wrap(err, \"failed to create a totp key\") } secret := key.Secret() authboss.PutSession(w, SessionTOTPSecret, secret) ro := authboss.RedirectOptions{ Code: http.StatusTemporaryRedirect, RedirectPath: t.Paths.Mount + \"/2fa/totp/confirm\", } return t.Core.Redirector.Redirect(w, r, ro) }"
def fn_otp_twofactor_totp2fa_TOTP_PostConfirm : String := "func(w http.ResponseWriter, r *http.Request) error { abUser, err := t.CurrentUser(r) if err != nil { return err } user := abUser.(User) totpSecret, ok := authboss.GetSession(r, SessionTOTPSecret) if !ok { return errors.New(\"request failed, no totp secret present in session\") } validator, err := t.Authboss.Config.Core.BodyReader.Read(PageTOTPConfirm, r) if err != nil { return err } totpCodeValues := MustHaveTOTPCodeValues(validator) inputCode := totpCodeValues.GetCode() ok = totp.Validate(inputCode, totpSecret) if !ok { data := authboss.HTMLData{ authboss.DataValidation: map[string][]string{FormValueCode: { t.Localizef(r.Context(), authboss.TxtInvalid2FACode), }}, DataTOTPSecret: totpSecret, } return t.Authboss.Core.Responder.Respond(w, r, http.StatusOK, PageTOTPConfirm, data) } codes, err := twofactor.GenerateRecoveryCodes() if err != nil { return err } crypted, err := twofactor.BCryptRecoveryCodes(codes) if err != nil { return err } user.PutTOTPSecretKey(totpSecret) user.PutRecoveryCodes(twofactor.EncodeRecoveryCodes(crypted)) if oneTime, ok := user.(UserOneTime); ok { oneTime.PutTOTPLastCode(inputCode) } if err = t.Authboss.Config.Storage.Server.Save(r.Context(), user); err != nil { return err } authboss.DelSession(w, SessionTOTPSecret) authboss.DelSession(w, authboss.Session2FAAuthed) r = r.WithContext(context.WithValue(r.Context(), authboss.CTXKeyUser, user)) if handled, err := t.Authboss.Events.FireAfter(authboss.EventTwoFactorAdded, w, r); err != nil { return err } else if handled { return nil } data := authboss.HTMLData{twofactor.DataRecoveryCodes: codes} return t.Authboss.Core.Responder.Respond(w, r, http.StatusOK, PageTOTPConfirmSuccess, data) }"
def fn_otp_twofactor_totp2fa_TOTP_PostRemove : String := "func(w http.ResponseWriter, r *http.Request) error { user, status, err := t.validate(r) switch { case err == errNoTOTPEnabled: data := authboss.HTMLData{authboss.DataErr: t.Localizef(r.Context(), authboss.TxtTOTP2FANotActive)} return t.Authboss.Core.Responder.Respond(w, r, http.StatusOK, PageTOTPRemove, data) case err != nil: return err case status != t.Localizef(r.Context(), authboss.TxtSuccess): data := authboss.HTMLData{ authboss.DataValidation: map[string][]string{FormValueCode: {status}}, } return t.Authboss.Core.Responder.Respond(w, r, http.StatusOK, PageTOTPRemove, data) } authboss.DelSession(w, authboss.Session2FA) user.PutTOTPSecretKey(\"\") if err = t.Authboss.Config.Storage.Server.Save(r.Context(), user); err != nil { return err } r = r.WithContext(context.WithValue(r.Context(), authboss.CTXKeyUser, user)) if handled, err := t.Authboss.Events.FireAfter(authboss.EventTwoFactorRemoved, w, r); err != nil { return err } else if handled { return nil } return t.Authboss.Core.Responder.Respond(w, r, http.StatusOK, PageTOTPRemoveSuccess, nil) }"
def fn_otp_twofactor_totp2fa_TOTP_PostValidate : String := "func(w http.ResponseWriter, r *http.Request) error { user, status, err := t.validate(r) switch { case err == errNoTOTPEnabled: data := authboss.HTMLData{authboss.DataErr: t.Localizef( r.Context(), authboss.TxtTOTP2FANotActive)} return t.Authboss.Core.Responder.Respond(w, r, http.StatusOK, PageTOTPValidate, data) case err != nil: return err case status != t.Localizef(r.Context(), authboss.TxtSuccess): r = r.WithContext(context.WithValue(r.Context(), authboss.CTXKeyUser, user)) handled, err := t.Authboss.Events.FireAfter(authboss.EventAuthFail, w, r) if err != nil { return err } else if handled { return nil } data := authboss.HTMLData{ authboss.DataValidation: map[string][]string{FormValueCode: {status}}, } return t.Authboss.Core.Responder.Respond(w, r, http.StatusOK, PageTOTPValidate, data) } if _, ok := user.(UserOneTime); ok { if err = t.Authboss.Config.Storage.Server.Save(r.Context(), user); err != nil { return err } } r = r.WithContext(context.WithValue(r.Context(), authboss.CTXKeyUser, user)) handled, err := t.Authboss.Events.FireBefore(authboss.EventAuth, w, r) if err != nil { return err } else if handled { return nil } authboss.PutSession(w, authboss.SessionKey, user.GetPID()) authboss.PutSession(w, authboss.Session2FA, \"totp\") authboss.DelSession(w, authboss.SessionHalfAuthKey) authboss.DelSession(w, SessionTOTPPendingPID) authboss.DelSession(w, SessionTOTPSecret) handled, err = t.Authboss.Events.FireAfter(authboss.EventAuth, w, r) if err != nil { return err } else if handled { return nil } ro := authboss.RedirectOptions{ Code: http.StatusTemporaryRedirect, RedirectPath: t.Authboss.Config.Paths.AuthLoginOK, FollowRedirParam: true, } return t.Authboss.Core.Redirector.Redirect(w, r, ro) }"
def fn_otp_twofactor_totp2fa_TOTP_validate : String := "func(r *http.Request) (User, string, error) { abUser, err := t.CurrentUser(r) if err == authboss.ErrUserNotFound { pid, ok := authboss.GetSession(r, SessionTOTPPendingPID) if ok && len(pid) != 0 { abUser, err = t.Authboss.Config.Storage.Server.Load(r.Context(), pid) } } if err != nil { return nil, \"\", err } user := abUser.(User) secret := user.GetTOTPSecretKey() if len(secret) == 0 { return user, \"\", errNoTOTPEnabled } validator, err := t.Authboss.Config.Core.BodyReader.Read(PageTOTPValidate, r) if err != nil { return nil, \"\", err } totpCodeValues := MustHaveTOTPCodeValues(validator) if recoveryCode := totpCodeValues.GetRecoveryCode(); len(recoveryCode) != 0 { var ok bool recoveryCodes := twofactor.DecodeRecoveryCodes(user.GetRecoveryCodes()) recoveryCodes, ok = twofactor.UseRecoveryCode(recoveryCodes, recoveryCode) if ok { user.PutRecoveryCodes(twofactor.EncodeRecoveryCodes(recoveryCodes)) if err := t.Authboss.Config.Storage.Server.Save(r.Context(), user); err != nil { return nil, \"\", err } } else { return user, t.Localizef(r.Context(), authboss.TxtInvalid2FACode), nil } return user, t.Localizef(r.Context(), authboss.TxtSuccess), nil } input := totpCodeValues.GetCode() if oneTime, ok := user.(UserOneTime); ok { oldCode := oneTime.GetTOTPLastCode() if oldCode == input { return user, t.Localizef(r.Context(), authboss.TxtRepeated2FACode), nil } oneTime.PutTOTPLastCode(input) } if !totp.Validate(input, secret) { return user, t.Localizef(r.Context(), authboss.TxtInvalid2FACode), nil } return user, t.Localizef(r.Context(), authboss.TxtSuccess), nil }"
def consts_otp_twofactor_totp2fa : List (String × String) := [
  ("otp_twofactor_totp2fa.otpKeyFormat", "\"otpauth://totp/%s:%s?issuer=%s&secret=%s\""),
  ("otp_twofactor_totp2fa.SessionTOTPSecret", "\"totp_secret\""),
  ("otp_twofactor_totp2fa.SessionTOTPPendingPID", "\"totp_pending\""),
  ("otp_twofactor_totp2fa.PageTOTPConfirm", "\"totp2fa_confirm\""),
  ("otp_twofactor_totp2fa.PageTOTPConfirmSuccess", "\"totp2fa_confirm_success\""),
  ("otp_twofactor_totp2fa.PageTOTPRemove", "\"totp2fa_remove\""),
  ("otp_twofactor_totp2fa.PageTOTPRemoveSuccess", "\"totp2fa_remove_success\""),
  ("otp_twofactor_totp2fa.PageTOTPSetup", "\"totp2fa_setup\""),
  ("otp_twofactor_totp2fa.PageTOTPValidate", "\"totp2fa_validate\""),
  ("otp_twofactor_totp2fa.FormValueCode", "\"code\""),
  ("otp_twofactor_totp2fa.DataTOTPSecret", "SessionTOTPSecret")
]
def eventRegs_otp_twofactor_totp2fa : List (String × String) := [
  ("otp_twofactor_totp2fa.TOTP.Setup", "Before authboss.EventAuthHijack t.HijackAuth")
]
def stateCalls_otp_twofactor_totp2fa : List (String × String) := [
  ("otp_twofactor_totp2fa.TOTP.HijackAuth", "PutSession(SessionTOTPPendingPID, user.GetPID())"),
  ("otp_twofactor_totp2fa.TOTP.GetSetup", "DelSession(SessionTOTPSecret)"),
  ("otp_twofactor_totp2fa.TOTP.PostSetup", "PutSession(SessionTOTPSecret, secret)"),
  ("otp_twofactor_totp2fa.TOTP.PostConfirm", "DelSession(SessionTOTPSecret)"),
  ("otp_twofactor_totp2fa.TOTP.PostConfirm", "DelSession(authboss.Session2FAAuthed)"),
  ("otp_twofactor_totp2fa.TOTP.PostRemove", "DelSession(authboss.Session2FA)"),
  ("otp_twofactor_totp2fa.TOTP.PostValidate", "PutSession(authboss.SessionKey, user.GetPID())"),
  ("otp_twofactor_totp2fa.TOTP.PostValidate", "PutSession(authboss.Session2FA, \"totp\")"),
  ("otp_twofactor_totp2fa.TOTP.PostValidate", "DelSession(authboss.SessionHalfAuthKey)"),
  ("otp_twofactor_totp2fa.TOTP.PostValidate", "DelSession(SessionTOTPPendingPID)"),
  ("otp_twofactor_totp2fa.TOTP.PostValidate", "DelSession(SessionTOTPSecret)")
]
def logCalls_otp_twofactor_totp2fa : List (String × String) := [
  ("otp_twofactor_totp2fa.TOTP.PostConfirm", "Infof(\"user %s enabled totp 2fa\" | user.GetPID())"),
  ("otp_twofactor_totp2fa.TOTP.PostRemove", "Infof(\"user %s totp 2fa removal failure (%s)\" | user.GetPID() | status)"),
  ("otp_twofactor_totp2fa.TOTP.PostRemove", "Infof(\"user %s disabled totp 2fa\" | user.GetPID())"),
  ("otp_twofactor_totp2fa.TOTP.PostValidate", "Infof(\"user %s totp failure (not enabled)\" | user.GetPID())"),
  ("otp_twofactor_totp2fa.TOTP.PostValidate", "Infof(\"user %s totp 2fa failure (%s)\" | user.GetPID() | status)"),
  ("otp_twofactor_totp2fa.TOTP.PostValidate", "Infof(\"user %s totp 2fa success\" | user.GetPID())"),
  ("otp_twofactor_totp2fa.TOTP.validate", "Infof(\"user %s used recovery code instead of sms2fa\" | user.GetPID())")
]
def routes_otp_twofactor_totp2fa : List (String × String) := [
  ("otp_twofactor_totp2fa.TOTP.Setup", "Get \"/2fa/totp/setup\" verified(t.GetSetup)"),
  ("otp_twofactor_totp2fa.TOTP.Setup", "Post \"/2fa/totp/setup\" verified(t.PostSetup)"),
  ("otp_twofactor_totp2fa.TOTP.Setup", "Get \"/2fa/totp/qr\" verified(t.GetQRCode)"),
  ("otp_twofactor_totp2fa.TOTP.Setup", "Get \"/2fa/totp/confirm\" verified(t.GetConfirm)"),
  ("otp_twofactor_totp2fa.TOTP.Setup", "Post \"/2fa/totp/confirm\" verified(t.PostConfirm)"),
  ("otp_twofactor_totp2fa.TOTP.Setup", "Get \"/2fa/totp/remove\" middleware(t.GetRemove)"),
  ("otp_twofactor_totp2fa.TOTP.Setup", "Post \"/2fa/totp/remove\" middleware(t.PostRemove)"),
  ("otp_twofactor_totp2fa.TOTP.Setup", "Get \"/2fa/totp/validate\" t.Core.ErrorHandler.Wrap(t.GetValidate)"),
  ("otp_twofactor_totp2fa.TOTP.Setup", "Post \"/2fa/totp/validate\" t.Core.ErrorHandler.Wrap(t.PostValidate)")
]
def fn_otp_twofactor_Recovery_Setup : String := "func() error { var unauthedResponse authboss.MWRespondOnFailure if rc.Config.Modules.ResponseOnUnauthed != 0 { unauthedResponse = rc.Config.Modules.ResponseOnUnauthed } else if rc.Config.Modules.RoutesRedirectOnUnauthed { unauthedResponse = authboss.RespondRedirect } middleware := authboss.MountedMiddleware2(rc.Authboss, true, authboss.RequireFullAuth, unauthedResponse) rc.Authboss.Core.Router.Get(\"/2fa/recovery/regen\", middleware(rc.Authboss.Core.ErrorHandler.Wrap(rc.GetRegen))) rc.Authboss.Core.Router.Post(\"/2fa/recovery/regen\", middleware(rc.Authboss.Core.ErrorHandler.Wrap(rc.PostRegen))) return rc.Authboss.Core.ViewRenderer.Load(PageRecovery2FA) }"
def fn_otp_twofactor_Recovery_PostRegen : String := "func(w http.ResponseWriter, r *http.Request) error { abUser, err := rc.CurrentUser(r) if err != nil { return err } user := abUser.(User) codes, err := GenerateRecoveryCodes() if err != nil { return err } hashedCodes, err := BCryptRecoveryCodes(codes) if err != nil { return err } user.PutRecoveryCodes(EncodeRecoveryCodes(hashedCodes)) if err = rc.Authboss.Config.Storage.Server.Save(r.Context(), user); err != nil { return err } data := authboss.HTMLData{DataRecoveryCodes: codes} return rc.Authboss.Core.Responder.Respond(w, r, http.StatusOK, PageRecovery2FA, data) }"
def fn_otp_twofactor_GenerateRecoveryCodes : String := "func() ([]string, error) { byt := make([]byte, 10*recoveryCodeLength) if _, err := io.ReadFull(rand.Reader, byt); err != nil { return nil, err } codes := make([]string, 10) for i := range codes { builder := new(strings.Builder) for j := 0; j < recoveryCodeLength; j++ { if recoveryCodeLength/2 == j { builder.WriteByte('-') } randNumber := byt[i*recoveryCodeLength+j] % byte(len(alphabet)) builder.WriteByte(alphabet[randNumber]) } codes[i] = builder.String() } return codes, nil }"
def fn_otp_twofactor_BCryptRecoveryCodes : String := "func(codes []string) ([]string, error) { cryptedCodes := make([]string, len(codes)) for i, c := range codes { hash, err := bcrypt.GenerateFromPassword([]byte(c), bcrypt.DefaultCost) if err != nil { return nil, err } cryptedCodes[i] = string(hash) } return cryptedCodes, nil }"
def fn_otp_twofactor_UseRecoveryCode : String := "func(codes []string, inputCode string) ([]string, bool) { input := []byte(inputCode) use := -1 for i, c := range codes { err := bcrypt.CompareHashAndPassword([]byte(c), input) if err == nil { use = i break } } if use < 0 { return nil, false } ret := make([]string, len(codes)-1) for j := range codes { if j == use { continue } set := j if j > use { set-- } ret[set] = codes[j] } return ret, true }"
def fn_otp_twofactor_EncodeRecoveryCodes : String := "func(codes []string) string { return strings.Join(codes, \",\") }"
def fn_otp_twofactor_DecodeRecoveryCodes : String := "func(codes string) []string { return strings.Split(codes, \",\") }"
def fn_otp_twofactor_SetupEmailVerify : String := "func(ab *authboss.Authboss, twofactorKind, setupURL string) (EmailVerify, error) { e := EmailVerify{ Authboss: ab, TwofactorKind: twofactorKind, TwofactorSetupURL: setupURL, } var unauthedResponse authboss.MWRespondOnFailure if ab.Config.Modules.ResponseOnUnauthed != 0 { unauthedResponse = ab.Config.Modules.ResponseOnUnauthed } else if ab.Config.Modules.RoutesRedirectOnUnauthed { unauthedResponse = authboss.RespondRedirect } middleware := authboss.MountedMiddleware2(ab, true, authboss.RequireFullAuth, unauthedResponse) e.Authboss.Core.Router.Get(\"/2fa/\"+twofactorKind+\"/email/verify\", middleware(ab.Core.ErrorHandler.Wrap(e.GetStart))) e.Authboss.Core.Router.Post(\"/2fa/\"+twofactorKind+\"/email/verify\", middleware(ab.Core.ErrorHandler.Wrap(e.PostStart))) var routerMethod func(string, http.Handler) switch ab.Config.Modules.MailRouteMethod { case http.MethodGet: routerMethod = ab.Core.Router.Get case http.MethodPost: routerMethod = ab.Core.Router.Post default: return e, errors.New(\"MailRouteMethod must be set to something in the config\") } routerMethod(\"/2fa/\"+twofactorKind+\"/email/verify/end\", middleware(ab.Core.ErrorHandler.Wrap(e.End))) if err := e.Authboss.Core.ViewRenderer.Load(PageVerify2FA); err != nil { return e, err } return e, e.Authboss.Core.MailRenderer.Load(EmailVerifyHTML, EmailVerifyTxt) }"
def fn_otp_twofactor_EmailVerify_PostStart : String := "func(w http.ResponseWriter, r *http.Request) error { cu, err := e.Authboss.CurrentUser(r) if err != nil { return err } user := cu.(User) ctx := r.Context() token, err := GenerateToken() if err != nil { return err } authboss.PutSession(w, authboss.Session2FAAuthToken, token) if e.Authboss.Config.Modules.MailNoGoroutine { e.SendVerifyEmail(ctx, user.GetEmail(), token) } else { go e.SendVerifyEmail(ctx, user.GetEmail(), token) } ro := authboss.RedirectOptions{ Code: http.StatusTemporaryRedirect, RedirectPath: e.Authboss.Config.Paths.TwoFactorEmailAuthNotOK, Success: e.Localizef(ctx, authboss.TxtEmailVerifyTriggered), } return e.Authboss.Config.Core.Redirector.Redirect(w, r, ro) }"
def fn_otp_twofactor_EmailVerify_SendVerifyEmail : String := "func(ctx context.Context, to, token string) { mailURL := e.mailURL(token) email := authboss.Email{ To: []string{to}, From: e.Config.Mail.From, FromName: e.Config.Mail.FromName, Subject: e.Config.Mail.SubjectPrefix + e.Localizef(ctx, authboss.TxtEmailVerifySubject), } ro := authboss.EmailResponseOptions{ Data: authboss.NewHTMLData(DataVerifyURL, mailURL), HTMLTemplate: EmailVerifyHTML, TextTemplate: EmailVerifyTxt, } if err := e.Authboss.Email(ctx, email, ro); err != nil { } }"
def fn_otp_twofactor_EmailVerify_End : String := "func(w http.ResponseWriter, r *http.Request) error { values, err := e.Authboss.Core.BodyReader.Read(PageVerifyEnd2FA, r) if err != nil { return err } tokenValues := MustHaveEmailVerifyTokenValues(values) wantToken := tokenValues.GetToken() givenToken, ok := authboss.GetSession(r, authboss.Session2FAAuthToken) if !ok || len(givenToken) == 0 || 1 != subtle.ConstantTimeCompare([]byte(wantToken), []byte(givenToken)) { ro := authboss.RedirectOptions{ Code: http.StatusTemporaryRedirect, Failure: e.Localizef(r.Context(), authboss.TxtInvalid2FAVerificationToken), RedirectPath: e.Authboss.Config.Paths.TwoFactorEmailAuthNotOK, } return e.Authboss.Core.Redirector.Redirect(w, r, ro) } authboss.DelSession(w, authboss.Session2FAAuthToken) authboss.PutSession(w, authboss.Session2FAAuthed, \"true\") ro := authboss.RedirectOptions{ Code: http.StatusTemporaryRedirect, RedirectPath: e.TwofactorSetupURL, } return e.Authboss.Core.Redirector.Redirect(w, r, ro) }"
def fn_otp_twofactor_EmailVerify_Wrap : String := "func(handler http.Handler) http.Handler { return http.HandlerFunc(func(w http.ResponseWriter, r *http.Request) { if !e.Authboss.Config.Modules.TwoFactorEmailAuthRequired { handler.ServeHTTP(w, r) return } authed, _ := authboss.GetSession(r, authboss.Session2FAAuthed) if authed == \"true\" { handler.ServeHTTP(w, r) return } redirURL := path.Join(e.Authboss.Config.Paths.Mount, \"2fa\", e.TwofactorKind, \"email/verify\") ro := authboss.RedirectOptions{ Code: http.StatusTemporaryRedirect, Failure: e.Localizef(r.Context(), authboss.Txt2FAAuthorizationRequired), RedirectPath: redirURL, } if err := e.Authboss.Core.Redirector.Redirect(w, r, ro); err != nil { return } }) }"
def fn_otp_twofactor_GenerateToken : String := "func() (string, error) { rawToken := make([]byte, verifyEmailTokenSize) if _, err := io.ReadFull(rand.Reader, rawToken); err != nil { return \"\", err } return base64.URLEncoding.EncodeToString(rawToken), nil }"
def consts_otp_twofactor : List (String × String) := [
  ("otp_twofactor.PageRecovery2FA", "\"recovery2fa\""),
  ("otp_twofactor.PageVerify2FA", "\"twofactor_verify\""),
  ("otp_twofactor.PageVerifyEnd2FA", "\"twofactor_verify_end\""),
  ("otp_twofactor.EmailVerifyHTML", "\"twofactor_verify_email_html\""),
  ("otp_twofactor.EmailVerifyTxt", "\"twofactor_verify_email_txt\""),
  ("otp_twofactor.FormValueToken", "\"token\""),
  ("otp_twofactor.DataRecoveryCode", "\"recovery_code\""),
  ("otp_twofactor.DataRecoveryCodes", "\"recovery_codes\""),
  ("otp_twofactor.DataNumRecoveryCodes", "\"n_recovery_codes\""),
  ("otp_twofactor.DataVerifyEmail", "\"email\""),
  ("otp_twofactor.DataVerifyURL", "\"url\""),
  ("otp_twofactor.alphabet", "\"abcdefghijkmnopqrstuvwxyz0123456789\""),
  ("otp_twofactor.recoveryCodeLength", "10"),
  ("otp_twofactor.verifyEmailTokenSize", "16")
]
def stateCalls_otp_twofactor : List (String × String) := [
  ("otp_twofactor.EmailVerify.PostStart", "PutSession(authboss.Session2FAAuthToken, token)"),
  ("otp_twofactor.EmailVerify.End", "DelSession(authboss.Session2FAAuthToken)"),
  ("otp_twofactor.EmailVerify.End", "PutSession(authboss.Session2FAAuthed, \"true\")")
]
def logCalls_otp_twofactor : List (String × String) := [
  ("otp_twofactor.EmailVerify.PostStart", "Infof(\"generated new 2fa e-mail verify token for user: %s\" | user.GetPID())"),
  ("otp_twofactor.EmailVerify.SendVerifyEmail", "Infof(\"sending add 2fa verification e-mail to: %s\" | to)"),
  ("otp_twofactor.EmailVerify.SendVerifyEmail", "Errorf(\"failed to send 2fa verification e-mail to %s: %+v\" | to | err)"),
  ("otp_twofactor.EmailVerify.Wrap", "Errorf(\"failed to redirect client: %+v\" | err)")
]
def routes_otp_twofactor : List (String × String) := [
  ("otp_twofactor.Recovery.Setup", "Get \"/2fa/recovery/regen\" middleware(rc.Authboss.Core.ErrorHandler.Wrap(rc.GetRegen))"),
  ("otp_twofactor.Recovery.Setup", "Post \"/2fa/recovery/regen\" middleware(rc.Authboss.Core.ErrorHandler.Wrap(rc.PostRegen))"),
  ("otp_twofactor.SetupEmailVerify", "Get \"/2fa/\" + twofactorKind + \"/email/verify\" middleware(ab.Core.ErrorHandler.Wrap(e.GetStart))"),
  ("otp_twofactor.SetupEmailVerify", "Post \"/2fa/\" + twofactorKind + \"/email/verify\" middleware(ab.Core.ErrorHandler.Wrap(e.PostStart))"),
  ("otp_twofactor.SetupEmailVerify", "routerMethod \"/2fa/\" + twofactorKind + \"/email/verify/end\" middleware(ab.Core.ErrorHandler.Wrap(e.End))")
]
def fn_defaults_HTTPBodyReader_Read : String := "func(page string, r *http.Request) (authboss.Validator, error) { var values map[string]string if h.ReadJSON { b, err := io.ReadAll(r.Body) r.Body.Close() if err != nil { return nil, errors.Wrap(err, \"failed to read http body\") } if err = json.Unmarshal(b, &values); err != nil { return nil, errors.Wrap(err, \"failed to parse json http body\") } } else { if err := r.ParseForm(); err != nil { return nil, errors.Wrapf(err, \"failed to parse form on page: %s\", page) } values = URLValuesToMap(r.Form) } rules := h.Rulesets[page] confirms := h.Confirms[page] whitelist := h.Whitelist[page] switch page { case \"confirm\": return ConfirmValues{ HTTPFormValidator: HTTPFormValidator{Values: values, Ruleset: rules}, Token: values[FormValueConfirm], }, nil case \"login\": var pid string if h.UseUsername { pid = values[FormValueUsername] } else { pid = values[FormValueEmail] } return UserValues{ HTTPFormValidator: HTTPFormValidator{Values: values, Ruleset: rules, ConfirmFields: confirms}, PID: pid, Password: values[FormValuePassword], }, nil case \"recover_start\": var pid string if h.UseUsername { pid = values[FormValueUsername] } else { pid = values[FormValueEmail] } return RecoverStartValues{ HTTPFormValidator: HTTPFormValidator{Values: values, Ruleset: rules, ConfirmFields: confirms}, PID: pid, }, nil case \"recover_middle\": return RecoverMiddleValues{ HTTPFormValidator: HTTPFormValidator{Values: values, Ruleset: rules, ConfirmFields: confirms}, Token: values[FormValueToken], }, nil case \"recover_end\": return RecoverEndValues{ HTTPFormValidator: HTTPFormValidator{Values: values, Ruleset: rules, ConfirmFields: confirms}, Token: values[FormValueToken], NewPassword: values[FormValuePassword], }, nil case \"twofactor_verify_end\": return ConfirmValues{ HTTPFormValidator: HTTPFormValidator{Values: values, Ruleset: rules, ConfirmFields: confirms}, Token: values[FormValueToken], }, nil case \"totp2fa_confirm\", \"totp2fa_remove\", \"totp2fa_validate\": return TwoFA{ HTTPFormValidator: HTTPFormValidator{Values: values, Ruleset: rules, ConfirmFields: confirms}, Code: values[FormValueCode], RecoveryCode: values[FormValueRecoveryCode], }, nil case \"sms2fa_setup\", \"sms2fa_remove\", \"sms2fa_confirm\", \"sms2fa_validate\": return SMSTwoFA{ HTTPFormValidator: HTTPFormValidator{Values: values, Ruleset: rules, ConfirmFields: confirms}, Code: values[FormValueCode], PhoneNumber: values[FormValuePhoneNumber], RecoveryCode: values[FormValueRecoveryCode], }, nil case \"register\": arbitrary := make(map[string]string) for k, v := range values { for _, w := range whitelist { if k == w { arbitrary[k] = v break } } } var pid string if h.UseUsername { pid = values[FormValueUsername] } else { pid = values[FormValueEmail] } return UserValues{ HTTPFormValidator: HTTPFormValidator{Values: values, Ruleset: rules, ConfirmFields: confirms}, PID: pid, Password: values[FormValuePassword], Arbitrary: arbitrary, }, nil default: return nil, errors.Errorf(\"failed to parse unknown page's form: %s\", page) } }"
def fn_defaults_NewHTTPBodyReader : String := "func(readJSON, useUsernameNotEmail bool) *HTTPBodyReader { var pid string var pidRules Rules if useUsernameNotEmail { pid = \"username\" pidRules = Rules{ FieldName: pid, Required: true, MatchError: \"Usernames must only start with letters, and contain letters and numbers\", MustMatch: regexp.MustCompile(`(?i)[a-z][a-z0-9]?`), } } else { pid = \"email\" pidRules = Rules{ FieldName: pid, Required: true, MatchError: \"Must be a valid e-mail address\", MustMatch: regexp.MustCompile(`.*@.*\\.[a-z]+`), } } passwordRule := Rules{ FieldName: \"password\", MinLength: 8, MinNumeric: 1, MinSymbols: 1, MinUpper: 1, MinLower: 1, } return &HTTPBodyReader{ UseUsername: useUsernameNotEmail, ReadJSON: readJSON, Rulesets: map[string][]Rules{ \"login\": {pidRules}, \"register\": {pidRules, passwordRule}, \"confirm\": {Rules{FieldName: FormValueConfirm, Required: true}}, \"recover_start\": {pidRules}, \"recover_end\": {passwordRule}, \"twofactor_verify_end\": {Rules{FieldName: FormValueToken, Required: true}}, }, Confirms: map[string][]string{ \"register\": {FormValuePassword, authboss.ConfirmPrefix + FormValuePassword}, \"recover_end\": {FormValuePassword, authboss.ConfirmPrefix + FormValuePassword}, }, Whitelist: map[string][]string{ \"register\": {FormValueEmail}, }, } }"
def fn_defaults_HTTPFormValidator_Validate : String := "func() []error { var errList authboss.ErrorList for _, rule := range h.Ruleset { field := rule.FieldName val := h.Values[field] if errs := rule.Errors(val); len(errs) > 0 { errList = append(errList, errs...) } } if l := len(h.ConfirmFields); l != 0 && l%2 != 0 { panic(\"HTTPFormValidator given an odd number of confirm fields\") } for i := 0; i < len(h.ConfirmFields)-1; i += 2 { main := h.Values[h.ConfirmFields[i]] if len(main) == 0 { continue } confirm := h.Values[h.ConfirmFields[i+1]] if len(confirm) == 0 || main != confirm { errList = append(errList, FieldError{h.ConfirmFields[i+1], fmt.Errorf(\"Does not match %s\", h.ConfirmFields[i])}) } } return errList }"
def fn_defaults_URLValuesToMap : String := "func(form url.Values) map[string]string { values := make(map[string]string) for k, v := range form { if len(v) != 0 { values[k] = v[0] } } return values }"
def fn_defaults_UserValues_GetShouldRemember : String := "func() bool { rm, ok := u.Values[authboss.CookieRemember] return ok && rm == \"true\" }"
def fn_defaults_Rules_Errors : String := "func(toValidate string) authboss.ErrorList { errs := make(authboss.ErrorList, 0) ln := len(toValidate) if r.Required && (ln == 0 || blankRegex.MatchString(toValidate)) { return append(errs, FieldError{r.FieldName, errors.New(\"Cannot be blank\")}) } if r.MustMatch != nil { if !r.MustMatch.MatchString(toValidate) { errs = append(errs, FieldError{r.FieldName, errors.New(r.MatchError)}) } } if (r.MinLength > 0 && ln < r.MinLength) || (r.MaxLength > 0 && ln > r.MaxLength) { errs = append(errs, FieldError{r.FieldName, errors.New(r.lengthErr())}) } upper, lower, numeric, symbols, whitespace := tallyCharacters(toValidate) if upper+lower < r.MinLetters { errs = append(errs, FieldError{r.FieldName, errors.New(r.charErr())}) } if upper < r.MinUpper { errs = append(errs, FieldError{r.FieldName, errors.New(r.upperErr())}) } if lower < r.MinLower { errs = append(errs, FieldError{r.FieldName, errors.New(r.lowerErr())}) } if numeric < r.MinNumeric { errs = append(errs, FieldError{r.FieldName, errors.New(r.numericErr())}) } if symbols < r.MinSymbols { errs = append(errs, FieldError{r.FieldName, errors.New(r.symbolErr())}) } if !r.AllowWhitespace && whitespace > 0 { errs = append(errs, FieldError{r.FieldName, errors.New(\"No whitespace permitted\")}) } if len(errs) == 0 { return nil } return errs }"
def fn_defaults_Rules_IsValid : String := "func(toValidate string) bool { return nil == r.Errors(toValidate) }"
def fn_defaults_tallyCharacters : String := "func(s string) (upper, lower, numeric, symbols, whitespace int) { for _, c := range s { switch { case unicode.IsLetter(c): if unicode.IsUpper(c) { upper++ } else { lower++ } case unicode.IsDigit(c): numeric++ case unicode.IsSpace(c): whitespace++ default: symbols++ } } return upper, lower, numeric, symbols, whitespace }"
def consts_defaults : List (String × String) := [
  ("defaults.FormValueEmail", "\"email\""),
  ("defaults.FormValuePassword", "\"password\""),
  ("defaults.FormValueUsername", "\"username\""),
  ("defaults.FormValueConfirm", "\"cnf\""),
  ("defaults.FormValueToken", "\"token\""),
  ("defaults.FormValueCode", "\"code\""),
  ("defaults.FormValueRecoveryCode", "\"recovery_code\""),
  ("defaults.FormValuePhoneNumber", "\"phone_number\"")
]
def pkgVars_defaults : List (String × String) := [
  ("defaults.jsonDefaultFailures", "[]string{authboss.DataErr, authboss.DataValidation}"),
  ("defaults.blankRegex", "regexp.MustCompile(`^\\s*$`)"),
  ("defaults.randMu", ":sync.Mutex"),
  ("defaults.emailTmpl", "template.Must(template.New(\"email\").Funcs(template.FuncMap{ \"join\": strings.Join, \"namedAddress\": namedAddress, \"namedAddresses\": namedAddresses, }).Parse(`To: {{namedAddresses .Mail.ToNames .Mail.To}}{{if .Mail.Cc}} Cc: {{namedAddresses .Mail.CcNames .Mail.Cc}}{{end}}{{if .Mail.Bcc}} Bcc: {{namedAddresses .Mail.BccNames .Mail.Bcc}}{{end}} From: {{namedAddress .Mail.FromName .Mail.From}} Subject: {{.Mail.Subject}}{{if .Mail.ReplyTo}} Reply-To: {{namedAddress .Mail.ReplyToName .Mail.ReplyTo}}{{end}} MIME-Version: 1.0 Content-Type: multipart/alternative; boundary=\"==============={{.Boundary}}==\" Content-Transfer-Encoding: 7bit {{if .Mail.TextBody -}} --==============={{.Boundary}}== Content-Type: text/plain; charset=UTF-8 Content-Transfer-Encoding: 7bit {{.Mail.TextBody}} {{end -}} {{if .Mail.HTMLBody -}} --==============={{.Boundary}}== Content-Type: text/html; charset=UTF-8 Content-Transfer-Encoding: 7bit {{.Mail.HTMLBody}} {{end -}} --==============={{.Boundary}}==-- `))")
]
def fn_auth_Auth_LoginGet : String := "func(w http.ResponseWriter, r *http.Request) error { data := authboss.HTMLData{} if redir := r.URL.Query().Get(authboss.FormValueRedirect); len(redir) != 0 { data[authboss.FormValueRedirect] = redir } return a.Core.Responder.Respond(w, r, http.StatusOK, PageLogin, data) }"
def fn_auth_init : String := "func() { authboss.RegisterModule(\"auth\", &Auth{}) }"
def fn_authboss_Authboss_CurrentUserIDP : String := "func(r *http.Request) string { i, err := a.CurrentUserID(r) if err != nil { panic(err) } else if len(i) == 0 { panic(ErrUserNotFound) } return i }"
def fn_authboss_Authboss_IsLoaded : String := "func(mod string) bool { _, ok := a.loadedModules[mod] return ok }"
def fn_authboss_Authboss_LoadClientStateMiddleware : String := "func(h http.Handler) http.Handler { return http.HandlerFunc(func(w http.ResponseWriter, r *http.Request) { writer := a.NewResponse(w) request, err := a.LoadClientState(writer, r) if err != nil { w.WriteHeader(http.StatusInternalServerError) return } h.ServeHTTP(writer, request) }) }"
def fn_authboss_Authboss_LoadCurrentUserIDP : String := "func(r **http.Request) string { pid, err := a.LoadCurrentUserID(r) if err != nil { panic(err) } else if len(pid) == 0 { panic(ErrUserNotFound) } return pid }"
def fn_authboss_Authboss_LoadedModules : String := "func() []string { mods := make([]string, len(a.loadedModules)) i := 0 for k := range a.loadedModules { mods[i] = k i++ } return mods }"
def fn_authboss_Authboss_Localizef : String := "func(ctx context.Context, key LocalizationKey, args ...any) string { if a.Config.Core.Localizer == nil { return fmt.Sprintf(key.Default, args...) } if translated := a.Config.Core.Localizer.Localizef(ctx, key, args...); translated != \"\" { return translated } return fmt.Sprintf(key.Default, args...) }"
def fn_authboss_Authboss_Logger : String := "func(ctx context.Context) FmtLogger { logger := a.Config.Core.Logger if ctx == nil { return FmtLogger{logger} } ctxLogger, ok := logger.(ContextLogger) if !ok { return FmtLogger{logger} } return FmtLogger{ctxLogger.FromContext(ctx)} }"
def fn_authboss_Authboss_RequestLogger : String := "func(r *http.Request) FmtLogger { logger := a.Config.Core.Logger if reqLogger, ok := logger.(RequestLogger); ok { return FmtLogger{reqLogger.FromRequest(r)} } return FmtLogger{a.Logger(r.Context())} }"
def fn_authboss_CanBeRecoverableUserWithSecondaryEmails : String := "func(u User) (RecoverableUserWithSecondaryEmails, bool) { if lu, ok := u.(RecoverableUserWithSecondaryEmails); ok { return lu, true } return nil, false }"
def fn_authboss_ClientStateResponseWriter_Header : String := "func() http.Header { return c.ResponseWriter.Header() }"
def fn_authboss_ClientStateResponseWriter_Hijack : String := "func() (net.Conn, *bufio.ReadWriter, error) { h, ok := c.ResponseWriter.(http.Hijacker) if ok { return h.Hijack() } return nil, nil, errors.New(\"authboss: underlying ResponseWriter does not support hijacking\") }"
def fn_authboss_Config_Defaults : String := "func() { c.Paths.Mount = \"/auth\" c.Paths.NotAuthorized = \"/\" c.Paths.AuthLoginOK = \"/\" c.Paths.ConfirmOK = \"/\" c.Paths.ConfirmNotOK = \"/\" c.Paths.LockNotOK = \"/\" c.Paths.LogoutOK = \"/\" c.Paths.OAuth2LoginOK = \"/\" c.Paths.OAuth2LoginNotOK = \"/\" c.Paths.RecoverOK = \"/\" c.Paths.RegisterOK = \"/\" c.Paths.RootURL = \"http://localhost:8080\" c.Paths.TwoFactorEmailAuthNotOK = \"/\" c.Modules.BCryptCost = bcrypt.DefaultCost c.Modules.ConfirmMethod = http.MethodGet c.Modules.ExpireAfter = time.Hour c.Modules.LockAfter = 3 c.Modules.LockWindow = 5 * time.Minute c.Modules.LockDuration = 12 * time.Hour c.Modules.LogoutMethod = \"DELETE\" c.Modules.MailRouteMethod = http.MethodGet c.Modules.RecoverLoginAfterRecovery = false c.Modules.RecoverTokenDuration = 24 * time.Hour c.Core.OneTimeTokenGenerator = NewSha512TokenGenerator() }"
def fn_authboss_EnsureCanConfirm : String := "func(storer ServerStorer) ConfirmingServerStorer { s, ok := storer.(ConfirmingServerStorer) if !ok { panic(\"could not upgrade ServerStorer to ConfirmingServerStorer, check your struct\") } return s }"
def fn_authboss_EnsureCanCreate : String := "func(storer ServerStorer) CreatingServerStorer { s, ok := storer.(CreatingServerStorer) if !ok { panic(\"could not upgrade ServerStorer to CreatingServerStorer, check your struct\") } return s }"
def fn_authboss_EnsureCanOAuth2 : String := "func(storer ServerStorer) OAuth2ServerStorer { s, ok := storer.(OAuth2ServerStorer) if !ok { panic(\"could not upgrade ServerStorer to OAuth2ServerStorer, check your struct\") } return s }"
def fn_authboss_EnsureCanRecover : String := "func(storer ServerStorer) RecoveringServerStorer { s, ok := storer.(RecoveringServerStorer) if !ok { panic(\"could not upgrade ServerStorer to RecoveringServerStorer, check your struct\") } return s }"
def fn_authboss_EnsureCanRemember : String := "func(storer ServerStorer) RememberingServerStorer { s, ok := storer.(RememberingServerStorer) if !ok { panic(\"could not upgrade ServerStorer to RememberingServerStorer, check your struct\") } return s }"
def fn_authboss_ErrorList_Error : String := "func() string { b := &bytes.Buffer{} first := true for _, err := range e { if first { first = false } else { b.WriteString(\", \") } b.WriteString(err.Error()) } return b.String() }"
def fn_authboss_ErrorList_Map : String := "func() map[string][]string { m := make(map[string][]string) for _, err := range e { fieldErr, ok := err.(FieldError) if !ok { m[\"\"] = append(m[\"\"], err.Error()) } else { name, err := fieldErr.Name(), fieldErr.Err() m[name] = append(m[name], err.Error()) } } return m }"
def fn_authboss_ErrorMap : String := "func(e []error) map[string][]string { return ErrorList(e).Map() }"
def fn_authboss_Event_String : String := "func() string { if i < 0 || i >= Event(len(_Event_index)-1) { return \"Event(\" + strconv.FormatInt(int64(i), 10) + \")\" } return _Event_name[_Event_index[i]:_Event_index[i+1]] }"
def fn_authboss_FlashError : String := "func(w http.ResponseWriter, r *http.Request) string { str, ok := GetSession(r, FlashErrorKey) if !ok { return \"\" } DelSession(w, FlashErrorKey) return str }"
def fn_authboss_FlashSuccess : String := "func(w http.ResponseWriter, r *http.Request) string { str, ok := GetSession(r, FlashSuccessKey) if !ok { return \"\" } DelSession(w, FlashSuccessKey) return str }"
def fn_authboss_FmtLogger_Errorf : String := "func(format string, values ...interface{}) { }"
def fn_authboss_FmtLogger_Infof : String := "func(format string, values ...interface{}) { }"
def fn_authboss_HTMLData_Merge : String := "func(other HTMLData) HTMLData { for k, v := range other { h[k] = v } return h }"
def fn_authboss_HTMLData_MergeKV : String := "func(data ...interface{}) HTMLData { if len(data)%2 != 0 { panic(\"It should be a key value list of arguments.\") } for i := 0; i < len(data)-1; i += 2 { k, ok := data[i].(string) if !ok { panic(\"Keys must be strings.\") } h[k] = data[i+1] } return h }"
def fn_authboss_MergeDataInRequest : String := "func(r **http.Request, other HTMLData) { ctx := (*r).Context() currentIntf := ctx.Value(CTXKeyData) if currentIntf == nil { *r = (*r).WithContext(context.WithValue(ctx, CTXKeyData, other)) return } current := currentIntf.(HTMLData) merged := current.Merge(other) *r = (*r).WithContext(context.WithValue(ctx, CTXKeyData, merged)) }"
def fn_authboss_ModuleListMiddleware : String := "func(ab *Authboss) func(http.Handler) http.Handler { return func(next http.Handler) http.Handler { return http.HandlerFunc(func(w http.ResponseWriter, r *http.Request) { var data HTMLData ctx := r.Context() dataIntf := ctx.Value(CTXKeyData) if dataIntf != nil { data = dataIntf.(HTMLData) } else { data = HTMLData{} } loaded := make(map[string]bool, len(ab.loadedModules)) for k := range ab.loadedModules { loaded[k] = true } for provider := range ab.Config.Modules.OAuth2Providers { loaded[\"oauth2.\"+provider] = true } data[DataModules] = loaded r = r.WithContext(context.WithValue(ctx, CTXKeyData, data)) next.ServeHTTP(w, r) }) } }"
def fn_authboss_MustBeAuthable : String := "func(u User) AuthableUser { if au, ok := u.(AuthableUser); ok { return au } panic(fmt.Sprintf(\"could not upgrade user to an authable user, type: %T\", u)) }"
def fn_authboss_MustBeConfirmable : String := "func(u User) ConfirmableUser { if cu, ok := u.(ConfirmableUser); ok { return cu } panic(fmt.Sprintf(\"could not upgrade user to a confirmable user, type: %T\", u)) }"
def fn_authboss_MustBeLockable : String := "func(u User) LockableUser { if lu, ok := u.(LockableUser); ok { return lu } panic(fmt.Sprintf(\"could not upgrade user to a lockable user, given type: %T\", u)) }"
def fn_authboss_MustBeOAuthable : String := "func(u User) OAuth2User { if ou, ok := u.(OAuth2User); ok { return ou } panic(fmt.Sprintf(\"could not upgrade user to an oauthable user, given type: %T\", u)) }"
def fn_authboss_MustBeRecoverable : String := "func(u User) RecoverableUser { if lu, ok := u.(RecoverableUser); ok { return lu } panic(fmt.Sprintf(\"could not upgrade user to a recoverable user, given type: %T\", u)) }"
def fn_authboss_MustHaveConfirmValues : String := "func(v Validator) ConfirmValuer { if u, ok := v.(ConfirmValuer); ok { return u } panic(fmt.Sprintf(\"bodyreader returned a type that could not be upgraded to ConfirmValuer: %T\", v)) }"
def fn_authboss_MustHaveRecoverEndValues : String := "func(v Validator) RecoverEndValuer { if u, ok := v.(RecoverEndValuer); ok { return u } panic(fmt.Sprintf(\"bodyreader returned a type that could not be upgraded to RecoverEndValuer: %T\", v)) }"
def fn_authboss_MustHaveRecoverMiddleValues : String := "func(v Validator) RecoverMiddleValuer { if u, ok := v.(RecoverMiddleValuer); ok { return u } panic(fmt.Sprintf(\"bodyreader returned a type that could not be upgraded to RecoverMiddleValuer: %T\", v)) }"
def fn_authboss_MustHaveRecoverStartValues : String := "func(v Validator) RecoverStartValuer { if u, ok := v.(RecoverStartValuer); ok { return u } panic(fmt.Sprintf(\"bodyreader returned a type that could not be upgraded to RecoverStartValuer: %T\", v)) }"
def fn_authboss_MustHaveUserValues : String := "func(v Validator) UserValuer { if u, ok := v.(UserValuer); ok { return u } panic(fmt.Sprintf(\"bodyreader returned a type that could not be upgraded to UserValuer: %T\", v)) }"
def fn_authboss_NewBCryptHasher : String := "func(cost int) *bcryptHasher { return &bcryptHasher{cost: cost} }"
def fn_authboss_NewHTMLData : String := "func(data ...interface{}) HTMLData { if len(data)%2 != 0 { panic(\"it should be a key value list of arguments.\") } h := make(HTMLData) for i := 0; i < len(data)-1; i += 2 { k, ok := data[i].(string) if !ok { panic(\"Keys must be strings.\") } h[k] = data[i+1] } return h }"
def fn_authboss_NewSha512TokenGenerator : String := "func() *Sha512TokenGenerator { return &Sha512TokenGenerator{} }"
def fn_authboss_ParseOAuth2PIDP : String := "func(pid string) (provider, uid string) { var err error provider, uid, err = ParseOAuth2PID(pid) if err != nil { panic(err) } return provider, uid }"
def fn_authboss_RegisteredModules : String := "func() []string { mods := make([]string, len(registeredModules)) i := 0 for k := range registeredModules { mods[i] = k i++ } return mods }"
def fn_authboss_VerifyPassword : String := "func(user AuthableUser, password string) error { return bcrypt.CompareHashAndPassword([]byte(user.GetPassword()), []byte(password)) }"
def fn_authboss__ : String := "func() { // An \"invalid array index\" compiler error signifies that the constant values have changed. // Re-run the stringer command to generate them again. var x [1]struct{} _ = x[EventRegister-0] _ = x[EventAuth-1] _ = x[EventAuthHijack-2] _ = x[EventOAuth2-3] _ = x[EventAuthFail-4] _ = x[EventOAuth2Fail-5] _ = x[EventRecoverStart-6] _ = x[EventRecoverEnd-7] _ = x[EventGetUser-8] _ = x[EventGetUserSession-9] _ = x[EventPasswordReset-10] _ = x[EventLogout-11] _ = x[EventTwoFactorAdded-12] _ = x[EventTwoFactorRemoved-13] }"
def fn_authboss_contextKey_String : String := "func() string { return \"authboss ctx key \" + string(c) }"
def fn_confirm_Confirm_mailURL : String := "func(token string) string { query := url.Values{FormValueConfirm: []string{token}} if len(c.Config.Mail.RootURL) != 0 { return fmt.Sprintf(\"%s?%s\", c.Config.Mail.RootURL+\"/confirm\", query.Encode()) } p := path.Join(c.Config.Paths.Mount, \"confirm\") return fmt.Sprintf(\"%s%s?%s\", c.Config.Paths.RootURL, p, query.Encode()) }"
def fn_confirm_GenerateConfirmCreds : String := "func() (selector, verifier, token string, err error) { confirmTokenSize := 64 confirmTokenSplit := confirmTokenSize / 2 rawToken := make([]byte, confirmTokenSize) if _, err = io.ReadFull(rand.Reader, rawToken); err != nil { return \"\", \"\", \"\", err } selectorBytes := sha512.Sum512(rawToken[:confirmTokenSplit]) verifierBytes := sha512.Sum512(rawToken[confirmTokenSplit:]) return base64.StdEncoding.EncodeToString(selectorBytes[:]), base64.StdEncoding.EncodeToString(verifierBytes[:]), base64.URLEncoding.EncodeToString(rawToken), nil }"
def fn_confirm_init : String := "func() { authboss.RegisterModule(\"confirm\", &Confirm{}) }"
def fn_defaults_ConfirmValues_GetToken : String := "func() string { return c.Token }"
def fn_defaults_FieldError_Err : String := "func() error { return f.FieldErr }"
def fn_defaults_FieldError_Error : String := "func() string { return fmt.Sprintf(\"%s: %v\", f.FieldName, f.FieldErr) }"
def fn_defaults_FieldError_Name : String := "func() string { return f.FieldName }"
def fn_defaults_JSONRenderer_Load : String := "func(names ...string) error { return nil }"
def fn_defaults_NewErrorHandler : String := "func(logger authboss.Logger) ErrorHandler { return ErrorHandler{LogWriter: logger} }"
def fn_defaults_NewFieldError : String := "func(name string, err error) FieldError { return FieldError{FieldName: name, FieldErr: err} }"
def fn_defaults_NewLogMailer : String := "func(writer io.Writer) *LogMailer { return &LogMailer{writer} }"
def fn_defaults_NewLogger : String := "func(writer io.Writer) Logger { return Logger{Writer: writer} }"
def fn_defaults_NewRedirector : String := "func(renderer authboss.Renderer, formValueName string) *Redirector { return &Redirector{FormValueName: formValueName, Renderer: renderer} }"
def fn_defaults_NewResponder : String := "func(renderer authboss.Renderer) *Responder { return &Responder{Renderer: renderer} }"
def fn_defaults_NewRouter : String := "func() *Router { r := &Router{ gets: http.NewServeMux(), posts: http.NewServeMux(), deletes: http.NewServeMux(), } r.gets.Handle(\"/\", http.NotFoundHandler()) r.posts.Handle(\"/\", http.NotFoundHandler()) r.deletes.Handle(\"/\", http.NotFoundHandler()) return r }"
def fn_defaults_RecoverEndValues_GetPassword : String := "func() string { return r.NewPassword }"
def fn_defaults_RecoverEndValues_GetToken : String := "func() string { return r.Token }"
def fn_defaults_RecoverMiddleValues_GetToken : String := "func() string { return r.Token }"
def fn_defaults_RecoverStartValues_GetPID : String := "func() string { return r.PID }"
def fn_defaults_Router_Delete : String := "func(path string, handler http.Handler) { r.deletes.Handle(path, handler) }"
def fn_defaults_Router_Get : String := "func(path string, handler http.Handler) { r.gets.Handle(path, handler) }"
def fn_defaults_Router_Post : String := "func(path string, handler http.Handler) { r.posts.Handle(path, handler) }"
def fn_defaults_Rules_Rules : String := "func() []string { var rules []string if r.MustMatch != nil { rules = append(rules, r.MatchError) } if e := r.lengthErr(); len(e) > 0 { rules = append(rules, e) } if e := r.charErr(); len(e) > 0 { rules = append(rules, e) } if e := r.upperErr(); len(e) > 0 { rules = append(rules, e) } if e := r.lowerErr(); len(e) > 0 { rules = append(rules, e) } if e := r.numericErr(); len(e) > 0 { rules = append(rules, e) } if e := r.symbolErr(); len(e) > 0 { rules = append(rules, e) } return rules }"
def fn_defaults_Rules_charErr : String := "func() (err string) { if r.MinLetters > 0 { err = fmt.Sprintf(\"Must contain at least %d letter\", r.MinLetters) if r.MinLetters > 1 { err += \"s\" } } return err }"
def fn_defaults_Rules_lengthErr : String := "func() (err string) { switch { case r.MinLength > 0 && r.MaxLength > 0: err = fmt.Sprintf(\"Must be between %d and %d characters\", r.MinLength, r.MaxLength) case r.MinLength > 0: err = fmt.Sprintf(\"Must be at least %d character\", r.MinLength) if r.MinLength > 1 { err += \"s\" } case r.MaxLength > 0: err = fmt.Sprintf(\"Must be at most %d character\", r.MaxLength) if r.MaxLength > 1 { err += \"s\" } } return err }"
def fn_defaults_Rules_lowerErr : String := "func() (err string) { if r.MinLower > 0 { err = fmt.Sprintf(\"Must contain at least %d lowercase letter\", r.MinLower) if r.MinLower > 1 { err += \"s\" } } return err }"
def fn_defaults_Rules_numericErr : String := "func() (err string) { if r.MinNumeric > 0 { err = fmt.Sprintf(\"Must contain at least %d number\", r.MinNumeric) if r.MinNumeric > 1 { err += \"s\" } } return err }"
def fn_defaults_Rules_symbolErr : String := "func() (err string) { if r.MinSymbols > 0 { err = fmt.Sprintf(\"Must contain at least %d symbol\", r.MinSymbols) if r.MinSymbols > 1 { err += \"s\" } } return err }"
def fn_defaults_Rules_upperErr : String := "func() (err string) { if r.MinUpper > 0 { err = fmt.Sprintf(\"Must contain at least %d uppercase letter\", r.MinUpper) if r.MinUpper > 1 { err += \"s\" } } return err }"
def fn_defaults_SMSTwoFA_GetCode : String := "func() string { return s.Code }"
def fn_defaults_SMSTwoFA_GetPhoneNumber : String := "func() string { return s.PhoneNumber }"
def fn_defaults_SMSTwoFA_GetRecoveryCode : String := "func() string { return s.RecoveryCode }"
def fn_defaults_TwoFA_GetCode : String := "func() string { return t.Code }"
def fn_defaults_TwoFA_GetRecoveryCode : String := "func() string { return t.RecoveryCode }"
def fn_defaults_UserValues_GetPID : String := "func() string { return u.PID }"
def fn_defaults_UserValues_GetPassword : String := "func() string { return u.Password }"
def fn_defaults_UserValues_GetValues : String := "func() map[string]string { return u.Arbitrary }"
def fn_defaults_isSameSiteRedirect : String := "func(redir string) bool { if len(redir) == 0 || redir[0] != '/' { return false } if len(redir) > 1 && (redir[1] == '/' || redir[1] == '\\\\') { return false } for i := 0; i < len(redir); i++ { if c := redir[i]; c <= 0x20 || c == 0x7f || c == '\\\\' { return false } } return !strings.Contains(redir, \"://\") }"
def fn_defaults_namedAddress : String := "func(name, address string) string { if len(name) == 0 { return address } return fmt.Sprintf(\"%s <%s>\", name, address) }"
def fn_defaults_namedAddresses : String := "func(names, addresses []string) string { if len(names) == 0 { return strings.Join(addresses, \", \") } buf := &bytes.Buffer{} first := true for i, address := range addresses { if first { first = false } else { buf.WriteString(\", \") } buf.WriteString(namedAddress(names[i], address)) } return buf.String() }"
def fn_expire_RefreshExpiry : String := "func(w http.ResponseWriter, r *http.Request) { refreshExpiry(w) }"
def fn_expire_TimeToExpiry : String := "func(r *http.Request, expireAfter time.Duration) time.Duration { return timeToExpiry(r, expireAfter) }"
def fn_lock_init : String := "func() { authboss.RegisterModule(\"lock\", &Lock{}) }"
def fn_logout_init : String := "func() { authboss.RegisterModule(\"logout\", &Logout{}) }"
def fn_oauth2_FacebookUserDetails : String := "func(ctx context.Context, cfg oauth2.Config, token *oauth2.Token) (map[string]string, error) { client := cfg.Client(ctx, token) resp, err := clientGet(client, facebookInfoEndpoint) if err != nil { return nil, err } defer resp.Body.Close() byt, err := io.ReadAll(resp.Body) if err != nil { return nil, errors.Wrap(err, \"failed to read body from facebook oauth2 endpoint\") } var response facebookMeResponse if err = json.Unmarshal(byt, &response); err != nil { return nil, errors.Wrap(err, \"failed to parse json from facebook oauth2 endpoint\") } return map[string]string{ OAuth2UID: response.ID, OAuth2Email: response.Email, OAuth2Name: response.Name, }, nil }"
def fn_oauth2_GoogleUserDetails : String := "func(ctx context.Context, cfg oauth2.Config, token *oauth2.Token) (map[string]string, error) { client := cfg.Client(ctx, token) resp, err := clientGet(client, googleInfoEndpoint) if err != nil { return nil, err } defer resp.Body.Close() byt, err := io.ReadAll(resp.Body) if err != nil { return nil, errors.Wrap(err, \"failed to read body from google oauth2 endpoint\") } var response googleMeResponse if err = json.Unmarshal(byt, &response); err != nil { return nil, err } return map[string]string{ OAuth2UID: response.ID, OAuth2Email: response.Email, }, nil }"
def fn_oauth2_init : String := "func() { authboss.RegisterModule(\"oauth2\", &OAuth2{}) }"
def fn_oauth2_isSameSiteRedirect : String := "func(redir string) bool { if len(redir) == 0 || redir[0] != '/' { return false } if len(redir) > 1 && (redir[1] == '/' || redir[1] == '\\\\') { return false } for i := 0; i < len(redir); i++ { if c := redir[i]; c <= 0x20 || c == 0x7f || c == '\\\\' { return false } } return !strings.Contains(redir, \"://\") }"
def fn_otp_MustBeOTPable : String := "func(user authboss.User) User { u, ok := user.(User) if !ok { panic(fmt.Sprintf(\"could not upgrade user to an otpable user, type: %T\", u)) } return u }"
def fn_otp_OTP_AddGet : String := "func(w http.ResponseWriter, r *http.Request) error { return o.showOTPCount(w, r, PageAdd) }"
def fn_otp_OTP_ClearGet : String := "func(w http.ResponseWriter, r *http.Request) error { return o.showOTPCount(w, r, PageClear) }"
def fn_otp_OTP_LoginGet : String := "func(w http.ResponseWriter, r *http.Request) error { var data authboss.HTMLData if redir := r.URL.Query().Get(authboss.FormValueRedirect); len(redir) != 0 { data = authboss.HTMLData{authboss.FormValueRedirect: redir} } return o.Core.Responder.Respond(w, r, http.StatusOK, PageLogin, data) }"
def fn_otp_OTP_showOTPCount : String := "func(w http.ResponseWriter, r *http.Request, page string) error { user, err := o.Authboss.CurrentUser(r) if err != nil { return err } otpUser := MustBeOTPable(user) ln := strconv.Itoa(len(splitOTPs(otpUser.GetOTPs()))) return o.Core.Responder.Respond(w, r, http.StatusOK, page, authboss.HTMLData{DataNumberOTPs: ln}) }"
def fn_otp_init : String := "func() { authboss.RegisterModule(\"otp\", &OTP{}) }"
def fn_otp_twofactor_EmailVerify_GetStart : String := "func(w http.ResponseWriter, r *http.Request) error { cu, err := e.Authboss.CurrentUser(r) if err != nil { return err } user := cu.(User) data := authboss.HTMLData{ DataVerifyEmail: user.GetEmail(), DataVerifyURL: path.Join(e.Authboss.Paths.Mount, \"2fa\", e.TwofactorKind, \"email/verify\"), } return e.Authboss.Core.Responder.Respond(w, r, http.StatusOK, PageVerify2FA, data) }"
def fn_otp_twofactor_EmailVerify_mailURL : String := "func(token string) string { query := url.Values{FormValueToken: []string{token}} if len(e.Config.Mail.RootURL) != 0 { return fmt.Sprintf(\"%s?%s\", e.Config.Mail.RootURL+\"/2fa/\"+e.TwofactorKind+\"/email/verify/end\", query.Encode()) } p := path.Join(e.Config.Paths.Mount, \"/2fa/\"+e.TwofactorKind+\"/email/verify/end\") return fmt.Sprintf(\"%s%s?%s\", e.Config.Paths.RootURL, p, query.Encode()) }"
def fn_otp_twofactor_MustHaveEmailVerifyTokenValues : String := "func(v authboss.Validator) EmailVerifyTokenValuer { if u, ok := v.(EmailVerifyTokenValuer); ok { return u } panic(fmt.Sprintf(\"bodyreader returned a type that could not be upgraded to an EmailVerifyTokenValues: %T\", v)) }"
def fn_otp_twofactor_Recovery_GetRegen : String := "func(w http.ResponseWriter, r *http.Request) error { abUser, err := rc.CurrentUser(r) if err != nil { return err } user := abUser.(User) var nCodes int codes := user.GetRecoveryCodes() if len(codes) != 0 { nCodes++ } for _, c := range codes { if c == ',' { nCodes++ } } data := authboss.HTMLData{DataNumRecoveryCodes: nCodes} return rc.Authboss.Core.Responder.Respond(w, r, http.StatusOK, PageRecovery2FA, data) }"
def fn_otp_twofactor_sms2fa_MustHaveSMSPhoneNumberValue : String := "func(v authboss.Validator) SMSPhoneNumberValuer { if u, ok := v.(SMSPhoneNumberValuer); ok { return u } panic(fmt.Sprintf(\"bodyreader returned a type that could not be upgraded to SMSValuer: %T\", v)) }"
def fn_otp_twofactor_sms2fa_MustHaveSMSValues : String := "func(v authboss.Validator) SMSValuer { if u, ok := v.(SMSValuer); ok { return u } panic(fmt.Sprintf(\"bodyreader returned a type that could not be upgraded to SMSValuer: %T\", v)) }"
def fn_otp_twofactor_sms2fa_SMSValidator_Get : String := "func(w http.ResponseWriter, r *http.Request) error { return s.Core.Responder.Respond(w, r, http.StatusOK, s.Page, nil) }"
def fn_otp_twofactor_totp2fa_MustHaveTOTPCodeValues : String := "func(v authboss.Validator) TOTPCodeValuer { if u, ok := v.(TOTPCodeValuer); ok { return u } panic(fmt.Sprintf(\"bodyreader returned a type that could not be upgraded to TOTPCodeValuer: %T\", v)) }"
def fn_otp_twofactor_totp2fa_TOTP_GetConfirm : String := "func(w http.ResponseWriter, r *http.Request) error { totpSecret, ok := authboss.GetSession(r, SessionTOTPSecret) if !ok { return errors.New(\"request failed, no totp secret present in session\") } data := authboss.HTMLData{DataTOTPSecret: totpSecret} return t.Core.Responder.Respond(w, r, http.StatusOK, PageTOTPConfirm, data) }"
def fn_otp_twofactor_totp2fa_TOTP_GetQRCode : String := "func(w http.ResponseWriter, r *http.Request) error { abUser, err := t.CurrentUser(r) if err != nil { return err } user := abUser.(User) totpSecret, ok := authboss.GetSession(r, SessionTOTPSecret) var key *otp.Key if !ok || len(totpSecret) == 0 { totpSecret = user.GetTOTPSecretKey() } if len(totpSecret) == 0 { return errors.New(\"no totp secret found\") } key, err = otp.NewKeyFromURL( fmt.Sprintf(otpKeyFormat, url.PathEscape(t.Authboss.Config.Modules.TOTP2FAIssuer), url.PathEscape(user.GetEmail()), url.QueryEscape(t.Authboss.Config.Modules.TOTP2FAIssuer), url.QueryEscape(totpSecret), )) if err != nil { return errors.Wrap(err, \"failed to reconstruct key from session key: %s\") } image, err := key.Image(200, 200) if err != nil { return errors.Wrap(err, \"failed to create totp qr code\") } buf := &bytes.Buffer{} if err = png.Encode(buf, image); err != nil { return errors.Wrap(err, \"failed to encode qr code to png\") } w.Header().Set(\"Cache-Control\", \"no-store\") w.Header().Set(\"Content-Type\", \"image/png\") w.WriteHeader(http.StatusOK) _, err = io.Copy(w, buf) return err }"
def fn_otp_twofactor_totp2fa_TOTP_GetRemove : String := "func(w http.ResponseWriter, r *http.Request) error { return t.Authboss.Core.Responder.Respond(w, r, http.StatusOK, PageTOTPRemove, nil) }"
def fn_otp_twofactor_totp2fa_TOTP_GetValidate : String := "func(w http.ResponseWriter, r *http.Request) error { return t.Authboss.Core.Responder.Respond(w, r, http.StatusOK, PageTOTPValidate, nil) }"
def fn_recover_GenerateRecoverCreds : String := "func() (selector, verifier, token string, err error) { recoverTokenSize := 64 recoverTokenSplit := recoverTokenSize / 2 rawToken := make([]byte, recoverTokenSize) if _, err = io.ReadFull(rand.Reader, rawToken); err != nil { return \"\", \"\", \"\", err } selectorBytes := sha512.Sum512(rawToken[:recoverTokenSplit]) verifierBytes := sha512.Sum512(rawToken[recoverTokenSplit:]) return base64.StdEncoding.EncodeToString(selectorBytes[:]), base64.StdEncoding.EncodeToString(verifierBytes[:]), base64.URLEncoding.EncodeToString(rawToken), nil }"
def fn_recover_Recover_EndGet : String := "func(w http.ResponseWriter, req *http.Request) error { validatable, err := r.Core.BodyReader.Read(PageRecoverMiddle, req) if err != nil { return err } values := authboss.MustHaveRecoverMiddleValues(validatable) token := values.GetToken() data := authboss.HTMLData{ DataRecoverToken: token, } return r.Config.Core.Responder.Respond(w, req, http.StatusOK, PageRecoverEnd, data) }"
def fn_recover_Recover_StartGet : String := "func(w http.ResponseWriter, req *http.Request) error { return r.Config.Core.Responder.Respond(w, req, http.StatusOK, PageRecoverStart, nil) }"
def fn_recover_Recover_mailURL : String := "func(token string) string { query := url.Values{FormValueToken: []string{token}} if len(r.Config.Mail.RootURL) != 0 { return fmt.Sprintf(\"%s?%s\", r.Config.Mail.RootURL+\"/recover/end\", query.Encode()) } p := path.Join(r.Config.Paths.Mount, \"recover/end\") return fmt.Sprintf(\"%s%s?%s\", r.Config.Paths.RootURL, p, query.Encode()) }"
def fn_recover_init : String := "func() { m := &Recover{} authboss.RegisterModule(\"recover\", m) }"
def fn_register_Register_Get : String := "func(w http.ResponseWriter, req *http.Request) error { return r.Config.Core.Responder.Respond(w, req, http.StatusOK, PageRegister, nil) }"
def fn_register_init : String := "func() { authboss.RegisterModule(\"register\", &Register{}) }"
def fn_remember_init : String := "func() { authboss.RegisterModule(\"remember\", &Remember{}) }"
def funcNames : List String := [
  "auth.Auth.Init",
  "auth.Auth.LoginGet",
  "auth.Auth.LoginPost",
  "auth.init",
  "authboss.Authboss.CurrentUser",
  "authboss.Authboss.CurrentUserID",
  "authboss.Authboss.CurrentUserIDP",
  "authboss.Authboss.CurrentUserP",
  "authboss.Authboss.Email",
  "authboss.Authboss.Init",
  "authboss.Authboss.IsLoaded",
  "authboss.Authboss.LoadClientState",
  "authboss.Authboss.LoadClientStateMiddleware",
  "authboss.Authboss.LoadCurrentUser",
  "authboss.Authboss.LoadCurrentUserID",
  "authboss.Authboss.LoadCurrentUserIDP",
  "authboss.Authboss.LoadCurrentUserP",
  "authboss.Authboss.LoadedModules",
  "authboss.Authboss.Localizef",
  "authboss.Authboss.Logger",
  "authboss.Authboss.NewResponse",
  "authboss.Authboss.RequestLogger",
  "authboss.Authboss.UpdatePassword",
  "authboss.Authboss.VerifyPassword",
  "authboss.Authboss.currentUser",
  "authboss.Authboss.loadModule",
  "authboss.CanBeRecoverableUserWithSecondaryEmails",
  "authboss.ClientStateResponseWriter.Header",
  "authboss.ClientStateResponseWriter.Hijack",
  "authboss.ClientStateResponseWriter.UnderlyingResponseWriter",
  "authboss.ClientStateResponseWriter.Unwrap",
  "authboss.ClientStateResponseWriter.Write",
  "authboss.ClientStateResponseWriter.WriteHeader",
  "authboss.ClientStateResponseWriter.putClientState",
  "authboss.Config.Defaults",
  "authboss.DelAllSession",
  "authboss.DelCookie",
  "authboss.DelKnownCookie",
  "authboss.DelKnownSession",
  "authboss.DelSession",
  "authboss.EnsureCanConfirm",
  "authboss.EnsureCanCreate",
  "authboss.EnsureCanOAuth2",
  "authboss.EnsureCanRecover",
  "authboss.EnsureCanRemember",
  "authboss.ErrorList.Error",
  "authboss.ErrorList.Map",
  "authboss.ErrorMap",
  "authboss.Event.String",
  "authboss.Events.After",
  "authboss.Events.Before",
  "authboss.Events.FireAfter",
  "authboss.Events.FireBefore",
  "authboss.Events.call",
  "authboss.FlashError",
  "authboss.FlashSuccess",
  "authboss.FmtLogger.Errorf",
  "authboss.FmtLogger.Infof",
  "authboss.GetCookie",
  "authboss.GetSession",
  "authboss.HTMLData.Merge",
  "authboss.HTMLData.MergeKV",
  "authboss.IsFullyAuthed",
  "authboss.IsTwoFactored",
  "authboss.MakeOAuth2PID",
  "authboss.MergeDataInRequest",
  "authboss.Middleware",
  "authboss.Middleware2",
  "authboss.ModuleListMiddleware",
  "authboss.MountedMiddleware",
  "authboss.MountedMiddleware2",
  "authboss.MustBeAuthable",
  "authboss.MustBeConfirmable",
  "authboss.MustBeLockable",
  "authboss.MustBeOAuthable",
  "authboss.MustBeRecoverable",
  "authboss.MustClientStateResponseWriter",
  "authboss.MustHaveConfirmValues",
  "authboss.MustHaveRecoverEndValues",
  "authboss.MustHaveRecoverMiddleValues",
  "authboss.MustHaveRecoverStartValues",
  "authboss.MustHaveUserValues",
  "authboss.New",
  "authboss.NewBCryptHasher",
  "authboss.NewEvents",
  "authboss.NewHTMLData",
  "authboss.NewSha512TokenGenerator",
  "authboss.ParseOAuth2PID",
  "authboss.ParseOAuth2PIDP",
  "authboss.PutCookie",
  "authboss.PutSession",
  "authboss.RegisterModule",
  "authboss.RegisteredModules",
  "authboss.Sha512TokenGenerator.GenerateToken",
  "authboss.Sha512TokenGenerator.ParseToken",
  "authboss.Sha512TokenGenerator.TokenSize",
  "authboss.VerifyPassword",
  "authboss._",
  "authboss.bcryptHasher.CompareHashAndPassword",
  "authboss.bcryptHasher.GenerateHash",
  "authboss.contextKey.String",
  "authboss.delAllState",
  "authboss.delState",
  "authboss.getState",
  "authboss.hasBit",
  "authboss.putState",
  "authboss.setState",
  "confirm.Confirm.Get",
  "confirm.Confirm.Init",
  "confirm.Confirm.PreventAuth",
  "confirm.Confirm.SendConfirmEmail",
  "confirm.Confirm.StartConfirmation",
  "confirm.Confirm.StartConfirmationWeb",
  "confirm.Confirm.invalidToken",
  "confirm.Confirm.mailURL",
  "confirm.GenerateConfirmCreds",
  "confirm.Middleware",
  "confirm.init",
  "defaults.ConfirmValues.GetToken",
  "defaults.ErrorHandler.Wrap",
  "defaults.FieldError.Err",
  "defaults.FieldError.Error",
  "defaults.FieldError.Name",
  "defaults.HTTPBodyReader.Read",
  "defaults.HTTPFormValidator.Validate",
  "defaults.JSONRenderer.Load",
  "defaults.JSONRenderer.Render",
  "defaults.LogMailer.Send",
  "defaults.Logger.Error",
  "defaults.Logger.Info",
  "defaults.NewErrorHandler",
  "defaults.NewFieldError",
  "defaults.NewHTTPBodyReader",
  "defaults.NewLogMailer",
  "defaults.NewLogger",
  "defaults.NewRedirector",
  "defaults.NewResponder",
  "defaults.NewRouter",
  "defaults.NewSMTPMailer",
  "defaults.RecoverEndValues.GetPassword",
  "defaults.RecoverEndValues.GetToken",
  "defaults.RecoverMiddleValues.GetToken",
  "defaults.RecoverStartValues.GetPID",
  "defaults.Redirector.Redirect",
  "defaults.Redirector.redirectAPI",
  "defaults.Redirector.redirectNonAPI",
  "defaults.Responder.Respond",
  "defaults.Router.Delete",
  "defaults.Router.Get",
  "defaults.Router.Post",
  "defaults.Router.ServeHTTP",
  "defaults.Rules.Errors",
  "defaults.Rules.IsValid",
  "defaults.Rules.Rules",
  "defaults.Rules.charErr",
  "defaults.Rules.lengthErr",
  "defaults.Rules.lowerErr",
  "defaults.Rules.numericErr",
  "defaults.Rules.symbolErr",
  "defaults.Rules.upperErr",
  "defaults.SMSTwoFA.GetCode",
  "defaults.SMSTwoFA.GetPhoneNumber",
  "defaults.SMSTwoFA.GetRecoveryCode",
  "defaults.SMTPMailer.Send",
  "defaults.SMTPMailer.boundary",
  "defaults.SetCore",
  "defaults.TwoFA.GetCode",
  "defaults.TwoFA.GetRecoveryCode",
  "defaults.URLValuesToMap",
  "defaults.UserValues.GetPID",
  "defaults.UserValues.GetPassword",
  "defaults.UserValues.GetShouldRemember",
  "defaults.UserValues.GetValues",
  "defaults.errorHandler.ServeHTTP",
  "defaults.isAPIRequest",
  "defaults.isSameSiteRedirect",
  "defaults.namedAddress",
  "defaults.namedAddresses",
  "defaults.tallyCharacters",
  "expire.Middleware",
  "expire.RefreshExpiry",
  "expire.Setup",
  "expire.TimeToExpiry",
  "expire.expireMiddleware.ServeHTTP",
  "expire.refreshExpiry",
  "expire.stateHider.Get",
  "expire.timeToExpiry",
  "lock.IsLocked",
  "lock.Lock.AfterAuthFail",
  "lock.Lock.AfterAuthSuccess",
  "lock.Lock.BeforeAuth",
  "lock.Lock.Init",
  "lock.Lock.Lock",
  "lock.Lock.Unlock",
  "lock.Lock.updateLockedState",
  "lock.Middleware",
  "lock.init",
  "logout.Logout.Init",
  "logout.Logout.Logout",
  "logout.init",
  "oauth2.FacebookUserDetails",
  "oauth2.GoogleUserDetails",
  "oauth2.OAuth2.End",
  "oauth2.OAuth2.Init",
  "oauth2.OAuth2.Start",
  "oauth2.RMTrue.GetShouldRemember",
  "oauth2.init",
  "oauth2.isSameSiteRedirect",
  "otp.MustBeOTPable",
  "otp.OTP.AddGet",
  "otp.OTP.AddPost",
  "otp.OTP.ClearGet",
  "otp.OTP.ClearPost",
  "otp.OTP.Init",
  "otp.OTP.LoginGet",
  "otp.OTP.LoginPost",
  "otp.OTP.showOTPCount",
  "otp.generateOTP",
  "otp.init",
  "otp.joinOTPs",
  "otp.splitOTPs",
  "otp_twofactor.BCryptRecoveryCodes",
  "otp_twofactor.DecodeRecoveryCodes",
  "otp_twofactor.EmailVerify.End",
  "otp_twofactor.EmailVerify.GetStart",
  "otp_twofactor.EmailVerify.PostStart",
  "otp_twofactor.EmailVerify.SendVerifyEmail",
  "otp_twofactor.EmailVerify.Wrap",
  "otp_twofactor.EmailVerify.mailURL",
  "otp_twofactor.EncodeRecoveryCodes",
  "otp_twofactor.GenerateRecoveryCodes",
  "otp_twofactor.GenerateToken",
  "otp_twofactor.MustHaveEmailVerifyTokenValues",
  "otp_twofactor.Recovery.GetRegen",
  "otp_twofactor.Recovery.PostRegen",
  "otp_twofactor.Recovery.Setup",
  "otp_twofactor.SetupEmailVerify",
  "otp_twofactor.UseRecoveryCode",
  "otp_twofactor_sms2fa.MustHaveSMSPhoneNumberValue",
  "otp_twofactor_sms2fa.MustHaveSMSValues",
  "otp_twofactor_sms2fa.SMS.GetSetup",
  "otp_twofactor_sms2fa.SMS.HijackAuth",
  "otp_twofactor_sms2fa.SMS.PostSetup",
  "otp_twofactor_sms2fa.SMS.SendCodeToUser",
  "otp_twofactor_sms2fa.SMS.Setup",
  "otp_twofactor_sms2fa.SMSValidator.Get",
  "otp_twofactor_sms2fa.SMSValidator.Post",
  "otp_twofactor_sms2fa.SMSValidator.sendCode",
  "otp_twofactor_sms2fa.SMSValidator.validateCode",
  "otp_twofactor_sms2fa.generateRandomCode",
  "otp_twofactor_totp2fa.MustHaveTOTPCodeValues",
  "otp_twofactor_totp2fa.TOTP.GetConfirm",
  "otp_twofactor_totp2fa.TOTP.GetQRCode",
  "otp_twofactor_totp2fa.TOTP.GetRemove",
  "otp_twofactor_totp2fa.TOTP.GetSetup",
  "otp_twofactor_totp2fa.TOTP.GetValidate",
  "otp_twofactor_totp2fa.TOTP.HijackAuth",
  "otp_twofactor_totp2fa.TOTP.PostConfirm",
  "otp_twofactor_totp2fa.TOTP.PostRemove",
  "otp_twofactor_totp2fa.TOTP.PostSetup",
  "otp_twofactor_totp2fa.TOTP.PostValidate",
  "otp_twofactor_totp2fa.TOTP.Setup",
  "otp_twofactor_totp2fa.TOTP.validate",
  "recover.GenerateRecoverCreds",
  "recover.Recover.EndGet",
  "recover.Recover.EndPost",
  "recover.Recover.Init",
  "recover.Recover.SendRecoverEmail",
  "recover.Recover.StartGet",
  "recover.Recover.StartPost",
  "recover.Recover.invalidToken",
  "recover.Recover.mailURL",
  "recover.init",
  "register.Register.Get",
  "register.Register.Init",
  "register.Register.Post",
  "register.hasString",
  "register.init",
  "remember.Authenticate",
  "remember.GenerateToken",
  "remember.Middleware",
  "remember.Remember.AfterPasswordReset",
  "remember.Remember.Init",
  "remember.Remember.RememberAfterAuth",
  "remember.halfAuthState.Get",
  "remember.init"
]

end Expected
