/- PINNED by bin/pin-expected: the facts of /repo the model was written against. -/
namespace Expected

def fn_authboss_ClientStateResponseWriter_WriteHeader : String := "func(code int) { if !c.hasWritten { if err := c.putClientState(); err != nil { panic(err) } } c.ResponseWriter.WriteHeader(code) }"
def fn_authboss_ClientStateResponseWriter_Write : String := "func(b []byte) (int, error) { if !c.hasWritten { if err := c.putClientState(); err != nil { return 0, err } } return c.ResponseWriter.Write(b) }"
def fn_authboss_ClientStateResponseWriter_putClientState : String := "func() error { if c.hasWritten { panic(\"should not call putClientState twice\") } c.hasWritten = true if len(c.cookieStateEvents) == 0 && len(c.sessionStateEvents) == 0 { return nil } if c.sessionStateRW != nil && len(c.sessionStateEvents) > 0 { err := c.sessionStateRW.WriteState(c, c.sessionState, c.sessionStateEvents) if err != nil { return err } } if c.cookieStateRW != nil && len(c.cookieStateEvents) > 0 { err := c.cookieStateRW.WriteState(c, c.cookieState, c.cookieStateEvents) if err != nil { return err } } return nil }"
def fn_authboss_ClientStateResponseWriter_UnderlyingResponseWriter : String := "func() http.ResponseWriter { return c.ResponseWriter }"
def fn_authboss_ClientStateResponseWriter_Unwrap : String := "func() http.ResponseWriter { return c.ResponseWriter }"
def fn_authboss_MustClientStateResponseWriter : String := "func(w http.ResponseWriter) *ClientStateResponseWriter { for { if c, ok := w.(*ClientStateResponseWriter); ok { return c } if u, ok := w.(UnderlyingResponseWriter); ok { w = u.UnderlyingResponseWriter() continue } if u, ok := w.(WrappingResponseWriter); ok { w = u.Unwrap() continue } panic(fmt.Sprintf(\"ResponseWriter must be a ClientStateResponseWriter or UnderlyingResponseWriter in (see: authboss.LoadClientStateMiddleware): %T\", w)) } }"
def fn_authboss_setState : String := "func(w http.ResponseWriter, ctxKey contextKey, op ClientStateEventKind, key, val string) { csrw := MustClientStateResponseWriter(w) ev := ClientStateEvent{ Kind: op, Key: key, } if op == ClientStateEventPut { ev.Value = val } switch ctxKey { case CTXKeySessionState: csrw.sessionStateEvents = append(csrw.sessionStateEvents, ev) case CTXKeyCookieState: csrw.cookieStateEvents = append(csrw.cookieStateEvents, ev) } }"
def fn_authboss_putState : String := "func(w http.ResponseWriter, CTXKey contextKey, key, val string) { setState(w, CTXKey, ClientStateEventPut, key, val) }"
def fn_authboss_delState : String := "func(w http.ResponseWriter, CTXKey contextKey, key string) { setState(w, CTXKey, ClientStateEventDel, key, \"\") }"
def fn_authboss_delAllState : String := "func(w http.ResponseWriter, CTXKey contextKey, whitelist []string) { setState(w, CTXKey, ClientStateEventDelAll, strings.Join(whitelist, \",\"), \"\") }"
def fn_authboss_getState : String := "func(r *http.Request, ctxKey contextKey, key string) (string, bool) { val := r.Context().Value(ctxKey) if val == nil { return \"\", false } state := val.(ClientState) return state.Get(key) }"
def fn_authboss_PutSession : String := "func(w http.ResponseWriter, key, val string) { putState(w, CTXKeySessionState, key, val) }"
def fn_authboss_DelSession : String := "func(w http.ResponseWriter, key string) { delState(w, CTXKeySessionState, key) }"
def fn_authboss_GetSession : String := "func(r *http.Request, key string) (string, bool) { return getState(r, CTXKeySessionState, key) }"
def fn_authboss_PutCookie : String := "func(w http.ResponseWriter, key, val string) { putState(w, CTXKeyCookieState, key, val) }"
def fn_authboss_DelCookie : String := "func(w http.ResponseWriter, key string) { delState(w, CTXKeyCookieState, key) }"
def fn_authboss_GetCookie : String := "func(r *http.Request, key string) (string, bool) { return getState(r, CTXKeyCookieState, key) }"
def fn_authboss_DelAllSession : String := "func(w http.ResponseWriter, whitelist []string) { delAllState(w, CTXKeySessionState, whitelist) }"
def fn_authboss_Authboss_NewResponse : String := "func(w http.ResponseWriter) *ClientStateResponseWriter { return &ClientStateResponseWriter{ ResponseWriter: w, cookieStateRW: a.Config.Storage.CookieState, sessionStateRW: a.Config.Storage.SessionState, } }"
def fn_authboss_Authboss_LoadClientState : String := "func(w http.ResponseWriter, r *http.Request) (*http.Request, error) { if a.Storage.SessionState != nil { state, err := a.Storage.SessionState.ReadState(r) if err != nil { return nil, err } else if state != nil { c := MustClientStateResponseWriter(w) c.sessionState = state r = r.WithContext(context.WithValue(r.Context(), CTXKeySessionState, state)) } } if a.Storage.CookieState != nil { state, err := a.Storage.CookieState.ReadState(r) if err != nil { return nil, err } else if state != nil { c := MustClientStateResponseWriter(w) c.cookieState = state r = r.WithContext(context.WithValue(r.Context(), CTXKeyCookieState, state)) } } return r, nil }"

end Expected
