/- Tie unit Values: regenerated facts of /repo = facts the model is written against. -/
import Generated.Facts
import Tie.Expected

namespace Tie.Values

theorem tie_fn_defaults_HTTPBodyReader_Read : Generated.fn_defaults_HTTPBodyReader_Read = Expected.fn_defaults_HTTPBodyReader_Read := rfl
theorem tie_fn_defaults_NewHTTPBodyReader : Generated.fn_defaults_NewHTTPBodyReader = Expected.fn_defaults_NewHTTPBodyReader := rfl
theorem tie_fn_defaults_HTTPFormValidator_Validate : Generated.fn_defaults_HTTPFormValidator_Validate = Expected.fn_defaults_HTTPFormValidator_Validate := rfl
theorem tie_fn_defaults_URLValuesToMap : Generated.fn_defaults_URLValuesToMap = Expected.fn_defaults_URLValuesToMap := rfl
theorem tie_fn_defaults_UserValues_GetShouldRemember : Generated.fn_defaults_UserValues_GetShouldRemember = Expected.fn_defaults_UserValues_GetShouldRemember := rfl
theorem tie_fn_defaults_Rules_Errors : Generated.fn_defaults_Rules_Errors = Expected.fn_defaults_Rules_Errors := rfl
theorem tie_fn_defaults_Rules_IsValid : Generated.fn_defaults_Rules_IsValid = Expected.fn_defaults_Rules_IsValid := rfl
theorem tie_fn_defaults_tallyCharacters : Generated.fn_defaults_tallyCharacters = Expected.fn_defaults_tallyCharacters := rfl
theorem tie_consts_defaults : Generated.consts_defaults = Expected.consts_defaults := rfl
theorem tie_pkgVars_defaults : Generated.pkgVars_defaults = Expected.pkgVars_defaults := rfl

end Tie.Values
