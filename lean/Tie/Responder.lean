/- Tie unit Responder: regenerated facts of /repo = facts the model is written against. -/
import Generated.Facts
import Tie.Expected

namespace Tie.Responder

theorem tie_fn_defaults_Responder_Respond : Generated.fn_defaults_Responder_Respond = Expected.fn_defaults_Responder_Respond := rfl
theorem tie_fn_defaults_Redirector_Redirect : Generated.fn_defaults_Redirector_Redirect = Expected.fn_defaults_Redirector_Redirect := rfl
theorem tie_fn_defaults_Redirector_redirectAPI : Generated.fn_defaults_Redirector_redirectAPI = Expected.fn_defaults_Redirector_redirectAPI := rfl
theorem tie_fn_defaults_Redirector_redirectNonAPI : Generated.fn_defaults_Redirector_redirectNonAPI = Expected.fn_defaults_Redirector_redirectNonAPI := rfl
theorem tie_fn_defaults_isAPIRequest : Generated.fn_defaults_isAPIRequest = Expected.fn_defaults_isAPIRequest := rfl
theorem tie_fn_defaults_errorHandler_ServeHTTP : Generated.fn_defaults_errorHandler_ServeHTTP = Expected.fn_defaults_errorHandler_ServeHTTP := rfl
theorem tie_fn_defaults_ErrorHandler_Wrap : Generated.fn_defaults_ErrorHandler_Wrap = Expected.fn_defaults_ErrorHandler_Wrap := rfl
theorem tie_fn_defaults_Router_ServeHTTP : Generated.fn_defaults_Router_ServeHTTP = Expected.fn_defaults_Router_ServeHTTP := rfl
theorem tie_fn_defaults_JSONRenderer_Render : Generated.fn_defaults_JSONRenderer_Render = Expected.fn_defaults_JSONRenderer_Render := rfl

end Tie.Responder
