/- Tie unit TwoFactor: regenerated facts of /repo = facts the model is written against. -/
import Generated.Facts
import Tie.Expected

namespace Tie.TwoFactor

theorem tie_fn_otp_twofactor_Recovery_Setup : Generated.fn_otp_twofactor_Recovery_Setup = Expected.fn_otp_twofactor_Recovery_Setup := rfl
theorem tie_fn_otp_twofactor_Recovery_PostRegen : Generated.fn_otp_twofactor_Recovery_PostRegen = Expected.fn_otp_twofactor_Recovery_PostRegen := rfl
theorem tie_fn_otp_twofactor_GenerateRecoveryCodes : Generated.fn_otp_twofactor_GenerateRecoveryCodes = Expected.fn_otp_twofactor_GenerateRecoveryCodes := rfl
theorem tie_fn_otp_twofactor_BCryptRecoveryCodes : Generated.fn_otp_twofactor_BCryptRecoveryCodes = Expected.fn_otp_twofactor_BCryptRecoveryCodes := rfl
theorem tie_fn_otp_twofactor_UseRecoveryCode : Generated.fn_otp_twofactor_UseRecoveryCode = Expected.fn_otp_twofactor_UseRecoveryCode := rfl
theorem tie_fn_otp_twofactor_EncodeRecoveryCodes : Generated.fn_otp_twofactor_EncodeRecoveryCodes = Expected.fn_otp_twofactor_EncodeRecoveryCodes := rfl
theorem tie_fn_otp_twofactor_DecodeRecoveryCodes : Generated.fn_otp_twofactor_DecodeRecoveryCodes = Expected.fn_otp_twofactor_DecodeRecoveryCodes := rfl
theorem tie_fn_otp_twofactor_SetupEmailVerify : Generated.fn_otp_twofactor_SetupEmailVerify = Expected.fn_otp_twofactor_SetupEmailVerify := rfl
theorem tie_fn_otp_twofactor_EmailVerify_PostStart : Generated.fn_otp_twofactor_EmailVerify_PostStart = Expected.fn_otp_twofactor_EmailVerify_PostStart := rfl
theorem tie_fn_otp_twofactor_EmailVerify_SendVerifyEmail : Generated.fn_otp_twofactor_EmailVerify_SendVerifyEmail = Expected.fn_otp_twofactor_EmailVerify_SendVerifyEmail := rfl
theorem tie_fn_otp_twofactor_EmailVerify_End : Generated.fn_otp_twofactor_EmailVerify_End = Expected.fn_otp_twofactor_EmailVerify_End := rfl
theorem tie_fn_otp_twofactor_EmailVerify_Wrap : Generated.fn_otp_twofactor_EmailVerify_Wrap = Expected.fn_otp_twofactor_EmailVerify_Wrap := rfl
theorem tie_fn_otp_twofactor_GenerateToken : Generated.fn_otp_twofactor_GenerateToken = Expected.fn_otp_twofactor_GenerateToken := rfl
theorem tie_consts_otp_twofactor : Generated.consts_otp_twofactor = Expected.consts_otp_twofactor := rfl
theorem tie_stateCalls_otp_twofactor : Generated.stateCalls_otp_twofactor = Expected.stateCalls_otp_twofactor := rfl
theorem tie_logCalls_otp_twofactor : Generated.logCalls_otp_twofactor = Expected.logCalls_otp_twofactor := rfl
theorem tie_routes_otp_twofactor : Generated.routes_otp_twofactor = Expected.routes_otp_twofactor := rfl

end Tie.TwoFactor
