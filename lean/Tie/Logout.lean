/- Tie unit Logout: regenerated facts of /repo = facts the model is written against. -/
import Generated.Facts
import Tie.Expected

namespace Tie.Logout

theorem tie_fn_logout_Logout_Init : Generated.fn_logout_Logout_Init = Expected.fn_logout_Logout_Init := rfl
theorem tie_fn_logout_Logout_Logout : Generated.fn_logout_Logout_Logout = Expected.fn_logout_Logout_Logout := rfl
theorem tie_eventRegs_logout : Generated.eventRegs_logout = Expected.eventRegs_logout := rfl
theorem tie_stateCalls_logout : Generated.stateCalls_logout = Expected.stateCalls_logout := rfl
theorem tie_logCalls_logout : Generated.logCalls_logout = Expected.logCalls_logout := rfl
theorem tie_routes_logout : Generated.routes_logout = Expected.routes_logout := rfl

end Tie.Logout
