/- Tie unit Expire: regenerated facts of /repo = facts the model is written against. -/
import Generated.Facts
import Tie.Expected

namespace Tie.Expire

theorem tie_fn_expire_Setup : Generated.fn_expire_Setup = Expected.fn_expire_Setup := rfl
theorem tie_fn_expire_timeToExpiry : Generated.fn_expire_timeToExpiry = Expected.fn_expire_timeToExpiry := rfl
theorem tie_fn_expire_refreshExpiry : Generated.fn_expire_refreshExpiry = Expected.fn_expire_refreshExpiry := rfl
theorem tie_fn_expire_Middleware : Generated.fn_expire_Middleware = Expected.fn_expire_Middleware := rfl
theorem tie_fn_expire_expireMiddleware_ServeHTTP : Generated.fn_expire_expireMiddleware_ServeHTTP = Expected.fn_expire_expireMiddleware_ServeHTTP := rfl
theorem tie_fn_expire_stateHider_Get : Generated.fn_expire_stateHider_Get = Expected.fn_expire_stateHider_Get := rfl
theorem tie_eventRegs_expire : Generated.eventRegs_expire = Expected.eventRegs_expire := rfl
theorem tie_stateCalls_expire : Generated.stateCalls_expire = Expected.stateCalls_expire := rfl
theorem tie_pkgVars_expire : Generated.pkgVars_expire = Expected.pkgVars_expire := rfl

end Tie.Expire
