/- Tie unit Lock: regenerated facts of /repo = facts the model is written against. -/
import Generated.Facts
import Tie.Expected

namespace Tie.Lock

theorem tie_fn_lock_Lock_Init : Generated.fn_lock_Lock_Init = Expected.fn_lock_Lock_Init := rfl
theorem tie_fn_lock_Lock_BeforeAuth : Generated.fn_lock_Lock_BeforeAuth = Expected.fn_lock_Lock_BeforeAuth := rfl
theorem tie_fn_lock_Lock_AfterAuthSuccess : Generated.fn_lock_Lock_AfterAuthSuccess = Expected.fn_lock_Lock_AfterAuthSuccess := rfl
theorem tie_fn_lock_Lock_AfterAuthFail : Generated.fn_lock_Lock_AfterAuthFail = Expected.fn_lock_Lock_AfterAuthFail := rfl
theorem tie_fn_lock_Lock_updateLockedState : Generated.fn_lock_Lock_updateLockedState = Expected.fn_lock_Lock_updateLockedState := rfl
theorem tie_fn_lock_Lock_Lock : Generated.fn_lock_Lock_Lock = Expected.fn_lock_Lock_Lock := rfl
theorem tie_fn_lock_Lock_Unlock : Generated.fn_lock_Lock_Unlock = Expected.fn_lock_Lock_Unlock := rfl
theorem tie_fn_lock_Middleware : Generated.fn_lock_Middleware = Expected.fn_lock_Middleware := rfl
theorem tie_fn_lock_IsLocked : Generated.fn_lock_IsLocked = Expected.fn_lock_IsLocked := rfl
theorem tie_eventRegs_lock : Generated.eventRegs_lock = Expected.eventRegs_lock := rfl
theorem tie_stateCalls_lock : Generated.stateCalls_lock = Expected.stateCalls_lock := rfl
theorem tie_logCalls_lock : Generated.logCalls_lock = Expected.logCalls_lock := rfl

end Tie.Lock
