/- Tie unit Context: regenerated facts of /repo = facts the model is written against. -/
import Generated.Facts
import Tie.Expected

namespace Tie.Context

theorem tie_fn_authboss_Authboss_CurrentUserID : Generated.fn_authboss_Authboss_CurrentUserID = Expected.fn_authboss_Authboss_CurrentUserID := rfl
theorem tie_fn_authboss_Authboss_CurrentUser : Generated.fn_authboss_Authboss_CurrentUser = Expected.fn_authboss_Authboss_CurrentUser := rfl
theorem tie_fn_authboss_Authboss_currentUser : Generated.fn_authboss_Authboss_currentUser = Expected.fn_authboss_Authboss_currentUser := rfl
theorem tie_fn_authboss_Authboss_LoadCurrentUserID : Generated.fn_authboss_Authboss_LoadCurrentUserID = Expected.fn_authboss_Authboss_LoadCurrentUserID := rfl
theorem tie_fn_authboss_Authboss_LoadCurrentUser : Generated.fn_authboss_Authboss_LoadCurrentUser = Expected.fn_authboss_Authboss_LoadCurrentUser := rfl
theorem tie_fn_authboss_Authboss_LoadCurrentUserP : Generated.fn_authboss_Authboss_LoadCurrentUserP = Expected.fn_authboss_Authboss_LoadCurrentUserP := rfl
theorem tie_fn_authboss_Authboss_CurrentUserP : Generated.fn_authboss_Authboss_CurrentUserP = Expected.fn_authboss_Authboss_CurrentUserP := rfl
theorem tie_fn_authboss_IsFullyAuthed : Generated.fn_authboss_IsFullyAuthed = Expected.fn_authboss_IsFullyAuthed := rfl
theorem tie_fn_authboss_IsTwoFactored : Generated.fn_authboss_IsTwoFactored = Expected.fn_authboss_IsTwoFactored := rfl
theorem tie_fn_authboss_DelKnownSession : Generated.fn_authboss_DelKnownSession = Expected.fn_authboss_DelKnownSession := rfl
theorem tie_fn_authboss_DelKnownCookie : Generated.fn_authboss_DelKnownCookie = Expected.fn_authboss_DelKnownCookie := rfl

end Tie.Context
