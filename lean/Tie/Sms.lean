/- Tie unit Sms: regenerated facts of /repo = facts the model is written against. -/
import Generated.Facts
import Tie.Expected

namespace Tie.Sms

theorem tie_fn_otp_twofactor_sms2fa_SMS_Setup : Generated.fn_otp_twofactor_sms2fa_SMS_Setup = Expected.fn_otp_twofactor_sms2fa_SMS_Setup := rfl
theorem tie_fn_otp_twofactor_sms2fa_SMS_HijackAuth : Generated.fn_otp_twofactor_sms2fa_SMS_HijackAuth = Expected.fn_otp_twofactor_sms2fa_SMS_HijackAuth := rfl
theorem tie_fn_otp_twofactor_sms2fa_SMS_SendCodeToUser : Generated.fn_otp_twofactor_sms2fa_SMS_SendCodeToUser = Expected.fn_otp_twofactor_sms2fa_SMS_SendCodeToUser := rfl
theorem tie_fn_otp_twofactor_sms2fa_SMS_GetSetup : Generated.fn_otp_twofactor_sms2fa_SMS_GetSetup = Expected.fn_otp_twofactor_sms2fa_SMS_GetSetup := rfl
theorem tie_fn_otp_twofactor_sms2fa_SMS_PostSetup : Generated.fn_otp_twofactor_sms2fa_SMS_PostSetup = Expected.fn_otp_twofactor_sms2fa_SMS_PostSetup := rfl
theorem tie_fn_otp_twofactor_sms2fa_SMSValidator_Post : Generated.fn_otp_twofactor_sms2fa_SMSValidator_Post = Expected.fn_otp_twofactor_sms2fa_SMSValidator_Post := rfl
theorem tie_fn_otp_twofactor_sms2fa_SMSValidator_sendCode : Generated.fn_otp_twofactor_sms2fa_SMSValidator_sendCode = Expected.fn_otp_twofactor_sms2fa_SMSValidator_sendCode := rfl
theorem tie_fn_otp_twofactor_sms2fa_SMSValidator_validateCode : Generated.fn_otp_twofactor_sms2fa_SMSValidator_validateCode = Expected.fn_otp_twofactor_sms2fa_SMSValidator_validateCode := rfl
theorem tie_fn_otp_twofactor_sms2fa_generateRandomCode : Generated.fn_otp_twofactor_sms2fa_generateRandomCode = Expected.fn_otp_twofactor_sms2fa_generateRandomCode := rfl
theorem tie_consts_otp_twofactor_sms2fa : Generated.consts_otp_twofactor_sms2fa = Expected.consts_otp_twofactor_sms2fa := rfl
theorem tie_eventRegs_otp_twofactor_sms2fa : Generated.eventRegs_otp_twofactor_sms2fa = Expected.eventRegs_otp_twofactor_sms2fa := rfl
theorem tie_stateCalls_otp_twofactor_sms2fa : Generated.stateCalls_otp_twofactor_sms2fa = Expected.stateCalls_otp_twofactor_sms2fa := rfl
theorem tie_logCalls_otp_twofactor_sms2fa : Generated.logCalls_otp_twofactor_sms2fa = Expected.logCalls_otp_twofactor_sms2fa := rfl
theorem tie_routes_otp_twofactor_sms2fa : Generated.routes_otp_twofactor_sms2fa = Expected.routes_otp_twofactor_sms2fa := rfl

end Tie.Sms
