import AuthbossModel.Redirect
import AuthbossModel.Wire
namespace AuthbossModel.Redirect
open AuthbossModel.Wire

/-- `redir <hex v> <relative> <cmp>` → `<guard> <offsite v> <location|->` -/
def handle (args : List String) : String :=
  match args with
  | [v, rel, cmp] =>
    match fromHex v with
    | some b =>
      let g := guard b
      let loc := if g && cmp == "1" then toHex (goRedirect b (rel == "1")) else "-"
      s!"{boolTok g} {boolTok (offSite b)} {loc}"
    | none => "bad-op"
  | _ => "bad-op"
end AuthbossModel.Redirect
