/-
  Line-protocol helpers for the Driver (hex encoding of byte strings).
  Not part of any theorem; trusted only as far as the correspondence check exercises it.
-/
import AuthbossModel.Basic

namespace AuthbossModel.Wire

def hexDigit (n : Nat) : Char :=
  if n < 10 then Char.ofNat (48 + n) else Char.ofNat (87 + n)

def toHex (b : Bytes) : String :=
  if b.isEmpty then "-" else
  String.ofList (b.flatMap fun x => [hexDigit (x.toNat / 16), hexDigit (x.toNat % 16)])

def hexVal (c : Char) : Option Nat :=
  if '0' ≤ c ∧ c ≤ '9' then some (c.toNat - 48)
  else if 'a' ≤ c ∧ c ≤ 'f' then some (c.toNat - 87)
  else none

def fromHexAux : List Char → Option Bytes
  | [] => some []
  | a :: b :: rest => do
    let x ← hexVal a
    let y ← hexVal b
    let r ← fromHexAux rest
    pure ((x * 16 + y).toUInt8 :: r)
  | _ => none

def fromHex (s : String) : Option Bytes :=
  if s = "-" then some [] else fromHexAux s.toList

def boolTok (b : Bool) : String := if b then "1" else "0"
def tokBool (s : String) : Bool := s = "1"

end AuthbossModel.Wire
