/-
  Go's `path.Clean` / `path.Join` (lexical, Rob Pike's algorithm) on byte strings,
  by structural recursion over the list of `/`-separated segments.
-/
import AuthbossModel.Basic

namespace AuthbossModel.PathClean

def slash : UInt8 := 47
def dot : UInt8 := 46

/-- Split at every `/` (like `strings.Split(s, "/")`). -/
def splitSlash : Bytes → List Bytes
  | [] => [[]]
  | c :: rest =>
    if c == slash then [] :: splitSlash rest
    else match splitSlash rest with
      | [] => [[c]]
      | seg :: segs => (c :: seg) :: segs

/-- Process segments left to right with a stack (reversed). `rooted`: `..` at the root is
dropped; otherwise leading `..` are kept. -/
def cleanSegs (rooted : Bool) : List Bytes → List Bytes → List Bytes
  | stack, [] => stack.reverse
  | stack, seg :: rest =>
    if seg.isEmpty || seg == [dot] then cleanSegs rooted stack rest
    else if seg == [dot, dot] then
      match stack with
      | top :: below =>
        if top == [dot, dot] then cleanSegs rooted (seg :: stack) rest   -- unrooted: keep piling
        else cleanSegs rooted below rest
      | [] => if rooted then cleanSegs rooted [] rest else cleanSegs rooted [seg] rest
    else cleanSegs rooted (seg :: stack) rest

def joinSlash : List Bytes → Bytes
  | [] => []
  | [s] => s
  | s :: rest => s ++ [slash] ++ joinSlash rest

/-- `path.Clean`. -/
def clean (p : Bytes) : Bytes :=
  if p.isEmpty then [dot] else
  let rooted := p.head? == some slash
  let segs := cleanSegs rooted [] (splitSlash p)
  let body := joinSlash segs
  if rooted then slash :: body
  else if body.isEmpty then [dot] else body

/-- `path.Join` of two elements. -/
def join2 (a b : Bytes) : Bytes :=
  if a.isEmpty && b.isEmpty then []
  else if a.isEmpty then clean b
  else if b.isEmpty then clean a
  else clean (a ++ [slash] ++ b)

end AuthbossModel.PathClean
