/-
  Model of `client_state.go`: the `ClientStateResponseWriter`.

  A handler is a *program*: a list of operations it performs on the response
  writer (directly or through any stack of wrappers — wrappers only forward, see
  `MustClientStateResponseWriter`, so they do not appear in the model; that they
  are transparent in the real code is what the correspondence stream checks).

  Transcribed from: `setState`, `WriteHeader`, `Write`, `putClientState`.
-/
import AuthbossModel.Basic

namespace AuthbossModel.CS

inductive Store | session | cookie
deriving DecidableEq, Repr

inductive EvKind | put | del | delAll
deriving DecidableEq, Repr

/-- `authboss.ClientStateEvent`. -/
structure Ev where
  kind : EvKind
  key  : Bytes
  val  : Bytes
deriving DecidableEq, Repr

/-- What a handler can do to the writer. -/
inductive HOp
  | put (s : Store) (k v : Bytes)     -- PutSession / PutCookie
  | del (s : Store) (k : Bytes)       -- DelSession / DelCookie
  | delAll (wl : Bytes)               -- DelAllSession(whitelist joined by ",")
  | writeHeader (code : Nat)
  | write (b : Bytes)
deriving DecidableEq, Repr

def HOp.ev? : HOp → Option (Store × Ev)
  | .put s k v => some (s, ⟨.put, k, v⟩)
  | .del s k   => some (s, ⟨.del, k, []⟩)
  | .delAll wl => some (.session, ⟨.delAll, wl, []⟩)
  | _          => none

def HOp.isWrite : HOp → Bool
  | .writeHeader _ | .write _ => true
  | _ => false

/-- Externally visible actions, in the order they happen. -/
inductive Out
  | call (s : Store) (evs : List Ev)  -- `WriteState` on that store with exactly this event list
  | header (code : Nat)               -- underlying `WriteHeader`
  | body (b : Bytes)                  -- underlying `Write`
  | writeErr                          -- `Write` returned `(0, err)`: nothing reached the underlying writer
  | panic                             -- `WriteHeader` panicked (store error)
deriving DecidableEq, Repr

def Out.isCall : Out → Bool
  | .call _ _ => true
  | _ => false

def Out.isCallOf (s : Store) : Out → Bool
  | .call s' _ => s' = s
  | _ => false

/-- Configuration / fault oracle: which stores exist and which of them fail. -/
structure Cfg where
  sessRW   : Bool := true   -- `sessionStateRW != nil`
  cookRW   : Bool := true
  sessFail : Bool := false  -- `WriteState` returns an error
  cookFail : Bool := false
deriving DecidableEq, Repr

structure W where
  hasWritten : Bool := false
  sessEv : List Ev := []
  cookEv : List Ev := []
  out    : List Out := []
  dead   : Bool := false    -- a panic unwound the handler
deriving DecidableEq, Repr

/-- `putClientState`: returns the new writer and whether it returned an error. -/
def flush (c : Cfg) (w : W) : W × Bool :=
  let w := { w with hasWritten := true }
  if w.sessEv.isEmpty && w.cookEv.isEmpty then (w, false)
  else
    let (w, err) :=
      if c.sessRW && !w.sessEv.isEmpty then
        ({ w with out := w.out ++ [.call .session w.sessEv] }, c.sessFail)
      else (w, false)
    if err then (w, true)
    else if c.cookRW && !w.cookEv.isEmpty then
      ({ w with out := w.out ++ [.call .cookie w.cookEv] }, c.cookFail)
    else (w, false)

/-- `setState`: append to the pending list of the addressed store. -/
def addEv (w : W) (s : Store) (e : Ev) : W :=
  match s with
  | .session => { w with sessEv := w.sessEv ++ [e] }
  | .cookie  => { w with cookEv := w.cookEv ++ [e] }

def exec (c : Cfg) (w : W) (op : HOp) : W :=
  if w.dead then w else
  match op with
  | .writeHeader code =>
    let (w, err) := if w.hasWritten then (w, false) else flush c w
    if err then { w with dead := true, out := w.out ++ [.panic] }
    else { w with out := w.out ++ [.header code] }
  | .write b =>
    let (w, err) := if w.hasWritten then (w, false) else flush c w
    if err then { w with out := w.out ++ [.writeErr] }
    else { w with out := w.out ++ [.body b] }
  | op =>
    match op.ev? with
    | some (s, e) => addEv w s e
    | none => w

def runFrom (c : Cfg) (w : W) (p : List HOp) : W := p.foldl (exec c) w

def run (c : Cfg) (p : List HOp) : W := runFrom c {} p

/-! ### Specification vocabulary -/

/-- Events a program addresses to store `s`, in program order. -/
def evsOf (s : Store) (p : List HOp) : List Ev :=
  p.filterMap fun op =>
    match op.ev? with
    | some (s', e) => if s' = s then some e else none
    | none => none

/-- The part of the program before the first header/body write. -/
def pre (p : List HOp) : List HOp := p.takeWhile (fun op => !op.isWrite)

/-- The part of the program from the first header/body write on. -/
def post (p : List HOp) : List HOp := p.dropWhile (fun op => !op.isWrite)

/-- What the underlying writer sees of the write operations. -/
def writesOf (p : List HOp) : List Out :=
  p.filterMap fun
    | .writeHeader code => some (.header code)
    | .write b => some (.body b)
    | _ => none

/-- The store calls a flush with these pending lists makes (no faults, both stores present). -/
def flushCalls (se ce : List Ev) : List Out :=
  (if se.isEmpty then [] else [.call .session se]) ++
  (if ce.isEmpty then [] else [.call .cookie ce])

end AuthbossModel.CS
