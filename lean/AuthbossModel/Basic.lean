/-
  Basic vocabulary shared by every part of the model.
  Core-only (no Mathlib): everything here is linked into the Driver executable.
-/
namespace AuthbossModel

/-- Go `string` / `[]byte`: an arbitrary byte sequence (not necessarily UTF-8). -/
abbrev Bytes := List UInt8

/-- ASCII literal → bytes (reduces under `decide` for ASCII literals). -/
def lit (s : String) : Bytes := s.toList.map (fun c => c.toNat.toUInt8)

def Bytes.toStr (b : Bytes) : String :=
  String.fromUTF8! (ByteArray.mk b.toArray)

end AuthbossModel
