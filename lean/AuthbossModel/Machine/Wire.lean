/-
  Line protocol of the machine for the Driver: parse `mcfg`/`m` lines, print canonical
  observations.  Not part of any theorem.
-/
import AuthbossModel.Machine.Step
import AuthbossModel.Wire

namespace AuthbossModel.M
open AuthbossModel.Wire

def SKey.name : SKey → String
  | .uid => "uid" | .halfauth => "halfauth" | .lastAction => "last_action" | .twofactor => "twofactor"
  | .tfaToken => "twofactor_auth_token" | .tfaAuthed => "twofactor_authed"
  | .oauthState => "oauth2_state" | .oauthParams => "oauth2_params"
  | .totpSecret => "totp_secret" | .totpPending => "totp_pending"
  | .smsNumber => "sms_number" | .smsSecret => "sms_secret" | .smsLast => "sms_last" | .smsPending => "sms_pending"
  | .flashOk => "flash_success" | .flashErr => "flash_error"
  | .other n => "x" ++ toHex n

def SKey.ofName (s : String) : SKey :=
  match s with
  | "uid" => .uid | "halfauth" => .halfauth | "last_action" => .lastAction | "twofactor" => .twofactor
  | "twofactor_auth_token" => .tfaToken | "twofactor_authed" => .tfaAuthed
  | "oauth2_state" => .oauthState | "oauth2_params" => .oauthParams
  | "totp_secret" => .totpSecret | "totp_pending" => .totpPending
  | "sms_number" => .smsNumber | "sms_secret" => .smsSecret | "sms_last" => .smsLast | "sms_pending" => .smsPending
  | "flash_success" => .flashOk | "flash_error" => .flashErr
  | o => .other ((fromHex (o.drop 1).toString).getD [])

def Unit.ofName : String → Option Unit
  | "auth" => some .auth | "otp" => some .otp | "lock" => some .lock | "confirm" => some .confirm
  | "remember" => some .remember | "recover" => some .recover | "register" => some .register
  | "logout" => some .logout | "oauth2" => some .oauth2 | "totp" => some .totp | "sms" => some .sms
  | "recovery" => some .recovery | "expire" => some .expire
  | _ => none

def kvs (args : List String) : List (String × String) :=
  args.filterMap fun a =>
    match a.splitOn "=" with
    | [k, v] => some (k, v)
    | _ => none

def look (m : List (String × String)) (k : String) : Option String := (m.find? (·.1 == k)).map (·.2)
def lookB (m : List (String × String)) (k : String) : Bytes := ((look m k).bind fromHex).getD []
def lookI (m : List (String × String)) (k : String) : Int := ((look m k).bind String.toInt?).getD 0
def lookF (m : List (String × String)) (k : String) : Bool := look m k == some "1"

def splitNE (s : String) (sep : String) : List String := (s.splitOn sep).filter (· ≠ "")

def parseCfg (args : List String) : Config :=
  let m := kvs args
  { units := (splitNE ((look m "units").getD "") ",").filterMap Unit.ofName,
    json := lookF m "json", lockAfter := lookI m "la", lockWindow := lookI m "lw", lockDuration := lookI m "ld",
    expireAfter := lookI m "ea", recoverDuration := lookI m "rd", recoverLogin := lookF m "rl",
    emailAuth := lookF m "em", whitelist := (splitNE ((look m "wl").getD "") ",").map SKey.ofName,
    oneTime := lookF m "ot", rememberMW := lookF m "rmw", expireMW := lookF m "emw", err500 := lookF m "e500" }

def parseRoute (s : String) : Route :=
  match s.splitOn ":" with
  | ["login"] => .login | ["otplogin"] => .otpLogin | ["otpadd"] => .otpAdd | ["otpclear"] => .otpClear
  | ["register"] => .register | ["confirm"] => .confirm | ["recstart"] => .recoverStart | ["recend"] => .recoverEnd
  | ["logout"] => .logout | ["ostart"] => .oauth2Start | ["oend"] => .oauth2End
  | ["totpgetsetup"] => .totpGetSetup | ["totpsetup"] => .totpSetup | ["totpconfirm"] => .totpConfirm
  | ["totpremove"] => .totpRemove | ["totpvalidate"] => .totpValidate
  | ["smsgetsetup"] => .smsGetSetup | ["smssetup"] => .smsSetup | ["smsconfirm"] => .smsConfirm
  | ["smsremove"] => .smsRemove | ["smsvalidate"] => .smsValidate
  | ["regen"] => .recoveryRegen
  | ["vstart", k] => .verifyStart (k == "sms") | ["vend", k] => .verifyEnd (k == "sms")
  | ["prot", r, f, mp, p] => .protected_ (r.toNat?.getD 0) (f.toNat?.getD 0) (mp == "1") ((fromHex p).getD [])
  | ["open"] => .open_ | ["lockmw"] => .lockmw | ["confirmmw"] => .confirmmw | ["rootmw"] => .rootmw
  | _ => .notFound

def parseList (s : String) : List Bytes := (splitNE s ",").filterMap fromHex

def parseReq (m : List (String × String)) : Req :=
  { pid := lookB m "pid", pw := lookB m "pw", rm := lookF m "rm", rmOther := lookF m "rmo", redir := lookB m "redir",
    token := match look m "tok" with | some "bad" => none | some h => fromHex h | none => some [],
    tokenRaw := lookB m "tokraw", code := lookB m "code", rcode := lookB m "rcode", phone := lookB m "phone",
    state := lookB m "state", oerr := lookB m "oerr", ocode := lookB m "ocode", provider := lookB m "prov",
    extra := (splitNE ((look m "extra").getD "") ",").filterMap (fun kv =>
      match kv.splitOn "~" with
      | [k, v] => do pure ((← fromHex k), (← fromHex v))
      | _ => none),
    rawQuery := lookB m "rq", valid := look m "valid" != some "0",
    fresh := lookB m "fresh", freshMw := lookB m "freshmw", fresh2 := parseList ((look m "fresh2").getD ""),
    totpOk := parseList ((look m "totpok").getD ""),
    provUid := match look m "puid" with | some "none" => none | some h => fromHex h | none => none }

def parseFault (m : List (String × String)) : Option Fault :=
  match look m "fault" with
  | none => none
  | some f =>
    match f.splitOn ":" with
    | [i, k] => some ⟨i.toNat?.getD 0, match k with
        | "notfound" => .notFound | "tokennotfound" => .tokenNotFound | "userfound" => .userFound | _ => .generic⟩
    | _ => none

def parseCookie (s : String) : Option Cookie :=
  match s.splitOn ":" with
  | ["raw", h] => (fromHex h).map .raw
  | ["garbage"] => some .garbage
  | _ => none

def parseOp (args : List String) : Option Op :=
  match args with
  | "http" :: b :: rt :: rest =>
    let m := kvs rest
    some (.http (lit b) (parseRoute rt) (parseReq m) (parseFault m))
  | ["adv", d] => d.toInt?.map .advance
  | ["lock", p] => (fromHex p).map .apiLock
  | ["unlock", p] => (fromHex p).map .apiUnlock
  | ["updpw", p, w] => do pure (.apiUpdatePassword (← fromHex p) (← fromHex w))
  | ["setcookie", b, c] => some (.setCookie (lit b) (parseCookie c))
  | "setsess" :: b :: rest =>
    some (.setSess (lit b) ((kvs rest).map fun kv => (SKey.ofName kv.1, (fromHex kv.2).getD [])))
  | "seed" :: rest =>
    let m := kvs rest
    some (.seedUser { pid := lookB m "pid", email := (match look m "email" with | some _ => lookB m "email" | none => lookB m "pid"), pw := lookB m "pw", confirmed := lookF m "conf",
                      attempts := lookI m "att",
                      lastAttempt := match look m "last" with | some "z" => zeroTime | some v => v.toInt?.getD 0 | none => zeroTime,
                      locked := match look m "locked" with | some "z" => zeroTime | some v => v.toInt?.getD 0 | none => zeroTime,
                      otps := parseList ((look m "otps").getD ""), totpSecret := lookB m "totp",
                      smsNumber := lookB m "sms", recCodes := parseList ((look m "rec").getD "") })
  | _ => none

/-! ### Printing -/

def showTime (t : Time) : String := if t == zeroTime then "z" else toString t
def showOpt (o : Option Bytes) : String := match o with | none => "~" | some b => toHex b
def showL (l : List Bytes) : String := "[" ++ ",".intercalate (l.map toHex) ++ "]"

def insertSorted (x : String) : List String → List String
  | [] => [x]
  | y :: ys => if x ≤ y then x :: y :: ys else y :: insertSorted x ys
def sortStrs (l : List String) : List String := l.foldr insertSorted []

def showUser (u : User) : String :=
  "|".intercalate [toHex u.pid, toHex u.email, toHex u.pw, boolTok u.confirmed, showOpt u.confirmSel, showOpt u.confirmVer,
    toString u.attempts, showTime u.lastAttempt, showTime u.locked, showOpt u.recoverSel, showOpt u.recoverVer,
    showTime u.recoverExpiry, showL u.otps, toHex u.totpSecret, toHex u.totpLast, toHex u.smsNumber, showL u.recCodes,
    toHex u.oauthUid, toHex u.oauthProvider,
    "{" ++ ",".intercalate (sortStrs (u.arbitrary.map fun kv => toHex kv.1 ++ "~" ++ toHex kv.2)) ++ "}"]

def showStore (s : Store) : String :=
  "users=" ++ ";".intercalate (sortStrs (s.users.map showUser)) ++
  " tokens=" ++ ";".intercalate (sortStrs (s.tokens.map fun t =>
    toHex t.1 ++ "~" ++ (if t.2.length == t.1.length + 1 then "?" else toHex t.2)))

def showJar (j : Jar) : String :=
  ",".intercalate (sortStrs (j.map fun kv => kv.1.name ++ "=" ++ toHex kv.2))

def showCookie : Option Cookie → String
  | none => "none" | some (.raw b) => "raw:" ++ toHex b | some .garbage => "garbage"

def Page.name : Page → String
  | .login => "login" | .otplogin => "otplogin" | .otpadd => "otpadd" | .otpclear => "otpclear"
  | .register => "register" | .recoverStart => "recover_start" | .recoverEnd => "recover_end"
  | .totpSetup => "totp2fa_setup" | .totpConfirm => "totp2fa_confirm" | .totpConfirmSuccess => "totp2fa_confirm_success"
  | .totpRemove => "totp2fa_remove" | .totpRemoveSuccess => "totp2fa_remove_success" | .totpValidate => "totp2fa_validate"
  | .smsSetup => "sms2fa_setup" | .smsConfirm => "sms2fa_confirm" | .smsConfirmSuccess => "sms2fa_confirm_success"
  | .smsRemove => "sms2fa_remove" | .smsRemoveSuccess => "sms2fa_remove_success" | .smsValidate => "sms2fa_validate"
  | .recovery2fa => "recovery2fa" | .verify2fa => "twofactor_verify"

def showTxt : Option Txt → String
  | none => "-" | some t => t.name

def showResp : Option Resp → String
  | none => "none"
  | some (.redirect loc ok f) => s!"redir:{toHex loc}:{showTxt ok}:{showTxt f}"
  | some (.page p tags) => s!"page:{p.name}:" ++ "+".intercalate (sortStrs tags)
  | some (.status c) => s!"status:{c}"
  | some .probe => "probe"

def showStop : Option Stop → String
  | none => "-" | some .done => "-" | some (.err _) => "err" | some (.panic _) => "panic"

def showMail (m : Mail) : String := m.kind ++ "~" ++ ",".intercalate (m.to.map toHex) ++ "~" ++ toHex m.token
def showSms (m : Sms) : String := toHex m.number ++ "~" ++ toHex m.code

structure DState where
  cfg : Config := { units := [] }
  st  : State := {}

def handleLine (d : DState) (args : List String) : DState × String :=
  match args with
  | "mcfg" :: rest => ({ cfg := parseCfg rest, st := {} }, "cfg-ok")
  | "m" :: rest =>
    match parseOp rest with
    | none => (d, "bad-op")
    | some op =>
      let (s', out) := step d.cfg d.st op
      let line := match out, op with
        | some o, .http b _ _ _ =>
          let br := s'.browser b
          s!"resp={showResp o.resp} stop={showStop o.stop} sess={showJar br.sess} rm={showCookie br.rm} " ++
          showStore s'.store ++ " mail=" ++ ";".intercalate (o.ctx.mail.map showMail) ++
          " sms=" ++ ";".intercalate (o.ctx.sms.map showSms)
        | _, _ => "ok " ++ showStore s'.store
      ({ d with st := s' }, line)
  | _ => (d, "bad-op")

end AuthbossModel.M
