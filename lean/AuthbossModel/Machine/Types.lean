/-
  The unified state machine: vocabulary.

  Cryptography is *symbolic*: a stored hash is represented by its pre-image (the model
  never looks inside it, it only compares for equality), i.e. SHA-512 and bcrypt are
  ideal: `verify (hash p) q ↔ p = q`.  The harness maps the real stored hashes back to
  the pre-images it knows, so a stored value that is *not* the hash of the expected
  secret shows up as a difference.  (bcrypt's 72-byte truncation is outside this
  idealisation — known finding K2.)
-/
import AuthbossModel.Basic

namespace AuthbossModel.M

/-- Session keys: every `Session*` constant of every package, plus foreign keys. -/
inductive SKey
  | uid | halfauth | lastAction | twofactor | tfaToken | tfaAuthed
  | oauthState | oauthParams
  | totpSecret | totpPending
  | smsNumber | smsSecret | smsLast | smsPending
  | flashOk | flashErr
  | other (n : Bytes)
deriving DecidableEq, Repr

/-- Localised texts the library emits (named after the `Txt*` keys). -/
inductive Txt
  | invalidCredentials | authFailed | userAlreadyExists | registeredAndLoggedIn
  | confirmYourAccount | accountNotConfirmed | invalidConfirmToken | confirmationSuccess
  | locked | loggedOut | oauth2LoginOK | oauth2LoginNotOK
  | recoverInitiateSuccessFlash | recoverSuccessMsg | recoverAndLoginSuccessMsg
  | tooManyOTPs | emailVerifyTriggered | invalid2FAVerificationToken | tfaAuthorizationRequired
  | invalid2FACode | repeated2FACode | totp2FANotActive | smsNumberRequired | smsWaitToResend
  | recoveryTokenInvalid | validationFailed
deriving DecidableEq, Repr

def Txt.name : Txt → String
  | .invalidCredentials => "InvalidCredentials" | .authFailed => "AuthFailed"
  | .userAlreadyExists => "UserAlreadyExists" | .registeredAndLoggedIn => "RegisteredAndLoggedIn"
  | .confirmYourAccount => "ConfirmYourAccount" | .accountNotConfirmed => "AccountNotConfirmed"
  | .invalidConfirmToken => "InvalidConfirmToken" | .confirmationSuccess => "ConfrimationSuccess"
  | .locked => "Locked" | .loggedOut => "LoggedOut" | .oauth2LoginOK => "OAuth2LoginOK"
  | .oauth2LoginNotOK => "OAuth2LoginNotOK"
  | .recoverInitiateSuccessFlash => "RecoverInitiateSuccessFlash"
  | .recoverSuccessMsg => "RecoverSuccessMsg" | .recoverAndLoginSuccessMsg => "RecoverAndLoginSuccessMsg"
  | .tooManyOTPs => "TooManyOTPs" | .emailVerifyTriggered => "EmailVerifyTriggered"
  | .invalid2FAVerificationToken => "Invalid2FAVerificationToken"
  | .tfaAuthorizationRequired => "2FAAuthorizationRequired"
  | .invalid2FACode => "Invalid2FACode" | .repeated2FACode => "Repeated2FACode"
  | .totp2FANotActive => "TOTP2FANotActive" | .smsNumberRequired => "SMSNumberRequired"
  | .smsWaitToResend => "SMSWaitToResend" | .recoveryTokenInvalid => "RecoveryTokenInvalid"
  | .validationFailed => "validation"

abbrev Jar := List (SKey × Bytes)

def Jar.get (j : Jar) (k : SKey) : Option Bytes := (j.find? (·.1 == k)).map (·.2)
def Jar.del (j : Jar) (k : SKey) : Jar := j.filter (·.1 != k)
def Jar.put (j : Jar) (k : SKey) (v : Bytes) : Jar := (j.del k) ++ [(k, v)]
def Jar.delAll (j : Jar) (wl : List SKey) : Jar := j.filter (fun p => wl.contains p.1)

/-- Session-side client-state events. -/
inductive SEv
  | put (k : SKey) (v : Bytes)
  | del (k : SKey)
  | delAll (wl : List SKey)
deriving DecidableEq, Repr

def Jar.apply (j : Jar) : SEv → Jar
  | .put k v => j.put k v
  | .del k => j.del k
  | .delAll wl => j.delAll wl

/-- The remember cookie as the browser holds it: the base64-decoded raw token, or
something that does not decode. -/
inductive Cookie
  | raw (b : Bytes)
  | garbage
deriving DecidableEq, Repr

/-- Cookie-side events (only the remember cookie exists). -/
inductive CEv
  | putRm (v : Bytes)     -- a freshly generated raw token
  | delRm
deriving DecidableEq, Repr

def applyC (c : Option Cookie) : CEv → Option Cookie
  | .putRm v => some (.raw v)
  | .delRm => none

/-- Time is an integer number of nanoseconds; Go's zero `time.Time` is "minus infinity". -/
abbrev Time := Int
def zeroTime : Time := -(2 ^ 62 : Int)

structure User where
  pid        : Bytes
  email      : Bytes := []
  pw         : Bytes := []          -- pre-image of the stored bcrypt hash
  confirmed  : Bool := false
  confirmSel : Option Bytes := none -- pre-image halves of the outstanding confirm token
  confirmVer : Option Bytes := none
  attempts   : Int := 0
  lastAttempt : Time := zeroTime
  locked     : Time := zeroTime
  recoverSel : Option Bytes := none
  recoverVer : Option Bytes := none
  recoverExpiry : Time := zeroTime
  otps       : List Bytes := []     -- pre-images, in stored order
  totpSecret : Bytes := []
  totpLast   : Bytes := []
  smsNumber  : Bytes := []
  recCodes   : List Bytes := []     -- pre-images of the stored recovery-code hashes
  oauthUid   : Bytes := []
  oauthProvider : Bytes := []
  arbitrary  : List (Bytes × Bytes) := []
deriving DecidableEq, Repr

/-- Server storage: users (unique by pid) and remember tokens `(pid, raw cookie pre-image)`. -/
structure Store where
  users  : List User := []
  tokens : List (Bytes × Bytes) := []
deriving DecidableEq, Repr

def Store.find (s : Store) (pid : Bytes) : Option User := s.users.find? (·.pid == pid)
def Store.upsert (s : Store) (u : User) : Store :=
  if s.users.any (·.pid == u.pid) then
    { s with users := s.users.map fun x => if x.pid == u.pid then u else x }
  else { s with users := s.users ++ [u] }

/-- Loadable units in load order; event-handler order follows it. -/
inductive Unit
  | auth | otp | lock | confirm | remember | recover | register | logout | oauth2
  | totp | sms | recovery | expire
deriving DecidableEq, Repr

structure Config where
  units        : List Unit
  json         : Bool := false
  lockAfter    : Int := 3
  lockWindow   : Int := 0
  lockDuration : Int := 0
  expireAfter  : Int := 0
  recoverDuration : Int := 0
  recoverLogin : Bool := false
  emailAuth    : Bool := false
  whitelist    : List SKey := []
  oneTime      : Bool := false
  rememberMW   : Bool := true
  expireMW     : Bool := false
  err500       : Bool := false
deriving Repr

def Config.has (c : Config) (u : Unit) : Bool := c.units.contains u

/-- Which backend call fails (index within the request) and how. -/
inductive ErrKind | generic | notFound | tokenNotFound | userFound
deriving DecidableEq, Repr

structure Fault where
  idx : Nat
  kind : ErrKind
deriving DecidableEq, Repr

inductive Page
  | login | otplogin | otpadd | otpclear | register | recoverStart | recoverEnd
  | totpSetup | totpConfirm | totpConfirmSuccess | totpRemove | totpRemoveSuccess | totpValidate
  | smsSetup | smsConfirm | smsConfirmSuccess | smsRemove | smsRemoveSuccess | smsValidate
  | recovery2fa | verify2fa
deriving DecidableEq, Repr

/-- What is written to the client. -/
inductive Resp
  | redirect (loc : Bytes) (ok fail : Option Txt)
  | page (p : Page) (tags : List String)      -- tags: canonical data keys / error texts
  | status (code : Nat)
  | probe                                      -- the protected downstream handler ran
deriving DecidableEq, Repr

/-- Things a handler does, in program order. -/
inductive Act
  | sess (e : SEv)
  | cook (e : CEv)
  | respond (r : Resp)
deriving DecidableEq, Repr

structure Mail where
  to    : List Bytes
  kind  : String          -- confirm | recover | verify
  token : Bytes
deriving DecidableEq, Repr

structure Sms where
  number : Bytes
  code   : Bytes
deriving DecidableEq, Repr

/-- Symbolic log line: a format identifier and the *values* interpolated into it. -/
structure LogLine where
  fmt  : String
  args : List Bytes
deriving DecidableEq, Repr

end AuthbossModel.M
