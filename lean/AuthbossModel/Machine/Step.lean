/-
  Middlewares (`MountedMiddleware2`, `remember.Middleware`, `expire.Middleware`,
  `lock.Middleware`, `confirm.Middleware`), routing, and the top-level `step`.
-/
import AuthbossModel.Machine.Handlers
import AuthbossModel.PathClean
import AuthbossModel.Url

namespace AuthbossModel.M

/-! ### Access middleware (authboss.go: MountedMiddleware2) -/

def hasBit (reqs req : Nat) : Bool := reqs &&& req == req

/-- The redirect target the middleware builds for `RespondRedirect`. -/
def loginRedirect (mountPathed : Bool) (path rawQuery : Bytes) : Bytes :=
  let p := if mountPathed && !mount.isEmpty then PathClean.join2 mount path else path
  let target := if rawQuery.isEmpty then p else p ++ [63] ++ rawQuery
  PathClean.join2 mount (lit "/login?redir=" ++ Url.queryEscape target)

/-- `LoadCurrentUser`: puts pid and user into the request context. -/
def loadCurrentUser : H LoadRes := do
  let c ← get
  match c.ctxUser with
  | some u => pure (.found u)
  | none =>
    let pid ← currentUserID
    if pid.isEmpty then pure .notFound else
    modify fun c => { c with ctxPid := some pid }
    match ← load pid with
    | .found u => setCtxUser u; pure (.found u)
    | r => pure r

def accessMW (mountPathed : Bool) (reqs fail_ : Nat) (path rawQuery : Bytes) (next : H PUnit) : H PUnit := do
  let c ← get
  let refuse : H PUnit :=
    match fail_ with
    | 0 => do logf "not found for unauthorized user at: %s" [path]; status 404
    | 2 => do logf "unauthorized for unauthorized user at: %s" [path]; status 401
    | 1 => do
      logf "redirecting unauthorized user to login from: %s" [path]
      -- a Redirect error is logged, not returned
      swallowErr (redirect (loginRedirect mountPathed path rawQuery) none (some .authFailed))
    | _ => pure ⟨⟩
  if (hasBit reqs 1 && (c.sess.get .halfauth).isSome) || (hasBit reqs 2 && (c.sess.get .twofactor).isNone) then
    refuse
  else
    match ← loadCurrentUser with
    | .notFound => refuse
    | .error => do logf "error fetching current user"; status 500
    | .found _ => next

/-- Module routes behind the middleware use `ResponseOnUnauthed` (0 = 404 by default). -/
def moduleMW (reqs : Nat) (path : Bytes) (next : H PUnit) : H PUnit := do
  accessMW true reqs 0 path (← get).req.rawQuery next

/-! ### remember.Middleware / Authenticate -/

/-- The PID a raw remember token names: everything before the `;` that precedes the
32-byte nonce (remember.go after the `fix:` — split from the end). -/
def rememberPid (raw : Bytes) : Option Bytes :=
  if raw.length < 33 then none else
  let i := raw.length - 33
  if raw[i]? == some 59 then some (raw.take i) else none

/-- `RememberingServerStorer.UseRememberToken`: `some true` = found and consumed,
`some false` = `ErrTokenNotFound`, `none` = other error. -/
def useToken (pid raw : Bytes) : H (Option Bool) := do
  match ← backend with
  | some .tokenNotFound => pure (some false)
  | some _ => pure none
  | none =>
    let c ← get
    if c.store.tokens.contains (pid, raw) then
      modify fun c => { c with store := { c.store with tokens := c.store.tokens.erase (pid, raw) } }
      pure (some true)
    else pure (some false)

def rememberAuthenticate : H PUnit := do
  let c ← get
  match c.rm with
  | none => pure ⟨⟩
  | some .garbage =>
    delRm
    logf "failed to decode remember me cookie, deleting cookie"
  | some (.raw raw) =>
    match rememberPid raw with
    | none =>
      delRm
      logf "failed to decode remember me token, deleting cookie"
    | some pid =>
      match ← useToken pid raw with
      | none => fail "use-token"
      | some false =>
        logf "remember me cookie had a token that was not in storage, deleting cookie"
        delRm
      | some true =>
        let raw' := rememberRaw pid c.req.freshMw
        match ← backend with
        | some _ => fail "failed to save remember me token"
        | none =>
          -- (after the `fix:`) the rest of this request sees the half-auth mark as well
          modify fun c => { c with store := { c.store with tokens := c.store.tokens ++ [(pid, raw')] },
                                   ctxPid := some pid,
                                   sess := c.sess.put .halfauth (lit "true") }
          putS .uid pid
          putS .halfauth (lit "true")
          delRm
          putRm raw'

/-- `remember.Middleware`: errors are logged, the request goes on. -/
def rememberMW : H PUnit := do
  let id ← currentUserID
  if id.isEmpty then
    swallowErr rememberAuthenticate
  else pure ⟨⟩

/-! ### expire.Middleware -/

/-- Seconds value stored in `last_action` (decimal, relative to the epoch). -/
def parseSec (b : Bytes) : Option Int := String.toInt? (Bytes.toStr b)

/-- `timeToExpiry` = 0 ? -/
def expired (c : Ctx) : Bool :=
  match c.sess.get .lastAction with
  | none => false
  | some v =>
    match parseSec v with
    | none => false   -- (the real code panics on an unparsable date; never produced by the library)
    | some sec => decide (sec * 1000000000 + c.cfg.expireAfter - c.now ≤ 0)

def expireMW : H PUnit := do
  let c ← get
  if (c.sess.get .uid).isSome then
    if expired c then
      delAllS c.cfg.whitelist
      delS .uid
      delS .lastAction
      -- hide: ctx pid/user reset, session view restricted to the whitelist
      modify fun c => { c with ctxPid := none, ctxUser := none,
                               sess := c.sess.filter (fun p => c.cfg.whitelist.contains p.1) }
    else refreshExpiry
  else pure ⟨⟩

/-! ### lock.Middleware / confirm.Middleware -/

def lockMW (next : H PUnit) : H PUnit := do
  match ← loadCurrentUser with
  | .found u =>
    let c ← get
    if !Lock.isLocked c.now u.lstate then next else
    logf "user %s prevented from accessing %s: locked" [u.pid]
    swallowErr (redirect root none (some .locked))
  | _ => stop (.panic "LoadCurrentUserP")

def confirmMW (next : H PUnit) : H PUnit := do
  match ← loadCurrentUser with
  | .found u =>
    if u.confirmed then next else
    logf "user %s prevented from accessing %s: not confirmed" [u.pid]
    swallowErr (redirect root none (some .accountNotConfirmed))
  | _ => stop (.panic "LoadCurrentUserP")

/-! ### Routes -/

inductive Route
  | login | otpLogin | otpAdd | otpClear | register | confirm
  | recoverStart | recoverEnd | logout
  | oauth2Start | oauth2End
  | totpGetSetup | totpSetup | totpConfirm | totpRemove | totpValidate
  | smsGetSetup | smsSetup | smsConfirm | smsRemove | smsValidate
  | recoveryRegen
  | verifyStart (sms : Bool) | verifyEnd (sms : Bool)
  | protected_ (reqs fail_ : Nat) (mountPathed : Bool) (path : Bytes)
  | open_ | lockmw | confirmmw | rootmw
  | notFound
deriving DecidableEq, Repr

def probe : H PUnit := act (.respond .probe)

def kindOf (sms : Bool) : Bytes := if sms then lit "sms" else lit "totp"

/-- 2FA routes behind `abmw(emailVerify.Wrap(...))`. -/
def verified (sms : Bool) (path : Bytes) (h : H PUnit) : H PUnit :=
  moduleMW 1 path (do if ← emailVerifyWrap (kindOf sms) then h else pure ⟨⟩)

/-- Is the unit that owns the route loaded? -/
def Route.unit? : Route → Option Unit
  | .login => some .auth
  | .otpLogin | .otpAdd | .otpClear => some .otp
  | .register => some .register | .confirm => some .confirm
  | .recoverStart | .recoverEnd => some .recover
  | .logout => some .logout
  | .oauth2Start | .oauth2End => some .oauth2
  | .totpGetSetup | .totpSetup | .totpConfirm | .totpRemove | .totpValidate => some .totp
  | .smsGetSetup | .smsSetup | .smsConfirm | .smsRemove | .smsValidate => some .sms
  | .recoveryRegen => some .recovery
  | .verifyStart sms | .verifyEnd sms => some (if sms then .sms else .totp)
  | _ => none

def dispatch (rt : Route) : H PUnit := do
  let c ← get
  let loaded := match rt.unit? with | some u => c.cfg.has u | none => true
  if !loaded then status 404 else
  match rt with
  | .login => authLoginPost
  | .otpLogin => otpLoginPost
  | .otpAdd => moduleMW 0 (lit "/otp/add") otpAddPost
  | .otpClear => moduleMW 0 (lit "/otp/clear") otpClearPost
  | .register => registerPost
  | .confirm => confirmGet
  | .recoverStart => recoverStartPost
  | .recoverEnd => recoverEndPost
  | .logout => logoutHandler
  | .oauth2Start => oauth2Start
  | .oauth2End => oauth2End
  | .totpGetSetup => verified false (lit "/2fa/totp/setup") totpGetSetup
  | .totpSetup => verified false (lit "/2fa/totp/setup") totpPostSetup
  | .totpConfirm => verified false (lit "/2fa/totp/confirm") totpPostConfirm
  | .totpRemove => moduleMW 1 (lit "/2fa/totp/remove") totpPostRemove
  | .totpValidate => totpPostValidate
  | .smsGetSetup => verified true (lit "/2fa/sms/setup") smsGetSetup
  | .smsSetup => verified true (lit "/2fa/sms/setup") smsPostSetup
  | .smsConfirm => verified true (lit "/2fa/sms/confirm") (smsPost .confirm)
  | .smsRemove => moduleMW 1 (lit "/2fa/sms/remove") (smsPost .remove)
  | .smsValidate => smsPost .validate
  | .recoveryRegen => moduleMW 1 (lit "/2fa/recovery/regen") recoveryPostRegen
  | .verifyStart sms =>
    if !c.cfg.emailAuth then status 404 else
    moduleMW 1 (lit "/2fa/" ++ kindOf sms ++ lit "/email/verify") emailVerifyPostStart
  | .verifyEnd sms =>
    if !c.cfg.emailAuth then status 404 else
    moduleMW 1 (lit "/2fa/" ++ kindOf sms ++ lit "/email/verify/end")
      (emailVerifyEnd (mount ++ lit "/2fa/" ++ kindOf sms ++ lit "/setup"))
  | .protected_ reqs fail_ mp path => accessMW mp reqs fail_ path c.req.rawQuery probe
  | .open_ => probe
  | .lockmw => lockMW probe
  | .confirmmw => confirmMW probe
  | .rootmw => confirmMW (lockMW probe)
  | .notFound => status 404

/-- The whole stack for one request. -/
def serve (rt : Route) : H PUnit := do
  let c ← get
  if c.cfg.rememberMW && c.cfg.has .remember then rememberMW
  if c.cfg.expireMW then expireMW
  dispatch rt

/-! ### Global state and `step` -/

structure Browser where
  sess : Jar := []
  rm   : Option Cookie := none
deriving Repr

structure State where
  store : Store := {}
  browsers : List (Bytes × Browser) := []
  now : Time := 0
  mail : List Mail := []
  sms : List Sms := []
  log : List LogLine := []
deriving Repr

def State.browser (s : State) (b : Bytes) : Browser :=
  ((s.browsers.find? (·.1 == b)).map (·.2)).getD {}

def State.setBrowser (s : State) (b : Bytes) (br : Browser) : State :=
  { s with browsers := (s.browsers.filter (·.1 != b)) ++ [(b, br)] }

/-- Acts that take effect: everything before the first response write; the response itself
is the first `respond`. -/
def effective (acts : List Act) : List Act := acts.takeWhile (fun a => match a with | .respond _ => false | _ => true)
def firstResp (acts : List Act) : Option Resp := acts.findSome? (fun a => match a with | .respond r => some r | _ => none)

def applyActs (br : Browser) (acts : List Act) : Browser :=
  acts.foldl (fun b a => match a with
    | .sess e => { b with sess := b.sess.apply e }
    | .cook e => { b with rm := applyC b.rm e }
    | .respond _ => b) br

/-- Outcome of a request as the client/harness sees it. -/
structure Outcome where
  resp   : Option Resp       -- none: nothing written
  stop   : Option Stop       -- how the handler chain ended, if early
  ctx    : Ctx
deriving Repr

inductive Op
  | http (b : Bytes) (rt : Route) (req : Req) (fault : Option Fault)
  | advance (d : Int)
  | apiLock (pid : Bytes) | apiUnlock (pid : Bytes)
  | apiUpdatePassword (pid pw : Bytes)
  | setCookie (b : Bytes) (c : Option Cookie)
  | seedUser (u : User)          -- harness shortcut: start from a reachable account state
  | setSess (b : Bytes) (j : Jar) -- harness shortcut: a browser holding this session
deriving Repr

/-- The request context a request of browser `b` starts with (`LoadClientState`). -/
def initCtx (cfg : Config) (s : State) (b : Bytes) (req : Req) (fault : Option Fault) : Ctx :=
  { cfg := cfg, now := s.now, req := req, store := s.store, sess := (s.browser b).sess, rm := (s.browser b).rm,
    fault := fault }

def stepHttp (cfg : Config) (s : State) (b : Bytes) (rt : Route) (req : Req) (fault : Option Fault) : State × Outcome :=
  let br := s.browser b
  let c0 : Ctx := initCtx cfg s b req fault
  let (res, c) := serve rt c0
  let stp := match res with | .ok _ => none | .stop st => some st
  -- an error reaching the ErrorHandler: silent default writes nothing, the 500 handler writes a 500
  let acts := match stp with
    | some (.err _) => if cfg.err500 then c.acts ++ [.respond (.status 500)] else c.acts
    | _ => c.acts
  let eff := effective acts
  -- a panic unwinds before anything is flushed unless a write already happened
  let wrote := (firstResp acts).isSome
  let br' := if wrote then applyActs br eff else br
  let s' := { s with store := c.store, mail := s.mail ++ c.mail, sms := s.sms ++ c.sms, log := s.log ++ c.log }
  (s'.setBrowser b br', { resp := firstResp acts, stop := stp, ctx := c })

def withUser (s : State) (pid : Bytes) (f : User → User) : State :=
  match s.store.find pid with
  | some u => { s with store := s.store.upsert (f u) }
  | none => s

def step (cfg : Config) (s : State) : Op → State × Option Outcome
  | .http b rt req fault => let (s', o) := stepHttp cfg s b rt req fault; (s', some o)
  | .advance d => ({ s with now := s.now + d }, none)
  | .apiLock pid => (withUser s pid fun u => u.withL (Lock.lock (lockCfg cfg) s.now u.lstate), none)
  | .apiUnlock pid => (withUser s pid fun u => u.withL (Lock.unlock (lockCfg cfg) s.now u.lstate), none)
  | .apiUpdatePassword pid pw =>
    (match s.store.find pid with
     | some u => { s with store := { (s.store.upsert { u with pw := pw }) with
                                      tokens := s.store.tokens.filter (·.1 != pid) } }
     | none => s, none)
  | .setCookie b ck => (s.setBrowser b { s.browser b with rm := ck }, none)
  | .seedUser u => ({ s with store := s.store.upsert u }, none)
  | .setSess b j => (s.setBrowser b { s.browser b with sess := j }, none)

def run (cfg : Config) (s : State) (ops : List Op) : State := ops.foldl (fun s op => (step cfg s op).1) s

end AuthbossModel.M
