/-
  Route handlers of every module, transcribed from the Go sources (function named in
  each doc comment).  Body-reader parse errors (malformed bodies) are outside the model:
  the request is already a `Req`.
-/
import AuthbossModel.Machine.Events

namespace AuthbossModel.M

def errTag (t : Txt) : List String := ["error:" ++ t.name]
def valTag (t : Txt) : List String := ["errors:" ++ t.name]

/-- `auth.LoginPost`. -/
def authLoginPost : H PUnit := do
  let c ← get
  let pid := c.req.pid
  match ← load pid with
  | .notFound =>
    logf "failed to load user requested by pid: %s" [pid]
    respond .login (errTag .invalidCredentials)
  | .error => fail "load"
  | .found u =>
    setCtxUser u
    if u.pw.isEmpty || u.pw != c.req.pw then
      if ← fireAfter .authFail then stop .done else
      logf "user %s failed to log in" [pid]
      respond .login (errTag .invalidCredentials)
    else
      modify fun c => { c with values := true, rmValue := c.req.rm }
      if ← fireBefore .auth then stop .done else
      if ← fireBefore .authHijack then stop .done else
      logf "user %s logged in" [pid]
      putS .uid pid
      delS .halfauth
      if ← fireAfter .auth then stop .done else
      redirect root none none true

/-- Swap-remove used by `otp.LoginPost`. -/
def swapRemove (l : List Bytes) (i : Nat) : List Bytes :=
  match l.getLast? with
  | none => l
  | some last => (l.set i last).dropLast

/-- `otp.LoginPost`. -/
def otpLoginPost : H PUnit := do
  let c ← get
  let pid := c.req.pid
  match ← load pid with
  | .notFound =>
    logf "failed to load user requested by pid: %s" [pid]
    respond .otplogin (errTag .invalidCredentials)
  | .error => fail "load"
  | .found u =>
    setCtxUser u
    match u.otps.findIdx? (· == c.req.pw) with
    | none =>
      if ← fireAfter .authFail then stop .done else
      logf "user %s failed to log in with otp" [pid]
      respond .otplogin (errTag .invalidCredentials)
    | some i =>
      logf "removing otp password from %s" [pid]
      let u' := { u with otps := swapRemove u.otps i }
      setCtxUser u'
      if ← save u' then fail "save" else
      modify fun c => { c with values := true, rmValue := c.req.rm }
      if ← fireBefore .auth then stop .done else
      if ← fireBefore .authHijack then stop .done else
      logf "user %s logged in via otp" [pid]
      putS .uid pid
      delS .halfauth
      if ← fireAfter .auth then stop .done else
      redirect root none none true

def maxOTPs : Nat := 5

/-- `otp.AddPost` (behind the access middleware). -/
def otpAddPost : H PUnit := do
  match ← currentUser with
  | .found u =>
    if u.otps.length ≥ maxOTPs then respond .otpadd (valTag .tooManyOTPs) else
    logf "generating otp for %s" [u.pid]
    let c ← get
    let u' := { u with otps := u.otps ++ [c.req.fresh] }
    writeBack u'
    if ← save u' then fail "save" else
    respond .otpadd ["otp"]
  | _ => fail "current-user"

/-- `otp.ClearPost`. -/
def otpClearPost : H PUnit := do
  match ← currentUser with
  | .found u =>
    logf "clearing all otps for user: %s" [u.pid]
    let u' := { u with otps := [] }
    writeBack u'
    if ← save u' then fail "save" else
    respond .otpadd ["otp_count"]
  | _ => fail "current-user"

/-- Default register whitelist (`defaults.NewHTTPBodyReader`). -/
def registerWhitelist : List Bytes := [lit "email"]

/-- `CreatingServerStorer.Create`: `some true` = created, `some false` = `ErrUserFound`,
`none` = other error. -/
def createUser (u : User) : H (Option Bool) := do
  match ← backend with
  | some .userFound => pure (some false)
  | some _ => pure none
  | none =>
    if ((← get).store.find u.pid).isSome then pure (some false) else
    modify fun c => { c with store := c.store.upsert u }
    pure (some true)

/-- `register.Post`. -/
def registerPost : H PUnit := do
  let c ← get
  if !c.req.valid then
    logf "registration validation failed"
    respond .register (valTag .validationFailed ++ ["preserve"])
  else
  let pid := c.req.pid
  if ← hash then fail "hash" else
  let arb := c.req.extra.filter fun kv => registerWhitelist.contains kv.1
  let u : User := { pid := pid, email := pid, pw := c.req.pw, arbitrary := arb }
  match ← createUser u with
  | none => fail "create"
  | some false =>
    logf "user %s attempted to re-register" [pid]
    respond .register (valTag .userAlreadyExists ++ ["preserve"])
  | some true =>
    setCtxUser u
    if ← fireAfter .register then stop .done else
    putS .uid pid
    logf "registered and logged in user %s" [pid]
    redirect root (some .registeredAndLoggedIn) none

def tokenSize : Nat := 64

/-- `confirm.Get`. -/
def confirmGet : H PUnit := do
  let c ← get
  let invalid : H PUnit := redirect root none (some .invalidConfirmToken)
  if !c.req.valid then
    logf "validation failed in Confirm.Get, this typically means a bad token"
    invalid
  else
  match c.req.token with
  | none =>
    logf "error decoding token in Confirm.Get, this typically means a bad token"
    invalid
  | some raw =>
    if raw.length != tokenSize then
      logf "invalid confirm token submitted, size was wrong"
      invalid
    else
    let sel := raw.take 32
    let ver := raw.drop 32
    match ← backend with
    | some .notFound => logf "confirm selector was not found in database"; invalid
    | some _ => fail "load-by-selector"
    | none =>
      match c.store.users.find? (·.confirmSel == some sel) with
      | none => logf "confirm selector was not found in database"; invalid
      | some u =>
        if u.confirmVer != some ver then
          logf "stored confirm verifier does not match provided one"
          invalid
        else
          let u' := { u with confirmSel := none, confirmVer := none, confirmed := true }
          logf "user %s confirmed their account" [u.pid]
          if ← save u' then fail "save" else
          redirect root (some .confirmationSuccess) none

/-- `recover.StartPost`. -/
def recoverStartPost : H PUnit := do
  let c ← get
  if !c.req.valid then
    logf "recover validation failed"
    respond .recoverStart (valTag .validationFailed)
  else
  let pid := c.req.pid
  match ← load pid with
  | .notFound =>
    logf "user %s was attempted to be recovered, user does not exist, faking successful response" [pid]
    redirect root (some .recoverInitiateSuccessFlash) none
  | .error => fail "load"
  | .found u =>
    setCtxUser u
    if ← fireBefore .recoverStart then stop .done else
    let u' := { u with recoverSel := some (c.req.fresh.take 32),
                       recoverVer := some (c.req.fresh.drop 32),
                       recoverExpiry := c.now + c.cfg.recoverDuration }
    setCtxUser u'
    if ← save u' then fail "save" else
    logf "sending recover e-mail to: %s" [u'.email]
    sendMail [u'.email] "recover" c.req.fresh
    let _ ← fireAfter .recoverStart
    logf "user %s password recovery initiated" [pid]
    redirect root (some .recoverInitiateSuccessFlash) none

/-- `recover.EndPost`. -/
def recoverEndPost : H PUnit := do
  let c ← get
  let invalid : H PUnit := respond .recoverEnd (valTag .recoveryTokenInvalid)
  if !c.req.valid then
    logf "recovery validation failed"
    respond .recoverEnd (valTag .validationFailed ++ ["recover_token"])
  else
  match c.req.token with
  | none => logf "invalid recover token submitted, base64 decode failed"; invalid
  | some raw =>
    if raw.length != tokenSize then
      logf "invalid recover token submitted, size was wrong"
      invalid
    else
    let sel := raw.take 32
    let ver := raw.drop 32
    match ← backend with
    | some .notFound => logf "invalid recover token submitted, user not found"; invalid
    | some _ => fail "load-by-selector"
    | none =>
      match c.store.users.find? (·.recoverSel == some sel) with
      | none => logf "invalid recover token submitted, user not found"; invalid
      | some u =>
        if c.now > u.recoverExpiry then
          logf "invalid recover token submitted, already expired"
          invalid
        else if u.recoverVer != some ver then
          logf "stored recover verifier does not match provided one"
          invalid
        else
          setCtxUser u
          if ← fireBefore .recoverEnd then stop .done else
          if ← hash then fail "hash" else
          let u' := { u with pw := c.req.pw, recoverSel := none, recoverVer := none, recoverExpiry := c.now }
          setCtxUser u'
          if ← save u' then fail "save" else
          let _ ← fireAfter .recoverEnd
          if c.cfg.recoverLogin then
            if ← fireBefore .auth then stop .done else
            if ← fireBefore .authHijack then stop .done else
            putS .uid u.pid
            if ← fireAfter .auth then stop .done else
            redirect root (some .recoverAndLoginSuccessMsg) none
          else
            redirect root (some .recoverSuccessMsg) none

/-- `logout.Logout`. -/
def logoutHandler : H PUnit := do
  match ← currentUser with
  | .found u => logf "user %s logged out" [u.pid]
  | _ => logf "user (unknown) logged out"
  if ← fireBefore .logout then stop .done else
  let c ← get
  delAllS c.cfg.whitelist
  delS .uid
  delS .halfauth
  delS .lastAction
  delRm
  if ← fireAfter .logout then stop .done else
  redirect root (some .loggedOut) none

/-- `MakeOAuth2PID`. -/
def makeOAuth2PID (provider uid : Bytes) : Bytes :=
  lit "oauth2;;" ++ provider ++ lit ";;" ++ uid

/-- `oauth2.Start`: the state nonce is `fresh`; pass-along parameters are kept as
`(rm, redir)` (the two the callback interprets) — other parameters only decorate the
final redirect and are not modelled. -/
def oauth2Start : H PUnit := do
  let c ← get
  logf "started oauth2 flow for provider: %s" [c.req.provider]
  putS .oauthState c.req.fresh
  let params : Bytes :=
    (if c.req.rm then lit "rm=true;" else []) ++ (if c.req.redir.isEmpty then [] else lit "redir=" ++ c.req.redir)
  if params.isEmpty && !c.req.rmOther then delS .oauthParams else putS .oauthParams params
  -- `Redirector.Redirect` with the provider's URL (no `redir` following; API mode renders JSON)
  if c.cfg.json then
    if ← render then fail "render" else act (.respond (.redirect (lit "provider") none none))
  else
    act (.respond (.redirect (lit "provider") none none))

/-- `oauth2.End`. -/
def oauth2End : H PUnit := do
  let c ← get
  let provider := c.req.provider
  logf "finishing oauth2 flow for provider: %s" [provider]
  match c.sess.get .oauthState with
  | none => fail "oauth2 endpoint hit without session state"
  | some want =>
    if c.req.state != want then fail "could not validate oauth2 state param" else
    let params := (c.sess.get .oauthParams).getD []
    let wantRm := (lit "rm=true;").isPrefixOf params
    let redirP : Bytes :=
      let p := if wantRm then params.drop 8 else params
      if (lit "redir=").isPrefixOf p then p.drop 6 else []
    delS .oauthState
    delS .oauthParams
    if !c.req.oerr.isEmpty then
      logf "oauth2 login failed: %s, reason: %s" [c.req.oerr]
      if ← fireAfter .oauth2Fail then stop .done else
      redirect root none (some .oauth2LoginNotOK)
    else
    -- exchange + FindUserDetails
    match ← backend with
    | some _ => fail "exchange"
    | none =>
    match c.req.provUid with
    | none => fail "could not validate oauth2 code"
    | some puid =>
    match ← backend with
    | some _ => fail "find-user-details"
    | none =>
    -- NewFromOAuth2
    match ← backend with
    | some _ => fail "new-from-oauth2"
    | none =>
    let pid := makeOAuth2PID provider puid
    let base : User := match c.store.find pid with
      | some u => u
      | none => { pid := pid, email := puid ++ lit "@oauth.test", oauthUid := puid, confirmed := true }
    let u := { base with oauthUid := puid, oauthProvider := provider }
    -- SaveOAuth2
    match ← backend with
    | some _ => fail "save-oauth2"
    | none =>
    modify fun c => { c with store := c.store.upsert u }
    setCtxUser u
    if ← fireBefore .oauth2 then stop .done else
    putS .uid (makeOAuth2PID provider u.oauthUid)
    delS .halfauth
    if wantRm then modify fun c => { c with values := true, rmValue := true }
    if ← fireAfter .oauth2 then stop .done else
    let target := if Redirect.guard redirP then redirP else root
    redirect target (some .oauth2LoginOK) none

/-! ### Two-factor -/

/-- `twofactor.UseRecoveryCode` on the decoded list: remove the first match. -/
def useRecoveryCode (codes : List Bytes) (input : Bytes) : Option (List Bytes) :=
  match codes.findIdx? (· == input) with
  | none => none
  | some i => some (codes.eraseIdx i)

/-- The pending-or-current user of a second-factor request (`validate` / `SMSValidator.Post`). -/
def tfaUser (pendingKey : SKey) : H LoadRes := do
  match ← currentUser with
  | .notFound =>
    let c ← get
    match c.sess.get pendingKey with
    | some pid => if pid.isEmpty then pure .notFound else load pid
    | none => pure .notFound
  | r => pure r

inductive TotpStatus | success | invalid | repeated
deriving DecidableEq

/-- `totp2fa.validate`: returns the (possibly mutated) user and the status. -/
def totpValidate : H (Option (User × TotpStatus)) := do
  match ← tfaUser .totpPending with
  | .found u =>
    if u.totpSecret.isEmpty then pure none else
    let c ← get
    if !c.req.rcode.isEmpty then
      match useRecoveryCode u.recCodes c.req.rcode with
      | some rest =>
        logf "user %s used recovery code instead of sms2fa" [u.pid]
        let u' := { u with recCodes := rest }
        writeBack u'
        if ← save u' then fail "save" else pure (some (u', .success))
      | none => pure (some (u, .invalid))
    else
      if c.cfg.oneTime && u.totpLast == c.req.code then pure (some (u, .repeated)) else
      let u' := if c.cfg.oneTime then { u with totpLast := c.req.code } else u
      writeBack u'
      if !c.req.totpOk.contains u.totpSecret then pure (some (u', .invalid)) else
      pure (some (u', .success))
  | _ => fail "current-user"

def statusTag : TotpStatus → List String
  | .success => [] | .invalid => valTag .invalid2FACode | .repeated => valTag .repeated2FACode

/-- `totp2fa.PostValidate`. -/
def totpPostValidate : H PUnit := do
  match ← totpValidate with
  | none =>
    logf "user %s totp failure (not enabled)"
    respond .totpValidate (errTag .totp2FANotActive)
  | some (u, st) =>
    if st != .success then
      setCtxUser u
      if ← fireAfter .authFail then stop .done else
      logf "user %s totp 2fa failure (%s)" [u.pid]
      respond .totpValidate (statusTag st)
    else
      let c ← get
      if c.cfg.oneTime then (if ← save u then fail "save" else pure ⟨⟩)
      setCtxUser u
      if ← fireBefore .auth then stop .done else
      putS .uid u.pid
      putS .twofactor (lit "totp")
      delS .halfauth
      delS .totpPending
      delS .totpSecret
      logf "user %s totp 2fa success" [u.pid]
      setCtxUser u
      if ← fireAfter .auth then stop .done else
      redirect root none none true

/-- `totp2fa.PostSetup`: the generated secret is `fresh`. -/
def totpPostSetup : H PUnit := do
  match ← currentUser with
  | .found _ =>
    let c ← get
    putS .totpSecret c.req.fresh
    redirect (mount ++ lit "/2fa/totp/confirm")
  | _ => fail "current-user"

/-- `totp2fa.GetSetup`. -/
def totpGetSetup : H PUnit := do
  delS .totpSecret
  respond .totpSetup

/-- `totp2fa.PostConfirm`. -/
def totpPostConfirm : H PUnit := do
  match ← currentUser with
  | .found u =>
    let c ← get
    match c.sess.get .totpSecret with
    | none => fail "request failed, no totp secret present in session"
    | some secret =>
      if !c.req.totpOk.contains secret then respond .totpConfirm (valTag .invalid2FACode ++ ["totp_secret"]) else
      let u' := { u with totpSecret := secret, recCodes := c.req.fresh2,
                         totpLast := if c.cfg.oneTime then c.req.code else u.totpLast }
      writeBack u'
      if ← save u' then fail "save" else
      delS .totpSecret
      delS .tfaAuthed
      logf "user %s enabled totp 2fa" [u.pid]
      setCtxUser u'
      if ← fireAfter .tfaAdded then stop .done else
      respond .totpConfirmSuccess ["recovery_codes"]
  | _ => fail "current-user"

/-- `totp2fa.PostRemove`. -/
def totpPostRemove : H PUnit := do
  match ← totpValidate with
  | none => respond .totpRemove (errTag .totp2FANotActive)
  | some (u, st) =>
    if st != .success then
      logf "user %s totp 2fa removal failure (%s)" [u.pid]
      respond .totpRemove (statusTag st)
    else
      delS .twofactor
      let u' := { u with totpSecret := [] }
      writeBack u'
      if ← save u' then fail "save" else
      logf "user %s disabled totp 2fa" [u.pid]
      setCtxUser u'
      if ← fireAfter .tfaRemoved then stop .done else
      respond .totpRemoveSuccess

inductive SmsPage | confirm | remove | validate
deriving DecidableEq

def SmsPage.page : SmsPage → Page
  | .confirm => .smsConfirm | .remove => .smsRemove | .validate => .smsValidate
def SmsPage.success : SmsPage → Page
  | .confirm => .smsConfirmSuccess | .remove => .smsRemoveSuccess | .validate => .smsValidate

/-- `sms2fa.GetSetup`. -/
def smsGetSetup : H PUnit := do
  match ← currentUser with
  | .found _ =>
    delS .smsSecret
    delS .smsNumber
    respond .smsSetup
  | _ => fail "current-user"

/-- `sms2fa.PostSetup`. -/
def smsPostSetup : H PUnit := do
  match ← currentUser with
  | .found u =>
    let c ← get
    if c.req.phone.isEmpty then respond .smsSetup (valTag .smsNumberRequired) else
    putS .smsNumber c.req.phone
    match ← smsSendCode u.pid c.req.phone with
    | .sent => redirect (mount ++ lit "/2fa/sms/confirm")
    | _ => fail "send-code"
  | _ => fail "current-user"

/-- `SMSValidator.sendCode`. -/
def smsSendCodePage (pg : SmsPage) (u : User) : H PUnit := do
  let c ← get
  let number? : Option Bytes :=
    match pg with
    | .confirm => c.sess.get .smsNumber
    | _ => some u.smsNumber
  match number? with
  | none => fail "request failed, no sms number present in session"
  | some number =>
    if number.isEmpty then fail "no phone number was available" else
    match ← smsSendCode u.pid number with
    | .rateLimited => respond pg.page (errTag .smsWaitToResend)
    | .sent => respond pg.page
    | _ => fail "send-code"

/-- The verification part of `SMSValidator.validateCode`: recovery code (consumed and saved)
or the code held in the session. -/
def smsVerdict (pg : SmsPage) (u : User) : H (User × Bool) := do
  let c ← get
  let useRec := !c.req.rcode.isEmpty && pg != .confirm
  if useRec then
    match useRecoveryCode u.recCodes c.req.rcode with
    | some rest =>
      logf "user %s used recovery code instead of sms2fa" [u.pid]
      let u' := { u with recCodes := rest }
      writeBack u'
      if ← save u' then fail "save" else pure (u', true)
    | none => pure (u, false)
  else
    match c.sess.get .smsSecret with
    | none => fail "no code in session"
    | some code => if code.isEmpty then fail "no code in session" else pure (u, c.req.code == code)

/-- `SMSValidator.validateCode`. -/
def smsValidateCode (pg : SmsPage) (u : User) : H PUnit := do
  let c ← get
  let verdict ← smsVerdict pg u
  let (u, verified) := verdict
  if !verified then
    setCtxUser u
    if ← fireAfter .authFail then stop .done else
    logf "user %s sms 2fa failure (wrong code)" [u.pid]
    respond pg.page (valTag .invalid2FACode)
  else
  match pg with
  | .confirm =>
    match c.sess.get .smsNumber with
    | none => fail "request failed, no sms number present in session"
    | some number =>
      let u' := { u with smsNumber := number, recCodes := c.req.fresh2 }
      writeBack u'
      if ← save u' then fail "save" else
      delS .tfaAuthed
      delS .smsSecret
      delS .smsNumber
      logf "user %s enabled sms 2fa" [u.pid]
      setCtxUser u'
      if ← fireAfter .tfaAdded then stop .done else
      respond .smsConfirmSuccess ["recovery_codes"]
  | .remove =>
    let u' := { u with smsNumber := [] }
    writeBack u'
    if ← save u' then fail "save" else
    delS .twofactor
    setCtxUser u'
    if ← fireAfter .tfaRemoved then stop .done else
    logf "user %s disabled sms 2fa" [u.pid]
    respond .smsRemoveSuccess
  | .validate =>
    setCtxUser u
    if ← fireBefore .auth then stop .done else
    putS .uid u.pid
    putS .twofactor (lit "sms")
    delS .halfauth
    delS .smsPending
    delS .smsSecret
    logf "user %s sms 2fa success" [u.pid]
    setCtxUser u
    if ← fireAfter .auth then stop .done else
    redirect root none none true

/-- `SMSValidator.Post`. -/
def smsPost (pg : SmsPage) : H PUnit := do
  match ← tfaUser .smsPending with
  | .found u =>
    let c ← get
    let rcode := if pg == .confirm then [] else c.req.rcode
    if rcode.isEmpty && c.req.code.isEmpty then smsSendCodePage pg u else
    smsValidateCode pg u
  | _ => fail "current-user"

/-- `twofactor.Recovery.PostRegen`. -/
def recoveryPostRegen : H PUnit := do
  match ← currentUser with
  | .found u =>
    let c ← get
    let u' := { u with recCodes := c.req.fresh2 }
    writeBack u'
    if ← save u' then fail "save" else
    respond .recovery2fa ["recovery_codes"]
  | _ => fail "current-user"

/-- `EmailVerify.PostStart`. -/
def emailVerifyPostStart : H PUnit := do
  match ← currentUser with
  | .found u =>
    let c ← get
    putS .tfaToken c.req.fresh
    logf "generated new 2fa e-mail verify token for user: %s" [u.pid]
    logf "sending add 2fa verification e-mail to: %s" [u.email]
    sendMail [u.email] "verify" c.req.fresh
    redirect root (some .emailVerifyTriggered) none
  | _ => fail "current-user"

/-- `EmailVerify.End`. -/
def emailVerifyEnd (setupPath : Bytes) : H PUnit := do
  let c ← get
  let given := (c.sess.get .tfaToken).getD []
  if given.isEmpty || c.req.tokenRaw != given then
    redirect root none (some .invalid2FAVerificationToken)
  else
    delS .tfaToken
    putS .tfaAuthed (lit "true")
    redirect setupPath

/-- `EmailVerify.Wrap`: `true` = the wrapped handler may run. -/
def emailVerifyWrap (kind : Bytes) : H Bool := do
  let c ← get
  if !c.cfg.emailAuth then pure true else
  if c.sess.get .tfaAuthed == some (lit "true") then pure true else
  -- (a redirect that fails is logged; the wrapped handler does not run and nothing is written)
  swallowErr (redirect (mount ++ lit "/2fa/" ++ kind ++ lit "/email/verify") none (some .tfaAuthorizationRequired))
  pure false

end AuthbossModel.M
