/-
  `events.go` and every event handler any unit registers (`lock`, `confirm`, `remember`,
  `expire`, `totp2fa`, `sms2fa`).  Handler order = unit load order.
-/
import AuthbossModel.Machine.Monad
import AuthbossModel.Lock

namespace AuthbossModel.M

def root : Bytes := lit "/"
def mount : Bytes := lit "/auth"

inductive Ev
  | register | auth | authHijack | oauth2 | authFail | oauth2Fail
  | recoverStart | recoverEnd | logout | tfaAdded | tfaRemoved
deriving DecidableEq, Repr

/-- An event handler: receives `handled`, returns `interrupt`. -/
abbrev EvHandler := Bool → H Bool

def decStr (n : Int) : Bytes := lit (toString n)

/-- Whole seconds of a timestamp (`Unix()` / RFC3339 formatting), relative to the epoch. -/
def floorSec (t : Time) : Int := t / 1000000000

/-- `Authboss.Email`: render html, render text, send.  Failures are only logged. -/
def sendMail (to : List Bytes) (kind : String) (token : Bytes) : H PUnit := do
  if ← render then logf "mail-failed" else
  if ← render then logf "mail-failed" else
  match ← backend with
  | some _ => logf "mail-failed"
  | none => modify fun c => { c with mail := c.mail ++ [⟨to, kind, token⟩] }

/-- Mutating the user that `CurrentUser` returned: visible to later handlers only if it
was the context object. -/
def writeBack (u : User) : H PUnit :=
  modify fun c => match c.ctxUser with
    | some _ => { c with ctxUser := some u }
    | none => c

def lockCfg (c : Config) : Lock.LCfg := ⟨c.lockAfter, c.lockWindow, c.lockDuration⟩
def User.lstate (u : User) : Lock.LState := ⟨u.attempts, u.lastAttempt, u.locked⟩
def User.withL (u : User) (s : Lock.LState) : User :=
  { u with attempts := s.attempts, lastAttempt := s.last, locked := s.locked }

/-- `lock.updateLockedState`. -/
def lockUpdate (wasCorrect : Bool) : EvHandler := fun _ => do
  match ← currentUser with
  | .found u =>
    let c ← get
    let u' := u.withL (Lock.update (lockCfg c.cfg) c.now wasCorrect u.lstate)
    writeBack u'
    if ← save u' then fail "save" else
    if !Lock.isLocked c.now u'.lstate then pure false else
    redirect root none (some .locked)
    pure true
  | _ => fail "current-user"

/-- `lock.AfterAuthSuccess`. -/
def lockSuccess : EvHandler := fun _ => do
  match ← currentUser with
  | .found u =>
    let c ← get
    let u' := u.withL (Lock.success c.now u.lstate)
    writeBack u'
    if ← save u' then fail "save" else pure false
  | _ => fail "current-user"

/-- `confirm.PreventAuth`. -/
def confirmPrevent : EvHandler := fun _ => do
  match ← currentUser with
  | .found u =>
    if u.confirmed then
      logf "user %s is confirmed, allowing auth" [u.pid]
      pure false
    else
      logf "user %s was not confirmed, preventing auth" [u.pid]
      redirect root none (some .accountNotConfirmed)
      pure true
  | _ => fail "current-user"

/-- `confirm.StartConfirmation`: new selector/verifier from 64 fresh bytes, save, mail. -/
def startConfirmation (u : User) : H User := do
  let c ← get
  let u' := { u with confirmed := false,
                     confirmSel := some (c.req.fresh.take 32),
                     confirmVer := some (c.req.fresh.drop 32) }
  writeBack u'
  logf "generated new confirm token for user: %s" [u.pid]
  if ← save u' then fail "save" else
  logf "sending confirm e-mail to: %s" [u'.email]
  sendMail [u'.email] "confirm" c.req.fresh
  pure u'

/-- `confirm.StartConfirmationWeb`. -/
def confirmStartWeb : EvHandler := fun _ => do
  match ← currentUser with
  | .found u =>
    let _ ← startConfirmation u
    redirect root (some .confirmYourAccount) none
    pure true
  | _ => fail "current-user"

/-- `remember.GenerateToken`: raw = pid ; nonce. -/
def rememberRaw (pid nonce : Bytes) : Bytes := pid ++ [59] ++ nonce

/-- `remember.RememberAfterAuth`. -/
def rememberAfterAuth : EvHandler := fun _ => do
  let c ← get
  if !c.values then pure false else
  if !c.rmValue then pure false else
  match ← currentUser with
  | .found u =>
    let raw := rememberRaw u.pid c.req.fresh
    match ← backend with
    | some _ => fail "add-token"
    | none =>
      modify fun c => { c with store := { c.store with tokens := c.store.tokens ++ [(u.pid, raw)] } }
      putRm raw
      pure false
  | _ => stop (.panic "CurrentUserP")

/-- `remember.AfterPasswordReset`. -/
def rememberAfterReset : EvHandler := fun _ => do
  match ← currentUser with
  | .found u =>
    delRm
    logf "deleting tokens and rm cookies for user %s due to password reset" [u.pid]
    match ← backend with
    | some _ => fail "del-tokens"
    | none =>
      modify fun c => { c with store := { c.store with tokens := c.store.tokens.filter (·.1 != u.pid) } }
      pure false
  | _ => fail "current-user"

/-- `expire.refreshExpiry`. -/
def refreshExpiry : H PUnit := do
  let c ← get
  putS .lastAction (decStr (floorSec c.now))

def expireAfterAuth : EvHandler := fun _ => do refreshExpiry; pure false

/-- `totp2fa.HijackAuth`. -/
def totpHijack : EvHandler := fun handled => do
  if handled then pure false else
  let c ← get
  match c.ctxUser with
  | none => stop (.panic "nil user in context")
  | some u =>
    if u.totpSecret.isEmpty then pure false else
    putS .totpPending u.pid
    let q := if c.req.rawQuery.isEmpty then [] else [63] ++ c.req.rawQuery
    redirect (mount ++ lit "/2fa/totp/validate" ++ q)
    pure true

inductive SendRes | sent | rateLimited | badPhone | err
deriving DecidableEq

/-- `sms2fa.SendCodeToUser`. -/
def smsSendCode (pid number : Bytes) : H SendRes := do
  let c ← get
  if number.isEmpty then pure .badPhone else
  let suppress :=
    match c.sess.get .smsLast with
    | some l => decide (floorSec c.now - (String.toInt? (Bytes.toStr l)).getD 0 < 10)
    | none => false
  if suppress then
    logf "rate-limited sms for %s to %s" [pid, number]
    pure .rateLimited
  else
    putS .smsLast (decStr (floorSec c.now))
    putS .smsSecret c.req.fresh
    logf "sending sms for %s to %s" [pid, number]
    match ← backend with
    | some _ => logf "failed to send sms for %s to %s" [pid, number]; pure .err
    | none =>
      modify fun c => { c with sms := c.sms ++ [⟨number, c.req.fresh⟩] }
      pure .sent

/-- `sms2fa.HijackAuth`. -/
def smsHijack : EvHandler := fun handled => do
  if handled then pure false else
  let c ← get
  match c.ctxUser with
  | none => stop (.panic "nil user in context")
  | some u =>
    if u.smsNumber.isEmpty then pure false else
    putS .smsPending u.pid
    match ← smsSendCode u.pid u.smsNumber with
    | .err | .badPhone => fail "sms-send"
    | _ =>
      let q := if c.req.rawQuery.isEmpty then [] else [63] ++ c.req.rawQuery
      redirect (mount ++ lit "/2fa/sms/validate" ++ q)
      pure true

/-- What each unit registers, per event, in the order of its `Init`/`Setup`. -/
def Unit.before (u : Unit) (e : Ev) : List EvHandler :=
  match u, e with
  | .lock, .auth => [lockUpdate true]
  | .lock, .oauth2 => [lockUpdate true]
  | .confirm, .auth => [confirmPrevent]
  | .totp, .authHijack => [totpHijack]
  | .sms, .authHijack => [smsHijack]
  | _, _ => []

def Unit.after (u : Unit) (e : Ev) : List EvHandler :=
  match u, e with
  | .lock, .auth => [lockSuccess]
  | .lock, .authFail => [lockUpdate false]
  | .confirm, .register => [confirmStartWeb]
  | .remember, .auth => [rememberAfterAuth]
  | .remember, .oauth2 => [rememberAfterAuth]
  | .remember, .recoverEnd => [rememberAfterReset]
  | .expire, .auth => [expireAfterAuth]
  | .expire, .oauth2 => [expireAfterAuth]       -- (after the `fix:`: the OAuth2 callback and the
  | .expire, .register => [expireAfterAuth]     --  registration login start the idle clock too)
  | _, _ => []

/-- `Events.call`: every handler runs (no short-circuit on `handled`), an error stops. -/
def callHandlers : List EvHandler → Bool → H Bool
  | [], handled => pure handled
  | h :: hs, handled => do
    let interrupt ← h handled
    callHandlers hs (handled || interrupt)

def fireBefore (e : Ev) : H Bool := do
  let c ← get
  callHandlers (c.cfg.units.flatMap (·.before e)) false

def fireAfter (e : Ev) : H Bool := do
  let c ← get
  callHandlers (c.cfg.units.flatMap (·.after e)) false

end AuthbossModel.M
