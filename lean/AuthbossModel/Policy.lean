/-
  `defaults.Rules.Errors` / `IsValid` (defaults/rules.go) and the confirm-field check of
  `HTTPFormValidator.Validate` (defaults/validation.go).

  The unicode classification of each rune (`unicode.IsLetter/IsUpper/IsDigit/IsSpace`), the
  regular expressions (`MustMatch`, the blank test) and the byte length are inputs: the
  harness computes them with the real stdlib.
-/
import AuthbossModel.Basic

namespace AuthbossModel.Policy

/-- `tallyCharacters`' case analysis for one rune. -/
inductive CharClass | upper | lower | digit | space | symbol
deriving DecidableEq, Repr

structure Rule where
  required   : Bool := false
  hasMatch   : Bool := false       -- MustMatch != nil
  minLength  : Int := 0
  maxLength  : Int := 0
  minLetters : Int := 0
  minLower   : Int := 0
  minUpper   : Int := 0
  minNumeric : Int := 0
  minSymbols : Int := 0
  allowWs    : Bool := false
deriving DecidableEq, Repr

structure Tally where
  upper : Int := 0
  lower : Int := 0
  numeric : Int := 0
  symbols : Int := 0
  ws : Int := 0
deriving DecidableEq, Repr

def tally : List CharClass → Tally
  | [] => {}
  | c :: rest =>
    let t := tally rest
    match c with
    | .upper => { t with upper := t.upper + 1 }
    | .lower => { t with lower := t.lower + 1 }
    | .digit => { t with numeric := t.numeric + 1 }
    | .space => { t with ws := t.ws + 1 }
    | .symbol => { t with symbols := t.symbols + 1 }

inductive Err | blank | match_ | length | letters | upper | lower | numeric | symbols | whitespace
deriving DecidableEq, Repr

/-- `Rules.Errors`: `ln` = byte length, `blank` = the blank regexp matched, `matchOk` = the
`MustMatch` regexp matched, `cls` = classes of the runes. -/
def errors (r : Rule) (ln : Int) (blank matchOk : Bool) (cls : List CharClass) : List Err :=
  if r.required && (ln == 0 || blank) then [.blank] else
  let t := tally cls
  (if r.hasMatch && !matchOk then [.match_] else []) ++
  (if (r.minLength > 0 && ln < r.minLength) || (r.maxLength > 0 && ln > r.maxLength) then [.length] else []) ++
  (if t.upper + t.lower < r.minLetters then [.letters] else []) ++
  (if t.upper < r.minUpper then [.upper] else []) ++
  (if t.lower < r.minLower then [.lower] else []) ++
  (if t.numeric < r.minNumeric then [.numeric] else []) ++
  (if t.symbols < r.minSymbols then [.symbols] else []) ++
  (if !r.allowWs && t.ws > 0 then [.whitespace] else [])

def isValid (r : Rule) (ln : Int) (blank matchOk : Bool) (cls : List CharClass) : Bool :=
  (errors r ln blank matchOk cls).isEmpty

/-- The confirm-field check: an error iff the main field is non-empty and the confirm field
is empty or different. -/
def confirmErr (main confirm : Bytes) : Bool :=
  if main.isEmpty then false else confirm.isEmpty || main != confirm

end AuthbossModel.Policy
