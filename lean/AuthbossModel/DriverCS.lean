import AuthbossModel.ClientState
import AuthbossModel.Wire
namespace AuthbossModel.CS
open AuthbossModel.Wire

def parseOp (t : String) : Option HOp :=
  match t.splitOn ":" with
  | ["ps", k, v] => do pure (.put .session (← fromHex k) (← fromHex v))
  | ["pc", k, v] => do pure (.put .cookie (← fromHex k) (← fromHex v))
  | ["ds", k] => do pure (.del .session (← fromHex k))
  | ["dc", k] => do pure (.del .cookie (← fromHex k))
  | ["da", wl] => do pure (.delAll (← fromHex wl))
  | ["wh", c] => do pure (.writeHeader (← c.toNat?))
  | ["w", b] => do pure (.write (← fromHex b))
  | _ => none

def showEv (e : Ev) : String :=
  match e.kind with
  | .put => s!"p:{toHex e.key}:{toHex e.val}"
  | .del => s!"d:{toHex e.key}"
  | .delAll => s!"a:{toHex e.key}"

def showOut : Out → String
  | .call .session evs => "S[" ++ ",".intercalate (evs.map showEv) ++ "]"
  | .call .cookie evs => "C[" ++ ",".intercalate (evs.map showEv) ++ "]"
  | .header c => s!"hdr:{c}"
  | .body b => s!"body:{toHex b}"
  | .writeErr => "werr"
  | .panic => "panic"

/-- `csrw sr cr sf cf op...` -/
def handle (args : List String) : String :=
  match args with
  | sr :: cr :: sf :: cf :: ops =>
    match ops.mapM parseOp with
    | some p =>
      let c : Cfg := { sessRW := tokBool sr, cookRW := tokBool cr, sessFail := tokBool sf, cookFail := tokBool cf }
      " ".intercalate ((run c p).out.map showOut)
    | none => "bad-op"
  | _ => "bad-op"

end AuthbossModel.CS
