import AuthbossModel.Policy
import AuthbossModel.Wire
namespace AuthbossModel.Policy
open AuthbossModel.Wire

def clsOf : Char → Option CharClass
  | 'U' => some .upper | 'L' => some .lower | 'D' => some .digit | 'S' => some .space | 'Y' => some .symbol
  | _ => none

def errName : Err → String
  | .blank => "blank" | .match_ => "match" | .length => "length" | .letters => "letters" | .upper => "upper"
  | .lower => "lower" | .numeric => "numeric" | .symbols => "symbols" | .whitespace => "ws"

/-- `rules req hasMatch minLen maxLen minLetters minLower minUpper minNumeric minSymbols allowWs ln blank matchOk classes` -/
def handle (args : List String) : String :=
  match args with
  | [req, hm, a, b, c, d, e, f, g, ws, ln, blank, mok, cls] =>
    let i := fun (s : String) => s.toInt?.getD 0
    let r : Rule := { required := tokBool req, hasMatch := tokBool hm, minLength := i a, maxLength := i b, minLetters := i c,
                      minLower := i d, minUpper := i e, minNumeric := i f, minSymbols := i g, allowWs := tokBool ws }
    let classes := (if cls == "-" then [] else cls.toList).filterMap clsOf
    let es := errors r (i ln) (tokBool blank) (tokBool mok) classes
    if es.isEmpty then "ok" else ",".intercalate (es.map errName)
  | [m, c] => -- confirm check
    match fromHex m, fromHex c with
    | some mm, some cc => boolTok (confirmErr mm cc)
    | _, _ => "bad-op"
  | _ => "bad-op"
end AuthbossModel.Policy
