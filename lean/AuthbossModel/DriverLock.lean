import AuthbossModel.Lock
import AuthbossModel.Wire
namespace AuthbossModel.Lock
open AuthbossModel.M

def showT (t : Int) : String := if t == zeroTime then "z" else toString t

def showState (now : Int) (s : LState) : String :=
  s!"{s.attempts},{showT s.last},{showT s.locked},{if isLocked now s then 1 else 0}"

/-- `lock after window duration op…`; op = kind letter followed by the gap (ns) since the previous op. -/
def handle (args : List String) : String :=
  match args with
  | a :: w :: d :: ops =>
    let c : LCfg := ⟨a.toInt?.getD 0, w.toInt?.getD 0, d.toInt?.getD 0⟩
    let step := fun (acc : Int × LState × List String) (o : String) =>
      let (now, s, out) := acc
      let now' := now + ((o.drop 1).toString.toInt?.getD 0)
      let s' := match o.front with
        | 'f' => update c now' false s
        | 's' => success now' s
        | 'c' => update c now' true s
        | 'L' => lock c now' s
        | 'U' => unlock c now' s
        | _ => s
      (now', s', out ++ [showState now' s'])
    " ".intercalate (ops.foldl step (0, {}, [])).2.2
  | _ => "bad-op"
end AuthbossModel.Lock
