/-
  Open-redirect guard (defaults/responder.go, oauth2/oauth2.go: `isSameSiteRedirect`),
  what `net/http.Redirect` puts into `Location`, and the browser-side specification of
  "resolves to another origin".
-/
import AuthbossModel.PathClean

namespace AuthbossModel.Redirect
open AuthbossModel.PathClean

def containsSchemeSep : Bytes → Bool
  | [] => false
  | 58 :: 47 :: 47 :: _ => true
  | _ :: t => containsSchemeSep t

/-- Bytes the guard refuses anywhere in the value: C0 controls and space (≤ 0x20), DEL, backslash. -/
def badByte (c : UInt8) : Bool := c ≤ 32 || c == 127 || c == 92

/-- `isSameSiteRedirect`. -/
def guard (v : Bytes) : Bool :=
  match v with
  | [] => false
  | c0 :: rest =>
    c0 == 47 &&
    (match rest with
     | c1 :: _ => !(c1 == 47 || c1 == 92)
     | [] => true) &&
    !(v.any badByte) && !containsSchemeSep v

/-- Split at the first `?`. -/
def splitQuery : Bytes → Bytes × Bytes
  | [] => ([], [])
  | c :: rest => if c == 63 then ([], c :: rest) else (c :: (splitQuery rest).1, (splitQuery rest).2)

/-- `http.Redirect`'s rewriting of a target that starts with `/` (so no directory of the
request path is prepended): clean the path part, keep a trailing slash, re-append the query.
`relative = false` models the branches in which `net/url` either failed to parse the value or
found a scheme/host in it: the value is used verbatim. -/
def goRedirect (v : Bytes) (relative : Bool) : Bytes :=
  if !relative then v else
  let (p, q) := splitQuery v
  let trailing := p.getLast? == some 47
  let cp := clean p
  let cp := if trailing && cp.getLast? != some 47 then cp ++ [47] else cp
  cp ++ q

/-! ### Browser side (WHATWG URL, restricted to what decides same-origin vs not;
conservative: anything not clearly same-site counts as off-site) -/

def isAlpha (c : UInt8) : Bool := (65 ≤ c && c ≤ 90) || (97 ≤ c && c ≤ 122)
def isSchemeChar (c : UInt8) : Bool := isAlpha c || (48 ≤ c && c ≤ 57) || c == 43 || c == 45 || c == 46

/-- Browsers strip leading/trailing C0-control-or-space and remove every TAB / LF / CR. -/
def preprocess (v : Bytes) : Bytes :=
  let v := v.dropWhile (· ≤ 32)
  let v := (v.reverse.dropWhile (· ≤ 32)).reverse
  v.filter (fun c => !(c == 9 || c == 10 || c == 13))

/-- `alpha (alnum | + | - | .)* ':'` prefix. -/
def hasSchemeAux : Bytes → Bool
  | [] => false
  | c :: rest => if c == 58 then true else if isSchemeChar c then hasSchemeAux rest else false

def hasScheme : Bytes → Bool
  | [] => false
  | c :: rest => isAlpha c && hasSchemeAux rest

def isSlashish (c : UInt8) : Bool := c == 47 || c == 92

/-- Off-site: after preprocessing the reference has a scheme, or starts with two slash-like
characters (`//host`, `/\host`, `\/host`, `\\host`). -/
def offSite (v : Bytes) : Bool :=
  let w := preprocess v
  hasScheme w ||
  (match w with
   | a :: b :: _ => isSlashish a && isSlashish b
   | _ => false)

end AuthbossModel.Redirect
