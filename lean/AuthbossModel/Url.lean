/-
  `net/url` query escaping (Go: `url.QueryEscape` / `url.QueryUnescape`) on byte strings.
-/
import AuthbossModel.Basic

namespace AuthbossModel.Url

/-- Bytes `QueryEscape` leaves alone: ALPHA / DIGIT / `-` `_` `.` `~`. -/
def unreserved (b : UInt8) : Bool :=
  (65 ≤ b && b ≤ 90) || (97 ≤ b && b ≤ 122) || (48 ≤ b && b ≤ 57) ||
  b == 45 || b == 95 || b == 46 || b == 126

/-- Upper-case hex digit of a nibble. -/
def hexUp (n : UInt8) : UInt8 := if n < 10 then 48 + n else 55 + n

def escapeByte (b : UInt8) : Bytes :=
  if unreserved b then [b]
  else if b == 32 then [43]
  else [37, hexUp (b / 16), hexUp (b % 16)]

def queryEscape (s : Bytes) : Bytes := s.flatMap escapeByte

def unhex (c : UInt8) : Option UInt8 :=
  if 48 ≤ c && c ≤ 57 then some (c - 48)
  else if 97 ≤ c && c ≤ 102 then some (c - 87)
  else if 65 ≤ c && c ≤ 70 then some (c - 55)
  else none

/-- `url.QueryUnescape`: `%XX` → byte, `+` → space; `none` on a malformed escape. -/
def queryUnescape : Bytes → Option Bytes
  | [] => some []
  | 37 :: a :: b :: rest =>
    match unhex a, unhex b, queryUnescape rest with
    | some x, some y, some r => some ((x * 16 + y) :: r)
    | _, _, _ => none
  | 37 :: _ => none
  | 43 :: rest => (queryUnescape rest).map (32 :: ·)
  | c :: rest => (queryUnescape rest).map (c :: ·)

end AuthbossModel.Url
