/-
  Model of `lock/lock.go` (`updateLockedState`, `AfterAuthSuccess`, `Lock`, `Unlock`,
  `IsLocked`).  Time is an integer (ns); Go's zero time is `zeroTime` (far in the past).
-/
import AuthbossModel.Machine.Types

namespace AuthbossModel.Lock
open AuthbossModel.M

structure LCfg where
  after    : Int
  window   : Int
  duration : Int
deriving DecidableEq, Repr

/-- The three lockable fields of a user. -/
structure LState where
  attempts : Int := 0
  last     : Int := zeroTime
  locked   : Int := zeroTime
deriving DecidableEq, Repr

/-- `IsLocked`: `lu.GetLocked().After(now)`. -/
def isLocked (now : Int) (s : LState) : Bool := decide (s.locked > now)

/-- `updateLockedState` (state part). -/
def update (c : LCfg) (now : Int) (wasCorrect : Bool) (s : LState) : LState :=
  if wasCorrect then { s with last := now }
  else
    let attempts := if now - s.last > c.window then 1 else s.attempts + 1
    { attempts := attempts,
      last := now,
      locked := if attempts ≥ c.after then now + c.duration else s.locked }

/-- `AfterAuthSuccess`. -/
def success (now : Int) (s : LState) : LState := { s with attempts := 0, last := now }

/-- Manual `Lock`. -/
def lock (c : LCfg) (now : Int) (s : LState) : LState := { s with locked := now + c.duration }

/-- Manual `Unlock`. -/
def unlock (c : LCfg) (now : Int) (_s : LState) : LState :=
  { attempts := 0, last := now - c.window * 2, locked := now - c.duration }

end AuthbossModel.Lock
