import Proofs.ClientState
