/-
  C10 — Logout leaves nothing behind that could authenticate or continue a login.
  Stated for *every* jar (not only reachable ones) and every whitelist.
-/
import Proofs.StepUid

namespace AuthbossModel.M

/-- The session events of `logout.Logout` (no event handler of any shipped unit listens to
`EventLogout`). -/
def logoutEvents (wl : List SKey) : List SEv := [.delAll wl, .del .uid, .del .halfauth, .del .lastAction]

def applyAll (j : Jar) (evs : List SEv) : Jar := evs.foldl Jar.apply j

theorem Jar.get_del_ne_none (j : Jar) (k : SKey) : (j.del k).get k = none := Jar.get_del_self j k

theorem Jar.get_filter_key_none (j : Jar) (q : SKey → Bool) (k : SKey) (h : q k = false) :
    Jar.get (j.filter (fun x => q x.1)) k = none := by
  unfold Jar.get; rw [find_filter_key_none j q k h]; rfl

/-- **C10_jar.** After the logout events, for every jar and every whitelist: a key that is not
whitelisted is gone; the identity, half-auth mark and last-action stamp are gone *even if
whitelisted*; a surviving key kept its value. -/
theorem C10_jar (j : Jar) (wl : List SKey) (k : SKey) :
    (k ∉ wl → (applyAll j (logoutEvents wl)).get k = none) ∧
    ((applyAll j (logoutEvents wl)).get .uid = none) ∧
    ((applyAll j (logoutEvents wl)).get .halfauth = none) ∧
    ((applyAll j (logoutEvents wl)).get .lastAction = none) ∧
    (∀ v, (applyAll j (logoutEvents wl)).get k = some v → j.get k = some v) := by
  simp only [applyAll, logoutEvents, List.foldl_cons, List.foldl_nil, Jar.apply]
  refine ⟨?_, ?_, ?_, ?_, ?_⟩
  · intro hk
    cases hg : (((j.delAll wl).del .uid).del .halfauth).del .lastAction |>.get k with
    | none => rfl
    | some v =>
      have h1 := Jar.get_del_sub (Jar.get_del_sub (Jar.get_del_sub hg))
      have : (j.delAll wl).get k = none :=
        Jar.get_filter_key_none j (fun x => wl.contains x) k (by simpa using hk)
      rw [this] at h1; cases h1
  · cases hg : (((j.delAll wl).del .uid).del .halfauth).del .lastAction |>.get .uid with
    | none => rfl
    | some v =>
      have h1 := Jar.get_del_sub (Jar.get_del_sub hg)
      rw [Jar.get_del_self] at h1; cases h1
  · cases hg : (((j.delAll wl).del .uid).del .halfauth).del .lastAction |>.get .halfauth with
    | none => rfl
    | some v =>
      have h1 := Jar.get_del_sub hg
      rw [Jar.get_del_self] at h1; cases h1
  · exact Jar.get_del_self _ _
  · intro v hv
    exact Jar.get_delAll_sub (Jar.get_del_sub (Jar.get_del_sub (Jar.get_del_sub hv)))

/-- **C10_sensitive.** In particular every session key any package of the library defines —
identity, half-auth, 2FA mark, e-mail-verification token and mark, OAuth2 state and
parameters, TOTP secret / pending, SMS number / secret / last / pending — is gone unless the
application whitelisted it (and the first three are gone regardless). -/
theorem C10_sensitive (j : Jar) (wl : List SKey) (k : SKey)
    (hk : k ∈ [SKey.uid, .halfauth, .lastAction, .twofactor, .tfaToken, .tfaAuthed, .oauthState, .oauthParams,
               .totpSecret, .totpPending, .smsNumber, .smsSecret, .smsLast, .smsPending])
    (hw : k ∉ wl) : (applyAll j (logoutEvents wl)).get k = none :=
  (C10_jar j wl k).1 hw

/-- The cookie side: the remember cookie is removed. -/
theorem C10_cookie (c : Option Cookie) : applyC c .delRm = none := rfl

/-- No shipped unit registers a handler on `EventLogout`, so nothing can interrupt or add
to the logout handler's own events, whatever is loaded. -/
theorem C10_no_logout_hooks (u : Unit) : u.before .logout = [] ∧ u.after .logout = [] := by
  cases u <;> exact ⟨rfl, rfl⟩

/-! ### Non-vacuity: a session in the middle of everything, whitelist keeping one app key -/
example :
    applyAll [(.uid, lit "a"), (.halfauth, lit "true"), (.totpPending, lit "v"), (.smsSecret, lit "123456"),
              (.oauthState, lit "s"), (.other (lit "app_pref"), lit "dark"), (.tfaAuthed, lit "true")]
      (logoutEvents [.other (lit "app_pref"), .uid]) = [(.other (lit "app_pref"), lit "dark")] := by decide

end AuthbossModel.M
