/-
  C10 — Logout leaves nothing behind that could authenticate or continue a login.
  Stated for *every* jar (not only reachable ones) and every whitelist.
-/
import Proofs.StepUid

namespace AuthbossModel.M

/-- The session events of `logout.Logout` (no event handler of any shipped unit listens to
`EventLogout`). -/
def logoutEvents (wl : List SKey) : List SEv := [.delAll wl, .del .uid, .del .halfauth, .del .lastAction]

def applyAll (j : Jar) (evs : List SEv) : Jar := evs.foldl Jar.apply j

theorem Jar.get_del_ne_none (j : Jar) (k : SKey) : (j.del k).get k = none := Jar.get_del_self j k

theorem Jar.get_filter_key_none (j : Jar) (q : SKey → Bool) (k : SKey) (h : q k = false) :
    Jar.get (j.filter (fun x => q x.1)) k = none := by
  unfold Jar.get; rw [find_filter_key_none j q k h]; rfl

/-- **C10_jar.** After the logout events, for every jar and every whitelist: a key that is not
whitelisted is gone; the identity, half-auth mark and last-action stamp are gone *even if
whitelisted*; a surviving key kept its value. -/
theorem C10_jar (j : Jar) (wl : List SKey) (k : SKey) :
    (k ∉ wl → (applyAll j (logoutEvents wl)).get k = none) ∧
    ((applyAll j (logoutEvents wl)).get .uid = none) ∧
    ((applyAll j (logoutEvents wl)).get .halfauth = none) ∧
    ((applyAll j (logoutEvents wl)).get .lastAction = none) ∧
    (∀ v, (applyAll j (logoutEvents wl)).get k = some v → j.get k = some v) := by
  simp only [applyAll, logoutEvents, List.foldl_cons, List.foldl_nil, Jar.apply]
  refine ⟨?_, ?_, ?_, ?_, ?_⟩
  · intro hk
    cases hg : (((j.delAll wl).del .uid).del .halfauth).del .lastAction |>.get k with
    | none => rfl
    | some v =>
      have h1 := Jar.get_del_sub (Jar.get_del_sub (Jar.get_del_sub hg))
      have : (j.delAll wl).get k = none :=
        Jar.get_filter_key_none j (fun x => wl.contains x) k (by simpa using hk)
      rw [this] at h1; cases h1
  · cases hg : (((j.delAll wl).del .uid).del .halfauth).del .lastAction |>.get .uid with
    | none => rfl
    | some v =>
      have h1 := Jar.get_del_sub (Jar.get_del_sub hg)
      rw [Jar.get_del_self] at h1; cases h1
  · cases hg : (((j.delAll wl).del .uid).del .halfauth).del .lastAction |>.get .halfauth with
    | none => rfl
    | some v =>
      have h1 := Jar.get_del_sub hg
      rw [Jar.get_del_self] at h1; cases h1
  · exact Jar.get_del_self _ _
  · intro v hv
    exact Jar.get_delAll_sub (Jar.get_del_sub (Jar.get_del_sub (Jar.get_del_sub hv)))

/-- **C10_sensitive.** In particular every session key any package of the library defines —
identity, half-auth, 2FA mark, e-mail-verification token and mark, OAuth2 state and
parameters, TOTP secret / pending, SMS number / secret / last / pending — is gone unless the
application whitelisted it (and the first three are gone regardless). -/
theorem C10_sensitive (j : Jar) (wl : List SKey) (k : SKey)
    (hk : k ∈ [SKey.uid, .halfauth, .lastAction, .twofactor, .tfaToken, .tfaAuthed, .oauthState, .oauthParams,
               .totpSecret, .totpPending, .smsNumber, .smsSecret, .smsLast, .smsPending])
    (hw : k ∉ wl) : (applyAll j (logoutEvents wl)).get k = none :=
  (C10_jar j wl k).1 hw

/-- The cookie side: the remember cookie is removed. -/
theorem C10_cookie (c : Option Cookie) : applyC c .delRm = none := rfl

/-- No shipped unit registers a handler on `EventLogout`, so nothing can interrupt or add
to the logout handler's own events, whatever is loaded. -/
theorem C10_no_logout_hooks (u : Unit) : u.before .logout = [] ∧ u.after .logout = [] := by
  cases u <;> exact ⟨rfl, rfl⟩

/-! ### The handler queues exactly these events -/

theorem no_logout_handlers (us : List Unit) :
    us.flatMap (·.before .logout) = [] ∧ us.flatMap (·.after .logout) = [] := by
  induction us with
  | nil => exact ⟨rfl, rfl⟩
  | cons u us ih =>
    simp only [List.flatMap_cons, ih.1, ih.2, List.append_nil]
    exact C10_no_logout_hooks u

/-- What the logout handler answers with. -/
def logoutAnswer (c : Ctx) : List Act :=
  if c.cfg.json then [.respond (.redirect root (some .loggedOut) none)]
  else [.sess (.put .flashOk (lit Txt.loggedOut.name)), .respond (.redirect root (some .loggedOut) none)]

/-- **C10_handler_events.** With no backend failure, whatever modules are loaded and whoever
(if anybody) is logged in: the logout handler queues exactly the four session deletions of
`logoutEvents`, the deletion of the remember cookie, then its answer — in that order, nothing
before them and nothing in between. -/
theorem C10_handler_events (c : Ctx) (hf : c.fault = none) :
    (logoutHandler c).1 = .ok ⟨⟩ ∧
    (logoutHandler c).2.acts =
      c.acts ++ (logoutEvents c.cfg.whitelist).map Act.sess ++ [.cook .delRm] ++ logoutAnswer c := by
  have hb := (no_logout_handlers c.cfg.units).1
  have ha := (no_logout_handlers c.cfg.units).2
  unfold logoutHandler M.currentUser M.currentUserID M.load
  cases hcu : c.ctxUser with
  | some u =>
    by_cases hj : c.cfg.json = true <;>
    simp [bind_apply, M.get, hcu, pure_apply, M.logf, M.modify, fireBefore, fireAfter, hb, ha, callHandlers,
      M.delAllS, M.delS, M.delRm, M.act, M.redirect, redirTarget, M.render, backend, hf, M.putS, logoutAnswer, logoutEvents, hj]
  | none =>
    cases hp : c.ctxPid with
    | some p =>
      by_cases hpe : p = [] <;> cases hfind : c.store.find p <;>
      by_cases hj : c.cfg.json = true <;>
      simp [bind_apply, M.get, hcu, hp, hpe, hfind, pure_apply, M.logf, M.modify, fireBefore, fireAfter, hb, ha, callHandlers,
        M.delAllS, M.delS, M.delRm, M.act, M.redirect, redirTarget, M.render, backend, hf, M.putS, logoutAnswer, logoutEvents, hj]
    | none =>
      cases hs : c.sess.get .uid with
      | none =>
        by_cases hj : c.cfg.json = true <;>
        simp [bind_apply, M.get, hcu, hp, hs, pure_apply, M.logf, M.modify, fireBefore, fireAfter, hb, ha, callHandlers,
          M.delAllS, M.delS, M.delRm, M.act, M.redirect, redirTarget, M.render, backend, hf, M.putS, logoutAnswer, logoutEvents, hj]
      | some p =>
        by_cases hpe : p = [] <;> cases hfind : c.store.find p <;>
        by_cases hj : c.cfg.json = true <;>
        simp [bind_apply, M.get, hcu, hp, hs, hpe, hfind, pure_apply, M.logf, M.modify, fireBefore, fireAfter, hb, ha, callHandlers,
          M.delAllS, M.delS, M.delRm, M.act, M.redirect, redirTarget, M.render, backend, hf, M.putS, logoutAnswer, logoutEvents, hj]

/-! ### Non-vacuity: a session in the middle of everything, whitelist keeping one app key -/
example :
    applyAll [(.uid, lit "a"), (.halfauth, lit "true"), (.totpPending, lit "v"), (.smsSecret, lit "123456"),
              (.oauthState, lit "s"), (.other (lit "app_pref"), lit "dark"), (.tfaAuthed, lit "true")]
      (logoutEvents [.other (lit "app_pref"), .uid]) = [(.other (lit "app_pref"), lit "dark")] := by decide

end AuthbossModel.M
