/-
  C17 — Secrets are never stored or logged in recoverable form.

  In the symbolic model a stored credential field *is* a hash by construction (the field
  holds the pre-image and the harness maps real hashes back to pre-images; anything stored
  unhashed shows up as a difference of the correspondence).  What can be stated and proved
  in the model is where tokens travel: who gets the mail, and what the log lines carry.  The
  complete list of logger call sites with their argument expressions is regenerated from the
  source on every run and compared with the reviewed list (Tie/*: logCalls_*).
-/
import Proofs.Dispatch
import Proofs.Veto

namespace AuthbossModel.M

/-- `Authboss.Email` either delivers exactly one mail with exactly the given recipients, kind
and token, or (render / mailer failure) none; it never changes an earlier mail. -/
theorem C17_sendMail (to : List Bytes) (kind : String) (tok : Bytes) (c : Ctx) :
    (sendMail to kind tok c).2.mail = c.mail ∨ (sendMail to kind tok c).2.mail = c.mail ++ [⟨to, kind, tok⟩] := by
  unfold sendMail M.render
  simp only [bind_apply, backend_eq, pure_apply]
  cases h0 : oracle c
  · simp only [bind_apply, backend_eq, pure_apply, Bool.false_eq_true, if_false]
    cases h1 : oracle (tick c)
    · simp only [bind_apply, backend_eq, pure_apply, Bool.false_eq_true, if_false]
      cases h2 : oracle (tick (tick c))
      · right; simp [M.modify, tick, pure_apply, bind_apply]
      · left; simp [M.logf, M.modify, tick, pure_apply, bind_apply]
    · left; simp [M.logf, M.modify, tick, pure_apply, bind_apply]
  · left; simp [M.logf, M.modify, tick, pure_apply, bind_apply]

/-- **C17_confirm_mail.** The confirmation token is mailed to the address of the account it
was generated for, and to nobody else. -/
theorem C17_confirm_mail (u : User) (c : Ctx) :
    ∀ m ∈ (startConfirmation u c).2.mail, m ∈ c.mail ∨ (m.to = [u.email] ∧ m.kind = "confirm" ∧ m.token = c.req.fresh) := by
  intro m hm
  unfold startConfirmation at hm
  simp only [bind_apply, M.get, M.writeBack, M.modify, M.logf] at hm
  generalize hsv : M.save _ _ = r at hm
  obtain ⟨res, c1⟩ := r
  have hmail1 : c1.mail = c.mail := by
    unfold M.save at hsv
    simp only [bind_apply, backend_eq] at hsv
    generalize hor : oracle _ = o at hsv
    cases o with
    | some k => simp [pure_apply] at hsv; rw [← hsv.2]; cases c.ctxUser <;> rfl
    | none => simp [M.modify, bind_apply, pure_apply] at hsv; rw [← hsv.2]; cases c.ctxUser <;> rfl
  cases res with
  | stop s => simp at hm; left; rw [← hmail1]; exact hm
  | ok b =>
    cases b
    · simp only [Bool.false_eq_true, if_false, bind_apply, M.logf, M.modify] at hm
      generalize hsm : M.sendMail _ _ _ _ = r2 at hm
      obtain ⟨res2, c2⟩ := r2
      have := C17_sendMail [u.email] "confirm" c.req.fresh { c1 with log := c1.log ++ [⟨"sending confirm e-mail to: %s", [u.email]⟩] }
      rw [hsm] at this
      have hm' : m ∈ c2.mail := by cases res2 <;> simpa [pure_apply] using hm
      rcases this with h | h
      · left; rw [h] at hm'; rw [← hmail1]; exact hm'
      · rw [h] at hm'
        rcases List.mem_append.mp hm' with h1 | h1
        · left; rw [← hmail1]; exact h1
        · right; simp at h1; subst h1; exact ⟨rfl, rfl, rfl⟩
    · simp [M.fail, M.stop] at hm; left; rw [← hmail1]; exact hm

/-- **C17_confirm_log (the repaired site).** When the submitted confirmation token does not
decode, the log line carries no request data (before the `fix:` it carried the submitted
value, and a genuine token with one junk byte appended stayed valid). -/
theorem C17_confirm_log_no_token (c : Ctx) (hv : c.req.valid = true) (ht : c.req.token = none) :
    ∀ l ∈ (confirmGet c).2.log, l ∈ c.log ∨ l.args = [] := by
  intro l hl
  unfold confirmGet at hl
  simp only [bind_apply, M.get, hv, Bool.not_true, Bool.false_eq_true, if_false, ht, M.logf, M.modify] at hl
  have hk : ∀ (p : Bytes) ok f fl (c' : Ctx), (M.redirect p ok f fl c').2.log = c'.log := by
    intro p ok f fl c'
    unfold M.redirect
    simp only [bind_apply, M.get]
    cases hj : c'.cfg.json
    · cases ok <;> cases f <;> simp [M.putS, M.act, M.modify, bind_apply, pure_apply]
    · simp only [if_true, M.render, bind_apply, backend_eq]
      cases oracle c' <;> simp [pure_apply, M.fail, M.stop, M.act, M.modify, tick]
  rw [hk] at hl
  simp at hl
  rcases hl with h | h
  · exact Or.inl h
  · right; rw [h]

end AuthbossModel.M
