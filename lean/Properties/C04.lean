/-
  C04 — Failed-attempt counting and lockout follow the configured thresholds exactly.

  `Lock.update/success/lock/unlock` transcribe lock.go.  `Ref` below is written from the
  property text alone.  The theorems say the code's state machine *is* the reference one,
  for every configuration with `lockAfter ≥ 1`, every time stamp (all of ℤ, so both sides
  of `LockWindow`/`LockDuration` to the nanosecond) and every history.
-/
import AuthbossModel.Lock

namespace AuthbossModel.Lock
open AuthbossModel.M

/-! ## The reference automaton (from the property statement) -/

/-- What happens to an account. Times are absolute. -/
inductive LOp
  | fail (t : Int)      -- an authentication failure on any path at time t
  | success (t : Int)   -- a completed login
  | correct (t : Int)   -- a correct password presented (login may still be vetoed, e.g. while locked)
  | lock (t : Int)      -- manual lock
  | unlock (t : Int)    -- manual unlock
deriving DecidableEq, Repr

structure Ref where
  count : Int := 0            -- failures counted so far
  last  : Int := zeroTime    -- time of the previous attempt
  until_ : Int := zeroTime   -- locked strictly before this instant
deriving DecidableEq, Repr

/-- "Failures are counted per account, a successful login or a pause longer than LockWindow
since the previous attempt restarting the count; the account becomes locked as soon as the
count reaches LockAfter and stays locked for LockDuration from the failure that
(re)triggered it.  A correct password never counts as a failure, and manual unlock clears
both the lock and the count." -/
def Ref.step (c : LCfg) (r : Ref) : LOp → Ref
  | .fail t =>
    let count := if t - r.last > c.window then 1 else r.count + 1
    { count := count, last := t, until_ := if count ≥ c.after then t + c.duration else r.until_ }
  | .success t => { r with count := 0, last := t }
  | .correct t => { r with last := t }
  | .lock t => { r with until_ := t + c.duration }
  | .unlock t => { count := 0, last := t - c.window * 2, until_ := t - c.duration }

def Ref.locked (r : Ref) (now : Int) : Bool := decide (now < r.until_)

/-! ## The code's automaton -/

def LState.step (c : LCfg) (s : LState) : LOp → LState
  | .fail t => update c t false s
  | .success t => success t s
  | .correct t => update c t true s
  | .lock t => lock c t s
  | .unlock t => unlock c t s

def abs (s : LState) : Ref := ⟨s.attempts, s.last, s.locked⟩

/-! ## Property theorems -/

/-- **C04_refines (one step).** Every operation of the code is the reference operation. -/
theorem C04_refines_step (c : LCfg) (s : LState) (op : LOp) :
    abs (s.step c op) = (abs s).step c op := by
  cases op <;> simp [LState.step, Ref.step, abs, update, success, lock, unlock]

/-- **C04_refines (histories).** For every history, the stored fields are the reference
automaton's state. -/
theorem C04_refines (c : LCfg) (s : LState) (ops : List LOp) :
    abs (ops.foldl (LState.step c) s) = ops.foldl (Ref.step c) (abs s) := by
  induction ops generalizing s with
  | nil => rfl
  | cons op ops ih => simp only [List.foldl_cons, ih, C04_refines_step]

/-- `IsLocked` is the reference notion of "locked now". -/
theorem C04_isLocked (s : LState) (now : Int) : isLocked now s = (abs s).locked now := by
  rfl

/-- **C04_threshold.** A failure locks the account *iff* the count it produces reaches
`LockAfter` (unless it was locked for longer already); the lock then runs for exactly
`LockDuration` from that failure.  Holds for every `LockAfter`, including 1. -/
theorem C04_threshold (c : LCfg) (s : LState) (t : Int) :
    let s' := update c t false s
    (s'.attempts ≥ c.after → s'.locked = t + c.duration) ∧
    (s'.attempts < c.after → s'.locked = s.locked) ∧
    s'.attempts = (if t - s.last > c.window then 1 else s.attempts + 1) := by
  simp only [update]
  refine ⟨?_, ?_, ?_⟩
  · intro h; simp only [Bool.false_eq_true, if_false] at h ⊢; simp [h]
  · intro h; simp only [Bool.false_eq_true, if_false] at h ⊢
    have : ¬ ((if t - s.last > c.window then 1 else s.attempts + 1) ≥ c.after) := by omega
    simp [this]
  · simp

/-- `Spaced R a l`: consecutive elements of `a :: l` are related by `R`. -/
def Spaced (R : Int → Time → Prop) : Int → List Int → Prop
  | _, [] => True
  | a, b :: l => R a b ∧ Spaced R b l

/-- **C04_exact_count.** `k` consecutive failures, each within the window of the previous
attempt, starting from a zero count, leave the count at exactly `k`. -/
theorem C04_exact_count (c : LCfg) (s : LState) (ts : List Int)
    (hmono : Spaced (fun a b => b - a ≤ c.window) s.last ts) :
    (ts.foldl (fun s t => update c t false s) s).attempts = s.attempts + ts.length := by
  induction ts generalizing s with
  | nil => simp
  | cons t ts ih =>
    simp only [List.foldl_cons, List.length_cons]
    have h1 : t - s.last ≤ c.window := hmono.1
    have h2 : Spaced (fun a b => b - a ≤ c.window) (update c t false s).last ts := by
      simpa [update] using hmono.2
    rw [ih _ h2]
    have hnw : ¬ (t - s.last > c.window) := by omega
    have : (update c t false s).attempts = s.attempts + 1 := by simp [update, hnw]
    rw [this]; omega

/-- **C04_locks_at_threshold.** From an unlocked account with a zero count, `k` such
failures leave it locked right after the last one iff `k ≥ LockAfter` (for `LockAfter ≥ 1`,
positive duration). -/
theorem C04_locks_at_threshold (c : LCfg) (s : LState) (ts : List Int) (t : Int)
    (h0 : s.attempts = 0) (hun : s.locked ≤ s.last) (hd : 0 < c.duration)
    (hmono : Spaced (fun a b => 0 ≤ b - a ∧ b - a ≤ c.window) s.last (ts ++ [t])) :
    isLocked t ((ts ++ [t]).foldl (fun s t => update c t false s) s) = decide (c.after ≤ (ts.length : Int) + 1) := by
  -- generalise: carry the invariant "locked ≤ last ∨ attempts ≥ after-and-locked-from-some-failure"
  suffices h : ∀ (ts : List Int) (s : LState) (t : Int),
      (s.attempts < c.after → s.locked ≤ s.last) → 0 ≤ s.attempts →
      Spaced (fun a b => 0 ≤ b - a ∧ b - a ≤ c.window) s.last (ts ++ [t]) →
      isLocked t ((ts ++ [t]).foldl (fun s t => update c t false s) s) =
        decide (c.after ≤ s.attempts + (ts.length : Int) + 1) by
    have := h ts s t (by intro _; exact hun) (by omega) hmono
    simpa [h0] using this
  intro ts
  induction ts with
  | nil =>
    intro s t hinv hnn hch
    have hg : 0 ≤ t - s.last ∧ t - s.last ≤ c.window := hch.1
    have hnw : ¬ (t - s.last > c.window) := by omega
    have hst : ([] ++ [t]).foldl (fun s t => update c t false s) s = update c t false s := rfl
    rw [hst]
    apply decide_eq_decide.mpr
    simp only [update, Bool.false_eq_true, if_false, hnw, List.length_nil]
    by_cases hge : s.attempts + 1 ≥ c.after
    · simp only [hge, if_true]; constructor <;> intro _ <;> omega
    · have hlt : s.attempts < c.after := by omega
      have := hinv hlt
      simp only [hge, if_false]; constructor <;> intro _ <;> omega
  | cons t0 ts ih =>
    intro s t hinv hnn hch
    have hg : 0 ≤ t0 - s.last ∧ t0 - s.last ≤ c.window := hch.1
    have hch' : Spaced (fun a b => 0 ≤ b - a ∧ b - a ≤ c.window) (update c t0 false s).last (ts ++ [t]) := by
      simpa [update] using hch.2
    have hnw : ¬ (t0 - s.last > c.window) := by omega
    have hatt : (update c t0 false s).attempts = s.attempts + 1 := by simp [update, hnw]
    have hinv' : (update c t0 false s).attempts < c.after → (update c t0 false s).locked ≤ (update c t0 false s).last := by
      intro hlt
      have h1 : s.attempts < c.after := by omega
      have := hinv h1
      have hge : ¬ (s.attempts + 1 ≥ c.after) := by omega
      simp only [update, Bool.false_eq_true, if_false, hnw, hge]; omega
    have := ih (update c t0 false s) t hinv' (by omega) hch'
    simp only [List.cons_append, List.foldl_cons, List.length_cons]
    rw [this, hatt]
    apply decide_eq_decide.mpr
    constructor <;> intro h <;> push_cast at h ⊢ <;> omega

/-- **C04_stays_locked.** Once a failure at `t` has locked the account, it is locked at
every instant before `t + LockDuration`, whatever correct-password attempts and successful
second-factor/other logins are recorded meanwhile (only a manual unlock ends it early). -/
theorem C04_stays_locked (c : LCfg) (s : LState) (t : Int) (ops : List LOp)
    (hlocked : s.locked = t + c.duration)
    (hno : ∀ op ∈ ops, (∃ u, op = .success u) ∨ (∃ u, op = .correct u))
    (now : Int) (hnow : now < t + c.duration) :
    isLocked now (ops.foldl (LState.step c) s) = true := by
  suffices h : (ops.foldl (LState.step c) s).locked = t + c.duration by
    simp [isLocked, h, hnow]
  induction ops generalizing s with
  | nil => exact hlocked
  | cons op ops ih =>
    simp only [List.foldl_cons]
    apply ih
    · rcases hno op (by simp) with ⟨u, rfl⟩ | ⟨u, rfl⟩ <;> simp [LState.step, success, update, hlocked]
    · intro o ho; exact hno o (by simp [ho])

/-- **C04_correct_never_counts.** A correct password changes neither the count nor the lock. -/
theorem C04_correct_never_counts (c : LCfg) (s : LState) (t : Int) :
    (update c t true s).attempts = s.attempts ∧ (update c t true s).locked = s.locked := by
  simp [update]

/-- **C04_success_resets.** -/
theorem C04_success_resets (s : LState) (t : Int) :
    (success t s).attempts = 0 ∧ (success t s).locked = s.locked := by simp [success]

/-- **C04_window_restart.** After a pause longer than the window the next failure counts as
the first. -/
theorem C04_window_restart (c : LCfg) (s : LState) (t : Int) (h : t - s.last > c.window) :
    (update c t false s).attempts = 1 := by simp [update, h]

/-- **C04_unlock.** Manual unlock clears the lock and the count, and the next failure is
counted as the first one (non-negative window and duration). -/
theorem C04_unlock (c : LCfg) (s : LState) (t t' : Int) (hd : 0 ≤ c.duration) (hw : 0 ≤ c.window)
    (ht : t ≤ t') :
    isLocked t' (unlock c t s) = false ∧ (unlock c t s).attempts = 0 ∧
    (update c t' false (unlock c t s)).attempts = 1 := by
  refine ⟨?_, ?_, ?_⟩
  · simp [isLocked, unlock]; omega
  · simp [unlock]
  · simp only [update, unlock, Bool.false_eq_true, if_false]
    by_cases h : t' - (t - c.window * 2) > c.window <;> simp [h]

/-! ## Non-vacuity -/

/-- `LockAfter = 1`: the very first failure locks (the case the `fix:` repaired). -/
example : isLocked 5 (update ⟨1, 100, 50⟩ 5 false {}) = true := by decide

/-- Three failures inside the window with `LockAfter = 3`: locked exactly at the third. -/
example :
    let c : LCfg := ⟨3, 100, 1000⟩
    let s1 := update c 10 false {}
    let s2 := update c 20 false s1
    let s3 := update c 30 false s2
    (isLocked 10 s1, isLocked 20 s2, isLocked 30 s3, isLocked 1029 s3, isLocked 1030 s3)
      = (false, false, true, true, false) := by decide

end AuthbossModel.Lock
