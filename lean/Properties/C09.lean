/-
  C09 — An idle session expires and is fully hidden from everything downstream.
  `expired` / `expireMW` transcribe expire.go (`timeToExpiry`, `ServeHTTP`, `stateHider`);
  the stamp has one-second resolution (RFC 3339), which the model keeps (`floorSec`).
-/
import Proofs.StepUid

namespace AuthbossModel.M

/-- **C09_expired_iff.** The middleware treats the session as expired exactly when the stored
(whole-second) stamp plus `ExpireAfter` is not after now. -/
theorem C09_expired_iff (c : Ctx) (sec : Int) (h : c.sess.get .lastAction = some (decStr sec))
    (hp : parseSec (decStr sec) = some sec) :
    expired c = true ↔ sec * 1000000000 + c.cfg.expireAfter ≤ c.now := by
  unfold expired
  simp only [h, hp]
  constructor <;> intro hh <;> (simp at hh ⊢; omega)

/-- No stamp at all: not expired (the deadline starts at the first stamped request). -/
theorem C09_no_stamp (c : Ctx) (h : c.sess.get .lastAction = none) : expired c = false := by
  simp [expired, h]

/-- **C09_sequence (sound on both sides).** Let the last activity have happened at `t`
(stamp `floorSec t`).  A request at `now` with `now - t ≥ ExpireAfter` is expired; one with
`now - t < ExpireAfter - 1 s` is not.  (In between the one-second truncation decides — known
finding K1.) -/
theorem C09_gap_expires (t now E : Int) (h : now - t ≥ E) :
    floorSec t * 1000000000 + E ≤ now := by
  unfold floorSec
  have := Int.ediv_mul_le t (by decide : (1000000000 : Int) ≠ 0)
  omega

theorem C09_gap_survives (t now E : Int) (h : now - t < E - 1000000000) :
    ¬ (floorSec t * 1000000000 + E ≤ now) := by
  unfold floorSec
  have := Int.lt_ediv_add_one_mul_self t (by decide : (0 : Int) < 1000000000)
  omega

/-- K1 witness: activity at 0.9 s, `ExpireAfter` = 10 s, request at 10.5 s (gap 9.6 s < 10 s)
is nevertheless expired. -/
theorem C09_truncation_witness :
    floorSec 900000000 * 1000000000 + 10000000000 ≤ 10500000000 ∧ (10500000000 : Int) - 900000000 < 10000000000 := by
  decide

/-- **C09_hidden.** On an expired session the middleware queues the deletion of everything
outside the whitelist plus identity and stamp, clears the request context's user, and
restricts what downstream code can read to the whitelisted keys. -/
theorem C09_hidden (c : Ctx) (hu : (c.sess.get .uid).isSome = true) (he : expired c = true) :
    (expireMW c).2.acts = c.acts ++ [.sess (.delAll c.cfg.whitelist), .sess (.del .uid), .sess (.del .lastAction)] ∧
    (expireMW c).2.ctxPid = none ∧ (expireMW c).2.ctxUser = none ∧
    (∀ k, k ∉ c.cfg.whitelist → (expireMW c).2.sess.get k = none) ∧
    (∀ k v, (expireMW c).2.sess.get k = some v → c.sess.get k = some v) := by
  unfold expireMW
  simp only [bind_apply, M.get, hu, he, if_true, M.delAllS, M.delS, M.act, M.modify]
  refine ⟨by simp, trivial, trivial, ?_, ?_⟩
  · intro k hk
    unfold Jar.get
    rw [find_filter_key_none c.sess (fun x => c.cfg.whitelist.contains x) k (by simpa using hk)]; rfl
  · intro k v hv
    exact filter_get (q := fun x => c.cfg.whitelist.contains x) hv

/-- Downstream code sees no current user on an expired session (identity not whitelisted). -/
theorem C09_no_current_user (c : Ctx) (hu : (c.sess.get .uid).isSome = true) (he : expired c = true)
    (hw : SKey.uid ∉ c.cfg.whitelist) :
    (currentUserID (expireMW c).2).1 = .ok [] := by
  obtain ⟨_, hp, _, hs, _⟩ := C09_hidden c hu he
  unfold currentUserID
  simp only [bind_apply, M.get, hp, hs .uid hw, pure_apply]
  rfl

/-- **C09_live.** A live session is served unchanged and re-stamped with the current second. -/
theorem C09_live (c : Ctx) (hu : (c.sess.get .uid).isSome = true) (he : expired c = false) :
    (expireMW c).2.acts = c.acts ++ [.sess (.put .lastAction (decStr (floorSec c.now)))] ∧
    (expireMW c).2.sess = c.sess ∧ (expireMW c).2.ctxPid = c.ctxPid := by
  unfold expireMW
  simp [bind_apply, M.get, hu, he, refreshExpiry, M.putS, M.act, M.modify]

/-- No identity in the session: the middleware does nothing. -/
theorem C09_anonymous (c : Ctx) (hu : c.sess.get .uid = none) : expireMW c = (.ok ⟨⟩, c) := by
  unfold expireMW
  simp [bind_apply, M.get, hu, pure_apply]

/-- **C09_jar.** What the queued events leave in the browser's jar: every non-whitelisted
key, the identity and the stamp are gone; whitelisted keys keep their value. -/
theorem C09_jar (j : Jar) (wl : List SKey) (k : SKey) :
    (k ∉ wl → (((j.delAll wl).del .uid).del .lastAction).get k = none) ∧
    ((((j.delAll wl).del .uid).del .lastAction).get .uid = none) ∧
    ((((j.delAll wl).del .uid).del .lastAction).get .lastAction = none) ∧
    (∀ v, (((j.delAll wl).del .uid).del .lastAction).get k = some v → j.get k = some v) := by
  refine ⟨?_, ?_, Jar.get_del_self _ _, ?_⟩
  · intro hk
    cases hg : (((j.delAll wl).del .uid).del .lastAction).get k with
    | none => rfl
    | some v =>
      have h1 := Jar.get_del_sub (Jar.get_del_sub hg)
      have : (j.delAll wl).get k = none := by
        unfold Jar.delAll Jar.get
        rw [find_filter_key_none j (fun x => wl.contains x) k (by simpa using hk)]; rfl
      rw [this] at h1; cases h1
  · cases hg : (((j.delAll wl).del .uid).del .lastAction).get .uid with
    | none => rfl
    | some v => have h1 := Jar.get_del_sub hg; rw [Jar.get_del_self] at h1; cases h1
  · intro v hv; exact Jar.get_delAll_sub (Jar.get_del_sub (Jar.get_del_sub hv))

/-- **C09_login_stamps.** `expire.Setup` hooks `After(EventAuth)` (password, OTP, recover-and-
login, second factor) and stamps there. -/
theorem C09_login_stamps : Unit.after .expire .auth = [expireAfterAuth] := rfl

/-- … and (after the `fix:`) `After(EventOAuth2)` and `After(EventRegister)`: the OAuth2 callback
and the login that follows a registration start the idle clock as well. -/
theorem C09_oauth2_register_stamp :
    Unit.after .expire .oauth2 = [expireAfterAuth] ∧ Unit.after .expire .register = [expireAfterAuth] :=
  ⟨rfl, rfl⟩

/-- The stamp: the handler queues `last_action := now` (whole seconds) and never interrupts. -/
theorem C09_stamp_is_now (b : Bool) (c : Ctx) :
    (expireAfterAuth b c).1 = .ok false ∧
    (expireAfterAuth b c).2.acts = c.acts ++ [.sess (.put .lastAction (decStr (floorSec c.now)))] := by
  unfold expireAfterAuth refreshExpiry
  simp [bind_apply, M.get, M.putS, M.act, M.modify, pure_apply]

set_option maxHeartbeats 4000000 in
/-- Kernel-evaluated: an OAuth2 login leaves a session that carries the stamp. -/
example :
    let cfg : Config := { units := [.oauth2, .expire], expireMW := true, expireAfter := 1000000000000 }
    let s0 := run cfg {} [.http (lit "b") .oauth2Start { provider := lit "stub", fresh := lit "st" } none]
    let s := run cfg s0 [.http (lit "b") .oauth2End { provider := lit "stub", state := lit "st", provUid := some (lit "u1") } none]
    ((s.browser (lit "b")).sess.get .uid).isSome ∧ ((s.browser (lit "b")).sess.get .lastAction).isSome := by decide

end AuthbossModel.M
