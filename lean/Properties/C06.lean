/-
  C06 — A password change revokes the old password, recovery link and remember tokens.
  (Symbolic bcrypt: the stored value is represented by the password it verifies; K2 — the
  72-byte truncation of real bcrypt — is outside this idealisation.)
-/
import Proofs.Dispatch
import Proofs.Veto

namespace AuthbossModel.M

theorem find_upsert_same (s : Store) (u : User) : (s.upsert u).find u.pid = some u ∨
    ∃ x, s.find u.pid = some x := by
  by_cases h : s.users.any (·.pid == u.pid) = true
  · right
    obtain ⟨x, hx, hp⟩ := List.any_eq_true.mp h
    cases hf : s.find u.pid with
    | some y => exact ⟨y, rfl⟩
    | none =>
      unfold Store.find at hf
      have := List.find?_eq_none.mp hf x hx
      exact absurd hp this
  · left
    unfold Store.upsert Store.find
    simp only [h]
    simp only [Bool.false_eq_true, if_false, List.find?_append]
    have hn : List.find? (fun x => x.pid == u.pid) s.users = none := by
      apply List.find?_eq_none.mpr
      intro x hx hp
      exact h (List.any_eq_true.mpr ⟨x, hx, hp⟩)
    simp [hn]

theorem upsert_tokens (s : Store) (u : User) : (s.upsert u).tokens = s.tokens := by
  unfold Store.upsert; split <;> rfl

theorem oracle_congr {c c' : Ctx} (h1 : c'.fault = c.fault) (h2 : c'.calls = c.calls) : oracle c' = oracle c := by
  unfold oracle; rw [h1, h2]

/-- **C06_update_password.** `Authboss.UpdatePassword` (no storage fault): every remember
token of that account is gone, and nobody else's tokens are touched. -/
theorem C06_update_tokens (cfg : Config) (s : State) (pid pw : Bytes) (u : User) (h : s.store.find pid = some u) :
    let s' := (step cfg s (.apiUpdatePassword pid pw)).1
    (∀ t, (pid, t) ∉ s'.store.tokens) ∧
    (∀ p t, p ≠ pid → ((p, t) ∈ s'.store.tokens ↔ (p, t) ∈ s.store.tokens)) := by
  simp only [step, h, upsert_tokens]
  constructor
  · intro t hm
    have := (List.mem_filter.mp hm).2
    simp at this
  · intro p t hp
    constructor
    · intro hm; exact (List.mem_filter.mp hm).1
    · intro hm; exact List.mem_filter.mpr ⟨hm, by simpa using hp⟩

/-- **C06_reset_revokes_tokens.** `remember.AfterPasswordReset` (hooked on `EventRecoverEnd`)
deletes every remember token of the account whose password was just reset — the account
in the request *context*, not the one the session names — and queues the deletion of the
browser's own cookie. -/
theorem C06_reset_revokes_tokens (c : Ctx) (u : User) (b : Bool) (hu : c.ctxUser = some u) (ho : oracle c = none) :
    (∀ t, (u.pid, t) ∉ (rememberAfterReset b c).2.store.tokens) ∧
    (∀ p t, p ≠ u.pid → ((p, t) ∈ (rememberAfterReset b c).2.store.tokens ↔ (p, t) ∈ c.store.tokens)) ∧
    Act.cook .delRm ∈ (rememberAfterReset b c).2.acts := by
  unfold rememberAfterReset
  simp only [bind_apply, currentUser_ctx hu, M.delRm, M.act, M.modify, M.logf]
  rw [backend_eq]
  have hoc : ∀ c' : Ctx, c'.fault = c.fault → c'.calls = c.calls → oracle c' = none :=
    fun c' h1 h2 => (oracle_congr h1 h2).trans ho
  generalize hgen : oracle _ = o
  have hon : o = none := by rw [← hgen]; exact hoc _ rfl rfl
  subst hon
  simp only [M.modify, bind_apply, pure_apply, tick]
  refine ⟨?_, ?_, by simp⟩
  · intro t hm
    have := (List.mem_filter.mp hm).2
    simp at this
  · intro p t hp
    constructor
    · intro hm; exact (List.mem_filter.mp hm).1
    · intro hm; exact List.mem_filter.mpr ⟨hm, by simpa using hp⟩

/-- The hook is registered, for every load order in which `remember` is loaded. -/
theorem C06_hook_registered : Unit.after .remember .recoverEnd = [rememberAfterReset] := rfl

end AuthbossModel.M
