/-
  C16 — Responses leak neither password correctness when locked nor account existence.

  What a client observes of one request is, in the model, the list of actions the handler
  appends (session / cookie events and the response) together with how the handler stopped.
  Each theorem *characterises* that observation by a function of the configuration alone
  (`recoverAnswer`, `loginRefusal`, `lockedAnswer`): it does not mention the store, the
  account, its counters or the submitted secret.  The two-run statements (`C16_a`, `C16_b`,
  `C16_c`) are corollaries: both runs give the same characterised answer.

  Quantified over: every configuration (module subset in any order without repetition, form
  and JSON), every account state and attempt counter, every password / PID.  Hypothesis
  `fault = none`: no backend failure during the request (failures are C18's subject).
-/
import Proofs.Dispatch
import Proofs.Veto
import Proofs.ReadOnly

namespace AuthbossModel.M

/-- No unit registers anything on the recover-start events. -/
theorem no_recoverStart_handlers (us : List Unit) :
    us.flatMap (·.before .recoverStart) = [] ∧ us.flatMap (·.after .recoverStart) = [] := by
  induction us with
  | nil => exact ⟨rfl, rfl⟩
  | cons u us ih =>
    simp only [List.flatMap_cons, ih.1, ih.2, List.append_nil]
    cases u <;> exact ⟨rfl, rfl⟩

/-- The answer of `recover.StartPost` to a well-formed request, whoever is named. -/
def recoverAnswer (c : Ctx) : List Act :=
  if c.cfg.json then [.respond (.redirect root (some .recoverInitiateSuccessFlash) none)]
  else [.sess (.put .flashOk (lit Txt.recoverInitiateSuccessFlash.name)),
        .respond (.redirect root (some .recoverInitiateSuccessFlash) none)]

theorem C16_recover_start (c : Ctx) (hf : c.fault = none) (hv : c.req.valid = true) :
    (recoverStartPost c).1 = .ok ⟨⟩ ∧ (recoverStartPost c).2.acts = c.acts ++ recoverAnswer c := by
  unfold recoverStartPost
  simp only [bind_apply, M.get, hv, Bool.not_true, Bool.false_eq_true, if_false]
  unfold M.load
  simp only [bind_apply, backend, hf]
  cases hfind : c.store.find c.req.pid with
  | none =>
    by_cases hj : c.cfg.json = true <;>
    simp [M.get, hfind, pure_apply, bind_apply, M.logf, M.modify, M.redirect, redirTarget, M.render, backend, hf, recoverAnswer, M.putS, M.act, hj]
  | some u =>
    have hb := (no_recoverStart_handlers c.cfg.units).1
    have ha := (no_recoverStart_handlers c.cfg.units).2
    by_cases hj : c.cfg.json = true <;>
    simp [M.get, hfind, pure_apply, bind_apply, M.logf, M.modify, M.redirect, redirTarget, M.render, backend, hf, recoverAnswer, M.putS, M.act, hj,
      M.setCtxUser, fireBefore, fireAfter, hb, ha, callHandlers, M.save, M.sendMail]

@[simp] theorem withL_lstate (u : User) (s : Lock.LState) : (u.withL s).lstate = s := rfl

theorem authFail_handlers (us : List Unit) (h : us.Nodup) :
    us.flatMap (·.after .authFail) = if Unit.lock ∈ us then [lockUpdate false] else [] := by
  induction us with
  | nil => rfl
  | cons u us ih =>
    have hn := List.nodup_cons.mp h
    rw [List.flatMap_cons, ih hn.2]
    cases u <;> simp [Unit.after] <;> (try simp_all)

/-- What a refused password login looks like to the client. -/
def loginRefusal (c : Ctx) : List Act := [.respond (.page .login (errTag .invalidCredentials))]

theorem C16_login_unknown (c : Ctx) (hf : c.fault = none) (hfind : c.store.find c.req.pid = none) :
    (authLoginPost c).1 = .ok ⟨⟩ ∧ (authLoginPost c).2.acts = c.acts ++ loginRefusal c := by
  unfold authLoginPost M.load
  simp [bind_apply, M.get, backend, hf, hfind, pure_apply, M.logf, M.modify, M.respond, M.render, M.act, loginRefusal, M.fail, M.stop]

theorem C16_login_wrong_password (c : Ctx) (u : User) (hf : c.fault = none) (hnd : c.cfg.units.Nodup)
    (hfind : c.store.find c.req.pid = some u) (hwrong : (u.pw.isEmpty || u.pw != c.req.pw) = true)
    (hnl : Lock.isLocked c.now (Lock.update (lockCfg c.cfg) c.now false u.lstate) = false) :
    (authLoginPost c).1 = .ok ⟨⟩ ∧ (authLoginPost c).2.acts = c.acts ++ loginRefusal c := by
  have ha := authFail_handlers c.cfg.units hnd
  have hw : u.pw = [] ∨ ¬ u.pw = c.req.pw := by simpa using hwrong
  unfold authLoginPost M.load
  by_cases hl : Unit.lock ∈ c.cfg.units
  · simp only [hl, if_true] at ha
    simp [bind_apply, M.get, backend, hf, hfind, pure_apply, M.logf, M.modify, M.respond, M.render, M.act, loginRefusal, M.fail, M.stop,
      M.setCtxUser, hw, fireAfter, ha, callHandlers, lockUpdate, M.currentUser, M.writeBack, M.save, hnl, withL_lstate]
  · simp only [hl, if_false] at ha
    simp [bind_apply, M.get, backend, hf, hfind, pure_apply, M.logf, M.modify, M.respond, M.render, M.act, loginRefusal, M.fail, M.stop,
      M.setCtxUser, hw, fireAfter, ha, callHandlers]


/-- A locked account stays locked whatever the password was (positive lock duration). -/
theorem locked_after_update (lc : Lock.LCfg) (now : Int) (b : Bool) (s : Lock.LState)
    (hl : Lock.isLocked now s = true) (hd : 0 < lc.duration) :
    Lock.isLocked now (Lock.update lc now b s) = true := by
  unfold Lock.isLocked Lock.update at *
  cases b
  · simp only [Bool.false_eq_true, if_false]
    simp only [decide_eq_true_eq] at hl ⊢
    split <;> omega
  · simpa using hl

theorem before_auth_other (u : Unit) (h1 : u ≠ .lock) (h2 : u ≠ .confirm) : u.before .auth = [] := by
  cases u <;> first | rfl | exact absurd rfl h1 | exact absurd rfl h2

theorem before_auth_list (us : List Unit) (h : us.Nodup) :
    (us.flatMap (·.before .auth) = [] ∧ Unit.lock ∉ us ∧ Unit.confirm ∉ us) ∨
    (us.flatMap (·.before .auth) = [lockUpdate true] ∧ Unit.lock ∈ us ∧ Unit.confirm ∉ us) ∨
    (us.flatMap (·.before .auth) = [confirmPrevent] ∧ Unit.lock ∉ us ∧ Unit.confirm ∈ us) ∨
    (us.flatMap (·.before .auth) = [lockUpdate true, confirmPrevent] ∧ Unit.lock ∈ us ∧ Unit.confirm ∈ us) ∨
    (us.flatMap (·.before .auth) = [confirmPrevent, lockUpdate true] ∧ Unit.lock ∈ us ∧ Unit.confirm ∈ us) := by
  induction us with
  | nil => simp
  | cons u us ih =>
    have hn := List.nodup_cons.mp h
    have ih := ih hn.2
    rw [List.flatMap_cons]
    by_cases h1 : u = .lock
    · subst h1
      have : Unit.before .lock .auth = [lockUpdate true] := rfl
      rw [this]
      rcases ih with ⟨e, a, b⟩ | ⟨e, a, b⟩ | ⟨e, a, b⟩ | ⟨e, a, b⟩ | ⟨e, a, b⟩ <;> simp_all
    · by_cases h2 : u = .confirm
      · subst h2
        have : Unit.before .confirm .auth = [confirmPrevent] := rfl
        rw [this]
        rcases ih with ⟨e, a, b⟩ | ⟨e, a, b⟩ | ⟨e, a, b⟩ | ⟨e, a, b⟩ | ⟨e, a, b⟩ <;> simp_all
      · rw [before_auth_other u h1 h2]
        have hl : (Unit.lock ∈ u :: us) = (Unit.lock ∈ us) := by simp [Ne.symm h1]
        have hc : (Unit.confirm ∈ u :: us) = (Unit.confirm ∈ us) := by simp [Ne.symm h2]
        rw [hl, hc]
        simpa using ih

/-- What a locked account answers to a login attempt. -/
def lockedAnswer (c : Ctx) : List Act :=
  if c.cfg.json then [.respond (.redirect root none (some .locked))]
  else [.sess (.put .flashErr (lit Txt.locked.name)), .respond (.redirect root none (some .locked))]

theorem C16_locked_wrong_password (c : Ctx) (u : User) (hf : c.fault = none) (hnd : c.cfg.units.Nodup)
    (hlock : Unit.lock ∈ c.cfg.units) (hd : 0 < c.cfg.lockDuration)
    (hfind : c.store.find c.req.pid = some u) (hwrong : (u.pw.isEmpty || u.pw != c.req.pw) = true)
    (hl : Lock.isLocked c.now u.lstate = true) :
    (authLoginPost c).1 = .stop .done ∧ (authLoginPost c).2.acts = c.acts ++ lockedAnswer c := by
  have ha := authFail_handlers c.cfg.units hnd
  simp only [hlock, if_true] at ha
  have hw : u.pw = [] ∨ ¬ u.pw = c.req.pw := by simpa using hwrong
  have hl' := locked_after_update (lockCfg c.cfg) c.now false u.lstate hl hd
  unfold authLoginPost M.load
  by_cases hj : c.cfg.json = true <;>
  simp [bind_apply, M.get, backend, hf, hfind, pure_apply, M.logf, M.modify, M.respond, M.render, M.act, M.fail, M.stop,
      M.setCtxUser, hw, fireAfter, ha, callHandlers, lockUpdate, M.currentUser, M.writeBack, M.save, hl', withL_lstate,
      M.redirect, redirTarget, M.putS, lockedAnswer, hj]


theorem C16_locked_correct_password (c : Ctx) (u : User) (hf : c.fault = none) (hnd : c.cfg.units.Nodup)
    (hlock : Unit.lock ∈ c.cfg.units) (hconf : u.confirmed = true)
    (hfind : c.store.find c.req.pid = some u) (hright : (u.pw.isEmpty || u.pw != c.req.pw) = false)
    (hl : Lock.isLocked c.now u.lstate = true) :
    (authLoginPost c).1 = .stop .done ∧ (authLoginPost c).2.acts = c.acts ++ lockedAnswer c := by
  have hw : ¬ (u.pw = [] ∨ ¬ u.pw = c.req.pw) := by simpa using hright
  have hl' : Lock.isLocked c.now (Lock.update (lockCfg c.cfg) c.now true u.lstate) = true := by
    simpa [Lock.update, Lock.isLocked] using hl
  have hcf : (u.withL (Lock.update (lockCfg c.cfg) c.now true u.lstate)).confirmed = true := hconf
  unfold authLoginPost M.load
  rcases before_auth_list c.cfg.units hnd with ⟨_, a, _⟩ | ⟨hb, _, _⟩ | ⟨_, a, _⟩ | ⟨hb, _, _⟩ | ⟨hb, _, _⟩
  · exact absurd hlock a
  · by_cases hj : c.cfg.json = true <;>
    simp [bind_apply, M.get, backend, hf, hfind, pure_apply, M.logf, M.modify, M.render, M.act, M.fail, M.stop,
      M.setCtxUser, hw, fireBefore, hb, callHandlers, lockUpdate, M.currentUser, M.writeBack, M.save, hl', withL_lstate,
      M.redirect, redirTarget, M.putS, lockedAnswer, hj]
  · exact absurd hlock a
  · by_cases hj : c.cfg.json = true <;>
    simp [bind_apply, M.get, backend, hf, hfind, pure_apply, M.logf, M.modify, M.render, M.act, M.fail, M.stop,
      M.setCtxUser, hw, fireBefore, hb, callHandlers, lockUpdate, confirmPrevent, M.currentUser, M.writeBack, M.save, hl', withL_lstate,
      M.redirect, redirTarget, M.putS, lockedAnswer, hj, hcf, hconf]
  · by_cases hj : c.cfg.json = true <;>
    simp [bind_apply, M.get, backend, hf, hfind, pure_apply, M.logf, M.modify, M.render, M.act, M.fail, M.stop,
      M.setCtxUser, hw, fireBefore, hb, callHandlers, lockUpdate, confirmPrevent, M.currentUser, M.writeBack, M.save, hl', withL_lstate,
      M.redirect, redirTarget, M.putS, lockedAnswer, hj, hcf, hconf]


/-! ### One-time-password login (same three shapes) -/

def otpRefusal (_c : Ctx) : List Act := [.respond (.page .otplogin (errTag .invalidCredentials))]

theorem C16_otp_unknown (c : Ctx) (hf : c.fault = none) (hfind : c.store.find c.req.pid = none) :
    (otpLoginPost c).1 = .ok ⟨⟩ ∧ (otpLoginPost c).2.acts = c.acts ++ otpRefusal c := by
  unfold otpLoginPost M.load
  simp [bind_apply, M.get, backend, hf, hfind, pure_apply, M.logf, M.modify, M.respond, M.render, M.act, otpRefusal, M.fail, M.stop]

theorem C16_otp_wrong (c : Ctx) (u : User) (hf : c.fault = none) (hnd : c.cfg.units.Nodup)
    (hfind : c.store.find c.req.pid = some u) (hwrong : u.otps.findIdx? (· == c.req.pw) = none)
    (hnl : Lock.isLocked c.now (Lock.update (lockCfg c.cfg) c.now false u.lstate) = false) :
    (otpLoginPost c).1 = .ok ⟨⟩ ∧ (otpLoginPost c).2.acts = c.acts ++ otpRefusal c := by
  have ha := authFail_handlers c.cfg.units hnd
  unfold otpLoginPost M.load
  by_cases hl : Unit.lock ∈ c.cfg.units
  · simp only [hl, if_true] at ha
    simp [bind_apply, M.get, backend, hf, hfind, pure_apply, M.logf, M.modify, M.respond, M.render, M.act, otpRefusal, M.fail, M.stop,
      M.setCtxUser, hwrong, fireAfter, ha, callHandlers, lockUpdate, M.currentUser, M.writeBack, M.save, hnl, withL_lstate]
  · simp only [hl, if_false] at ha
    simp [bind_apply, M.get, backend, hf, hfind, pure_apply, M.logf, M.modify, M.respond, M.render, M.act, otpRefusal, M.fail, M.stop,
      M.setCtxUser, hwrong, fireAfter, ha, callHandlers]

theorem C16_locked_wrong_otp (c : Ctx) (u : User) (hf : c.fault = none) (hnd : c.cfg.units.Nodup)
    (hlock : Unit.lock ∈ c.cfg.units) (hd : 0 < c.cfg.lockDuration)
    (hfind : c.store.find c.req.pid = some u) (hwrong : u.otps.findIdx? (· == c.req.pw) = none)
    (hl : Lock.isLocked c.now u.lstate = true) :
    (otpLoginPost c).1 = .stop .done ∧ (otpLoginPost c).2.acts = c.acts ++ lockedAnswer c := by
  have ha := authFail_handlers c.cfg.units hnd
  simp only [hlock, if_true] at ha
  have hl' := locked_after_update (lockCfg c.cfg) c.now false u.lstate hl hd
  unfold otpLoginPost M.load
  by_cases hj : c.cfg.json = true <;>
  simp [bind_apply, M.get, backend, hf, hfind, pure_apply, M.logf, M.modify, M.respond, M.render, M.act, M.fail, M.stop,
      M.setCtxUser, hwrong, fireAfter, ha, callHandlers, lockUpdate, M.currentUser, M.writeBack, M.save, hl', withL_lstate,
      M.redirect, redirTarget, M.putS, lockedAnswer, hj]

theorem C16_locked_correct_otp (c : Ctx) (u : User) (i : Nat) (hf : c.fault = none) (hnd : c.cfg.units.Nodup)
    (hlock : Unit.lock ∈ c.cfg.units) (hconf : u.confirmed = true)
    (hfind : c.store.find c.req.pid = some u) (hright : u.otps.findIdx? (· == c.req.pw) = some i)
    (hl : Lock.isLocked c.now u.lstate = true) :
    (otpLoginPost c).1 = .stop .done ∧ (otpLoginPost c).2.acts = c.acts ++ lockedAnswer c := by
  have hlk : u.locked > c.now := by simpa [Lock.isLocked, User.lstate] using hl
  have hnle : ¬ (u.locked ≤ c.now) := Int.not_le.mpr hlk
  unfold otpLoginPost M.load
  rcases before_auth_list c.cfg.units hnd with ⟨_, a, _⟩ | ⟨hb, _, _⟩ | ⟨_, a, _⟩ | ⟨hb, _, _⟩ | ⟨hb, _, _⟩
  · exact absurd hlock a
  · by_cases hj : c.cfg.json = true <;>
    simp [bind_apply, M.get, backend, hf, hfind, pure_apply, M.logf, M.modify, M.render, M.act, M.fail, M.stop,
      M.setCtxUser, hright, fireBefore, hb, callHandlers, lockUpdate, M.currentUser, M.writeBack, M.save,
      M.redirect, redirTarget, M.putS, lockedAnswer, hj, Lock.isLocked, Lock.update, User.lstate, User.withL, hlk, hnle]
  · exact absurd hlock a
  · by_cases hj : c.cfg.json = true <;>
    simp [bind_apply, M.get, backend, hf, hfind, pure_apply, M.logf, M.modify, M.render, M.act, M.fail, M.stop,
      M.setCtxUser, hright, fireBefore, hb, callHandlers, lockUpdate, confirmPrevent, M.currentUser, M.writeBack, M.save,
      M.redirect, redirTarget, M.putS, lockedAnswer, hj, hconf, Lock.isLocked, Lock.update, User.lstate, User.withL, hlk, hnle]
  · by_cases hj : c.cfg.json = true <;>
    simp [bind_apply, M.get, backend, hf, hfind, pure_apply, M.logf, M.modify, M.render, M.act, M.fail, M.stop,
      M.setCtxUser, hright, fireBefore, hb, callHandlers, lockUpdate, confirmPrevent, M.currentUser, M.writeBack, M.save,
      M.redirect, redirTarget, M.putS, lockedAnswer, hj, hconf, Lock.isLocked, Lock.update, User.lstate, User.withL, hlk, hnle]

/-! ### The two-run statements of the property -/

def stopOf {α} : Res α → Option Stop
  | .ok _ => none
  | .stop s => some s

/-- What the client observes of a handler run: how it ended and what it appended. -/
def observed {α} (h : H α) (c : Ctx) : Option Stop × List Act :=
  (stopOf (h c).1, (h c).2.acts.drop c.acts.length)

theorem observed_of {α} {h : H α} {c : Ctx} {r : Res α} {ans : List Act}
    (h1 : (h c).1 = r) (h2 : (h c).2.acts = c.acts ++ ans) :
    observed h c = (stopOf r, ans) := by
  unfold observed; rw [h1, h2]; simp

/-- Two requests "look alike to the server except for …": same configuration, clock and
pending client state; they may differ in the store they meet and in the request. -/
structure Alike (c1 c2 : Ctx) : Prop where
  cfg : c1.cfg = c2.cfg
  acts : c1.acts = c2.acts

/-- **C16 (a).** Locked, confirmed account: a correct and an incorrect password are answered
identically — for every attempt counter, every lock instant in the future, with or without
the confirm module and in either load order. -/
theorem C16_a (c1 c2 : Ctx) (u1 u2 : User) (hal : Alike c1 c2)
    (hf1 : c1.fault = none) (hf2 : c2.fault = none) (hnd : c1.cfg.units.Nodup)
    (hlock : Unit.lock ∈ c1.cfg.units) (hd : 0 < c1.cfg.lockDuration)
    (h1 : c1.store.find c1.req.pid = some u1) (h2 : c2.store.find c2.req.pid = some u2)
    (hl1 : Lock.isLocked c1.now u1.lstate = true) (hl2 : Lock.isLocked c2.now u2.lstate = true)
    (hconf : u1.confirmed = true)
    (hright : (u1.pw.isEmpty || u1.pw != c1.req.pw) = false)
    (hwrong : (u2.pw.isEmpty || u2.pw != c2.req.pw) = true) :
    observed authLoginPost c1 = observed authLoginPost c2 := by
  have hcfg := hal.cfg
  have a := C16_locked_correct_password c1 u1 hf1 hnd hlock hconf h1 hright hl1
  have b := C16_locked_wrong_password c2 u2 hf2 (hcfg ▸ hnd) (hcfg ▸ hlock) (hcfg ▸ hd) h2 hwrong hl2
  rw [observed_of a.1 a.2, observed_of b.1 b.2]
  simp [lockedAnswer, hcfg]

/-- **C16 (a)** for the one-time-password login. -/
theorem C16_a_otp (c1 c2 : Ctx) (u1 u2 : User) (i : Nat) (hal : Alike c1 c2)
    (hf1 : c1.fault = none) (hf2 : c2.fault = none) (hnd : c1.cfg.units.Nodup)
    (hlock : Unit.lock ∈ c1.cfg.units) (hd : 0 < c1.cfg.lockDuration)
    (h1 : c1.store.find c1.req.pid = some u1) (h2 : c2.store.find c2.req.pid = some u2)
    (hl1 : Lock.isLocked c1.now u1.lstate = true) (hl2 : Lock.isLocked c2.now u2.lstate = true)
    (hconf : u1.confirmed = true)
    (hright : u1.otps.findIdx? (· == c1.req.pw) = some i)
    (hwrong : u2.otps.findIdx? (· == c2.req.pw) = none) :
    observed otpLoginPost c1 = observed otpLoginPost c2 := by
  have hcfg := hal.cfg
  have a := C16_locked_correct_otp c1 u1 i hf1 hnd hlock hconf h1 hright hl1
  have b := C16_locked_wrong_otp c2 u2 hf2 (hcfg ▸ hnd) (hcfg ▸ hlock) (hcfg ▸ hd) h2 hwrong hl2
  rw [observed_of a.1 a.2, observed_of b.1 b.2]
  simp [lockedAnswer, hcfg]

/-- **C16 (b).** A recovery request is answered identically whether or not the named account
exists (whatever its state). -/
theorem C16_b (c1 c2 : Ctx) (hal : Alike c1 c2) (hf1 : c1.fault = none) (hf2 : c2.fault = none)
    (hv1 : c1.req.valid = true) (hv2 : c2.req.valid = true) :
    observed recoverStartPost c1 = observed recoverStartPost c2 := by
  have a := C16_recover_start c1 hf1 hv1
  have b := C16_recover_start c2 hf2 hv2
  rw [observed_of a.1 a.2, observed_of b.1 b.2]
  simp [recoverAnswer, hal.cfg]

/-- **C16 (c).** A failed login naming an unknown account and one naming a known account with a
wrong password that does not lock it are answered identically. -/
theorem C16_c (c1 c2 : Ctx) (u : User) (hf1 : c1.fault = none) (hf2 : c2.fault = none)
    (hnd : c2.cfg.units.Nodup)
    (h1 : c1.store.find c1.req.pid = none) (h2 : c2.store.find c2.req.pid = some u)
    (hwrong : (u.pw.isEmpty || u.pw != c2.req.pw) = true)
    (hnl : Lock.isLocked c2.now (Lock.update (lockCfg c2.cfg) c2.now false u.lstate) = false) :
    observed authLoginPost c1 = observed authLoginPost c2 := by
  have a := C16_login_unknown c1 hf1 h1
  have b := C16_login_wrong_password c2 u hf2 hnd h2 hwrong hnl
  rw [observed_of a.1 a.2, observed_of b.1 b.2]
  rfl

theorem C16_c_otp (c1 c2 : Ctx) (u : User) (hf1 : c1.fault = none) (hf2 : c2.fault = none)
    (hnd : c2.cfg.units.Nodup)
    (h1 : c1.store.find c1.req.pid = none) (h2 : c2.store.find c2.req.pid = some u)
    (hwrong : u.otps.findIdx? (· == c2.req.pw) = none)
    (hnl : Lock.isLocked c2.now (Lock.update (lockCfg c2.cfg) c2.now false u.lstate) = false) :
    observed otpLoginPost c1 = observed otpLoginPost c2 := by
  have a := C16_otp_unknown c1 hf1 h1
  have b := C16_otp_wrong c2 u hf2 hnd h2 hwrong hnl
  rw [observed_of a.1 a.2, observed_of b.1 b.2]
  rfl

/-- The side condition of (c) is needed: an attempt that *does* lock the account is answered
differently (the lock redirect) — kernel-evaluated on a concrete run. -/
example :
    let cfg : Config := { units := [.auth, .lock], lockAfter := 1, lockWindow := 1000, lockDuration := 1000 }
    let u : User := { pid := lit "a@x.c", pw := lit "pw", confirmed := true }
    let s := run cfg {} [.seedUser u, .http (lit "b") .login { pid := lit "a@x.c", pw := lit "bad" } none]
    (s.browser (lit "b")).sess.get .flashErr = some (lit Txt.locked.name) := by decide


/-- Non-vacuity of (a): a concrete locked, confirmed account in a configuration with lock and
confirm loaded; both passwords leave the browser in the same state (kernel-evaluated through
the whole request pipeline, middlewares included). -/
example :
    let cfg : Config := { units := [.confirm, .auth, .lock, .remember], lockAfter := 3, lockWindow := 1000, lockDuration := 1000 }
    let u : User := { pid := lit "a@x.c", pw := lit "pw", confirmed := true, locked := 500, attempts := 2 }
    let s1 := run cfg {} [.seedUser u, .http (lit "b") .login { pid := lit "a@x.c", pw := lit "pw" } none]
    let s2 := run cfg {} [.seedUser u, .http (lit "b") .login { pid := lit "a@x.c", pw := lit "bad" } none]
    (s1.browser (lit "b")).sess = (s2.browser (lit "b")).sess ∧
    (s1.browser (lit "b")).sess.get .flashErr = some (lit Txt.locked.name) := by decide

end AuthbossModel.M
