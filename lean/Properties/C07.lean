/-
  C07 — Remember-me cookies are single-use, bound to one user, and grant only half-auth.
-/
import Proofs.Dispatch

namespace AuthbossModel.M
attribute [local irreducible] Frame Lic

/-- **C07_codec.** For *every* PID byte string (including `;`, `;;`, NUL, the PIDs the library
builds for OAuth2 users) and every 32-byte nonce, the PID parsed back from the raw token is
the PID it was generated for.  (False before the `fix:` that splits at the nonce length.) -/
theorem C07_codec (pid nonce : Bytes) (hn : nonce.length = 32) :
    rememberPid (rememberRaw pid nonce) = some pid := by
  unfold rememberPid rememberRaw
  have hl : (pid ++ [59] ++ nonce).length = pid.length + 33 := by simp [hn]
  simp only [hl]
  have h1 : ¬ (pid.length + 33 < 33) := by omega
  simp only [h1, if_false]
  have h2 : pid.length + 33 - 33 = pid.length := by omega
  rw [h2]
  have h3 : (pid ++ [59] ++ nonce)[pid.length]? = some 59 := by
    rw [List.append_assoc, List.getElem?_append_right (by omega)]; simp
  simp [h3, List.take_append_of_le_length, List.append_assoc]

/-- Instantiated at the identifiers `MakeOAuth2PID` builds. -/
theorem C07_codec_oauth (provider uid nonce : Bytes) (hn : nonce.length = 32) :
    rememberPid (rememberRaw (makeOAuth2PID provider uid) nonce) = some (makeOAuth2PID provider uid) :=
  C07_codec _ _ hn

/-- Anything shorter than a separator plus a nonce, or without the separator in place, names nobody. -/
theorem C07_malformed (raw : Bytes) (h : raw.length < 33) : rememberPid raw = none := by
  simp [rememberPid, h]

/-- **C07_bound_to_user / only stored tokens.** The remember middleware writes an identity
`U` only if the cookie decodes to a raw token that names `U` *and* that exact token is in
storage for `U` (`rememberAuthenticate_safe`). -/
theorem C07_only_stored (c0 : Ctx) :
    Safe (fun U => ∃ raw, c0.rm = some (.raw raw) ∧ rememberPid raw = some U ∧ (U, raw) ∈ c0.store.tokens)
      rememberAuthenticate c0 := rememberAuthenticate_safe c0

/-- **C07_single_use.** A successful use removes one occurrence of the token from storage. -/
theorem C07_single_use {pid raw : Bytes} {c c' : Ctx} (h : useToken pid raw c = (.ok (some true), c')) :
    c'.store.tokens = c.store.tokens.erase (pid, raw) := by
  unfold useToken at h
  rw [bind_apply, backend_eq] at h
  generalize oracle c = o at h
  cases o with
  | some k => cases k <;> simp [pure_apply] at h
  | none =>
    simp only [bind_apply, M.get] at h
    have ht : (tick c).store = c.store := rfl
    rw [ht] at h
    by_cases hc : (pid, raw) ∈ c.store.tokens
    · simp only [List.contains_eq_mem, decide_eq_true_eq, hc, if_true, bind_apply, M.modify, pure_apply] at h
      simp at h; rw [← h]; rfl
    · simp only [List.contains_eq_mem, decide_eq_true_eq, hc, if_false] at h
      simp [pure_apply] at h

/-- so a token that occurred once is gone: presenting the same cookie again finds nothing. -/
theorem C07_dead_after_use (toks : List (Bytes × Bytes)) (t : Bytes × Bytes) (h1 : toks.count t = 1) :
    t ∉ toks.erase t := by
  intro hm
  have := List.count_erase_self (a := t) (l := toks)
  have hpos : 0 < (toks.erase t).count t := List.count_pos_iff.mpr hm
  omega

/-- **C07_issue_only_if_asked.** `RememberAfterAuth` adds a token / cookie only when the
request's values say `rm = "true"`. -/
theorem C07_issue_only_if_asked (b : Bool) (c : Ctx) (h : c.values = false ∨ c.rmValue = false) :
    rememberAfterAuth b c = (.ok false, c) := by
  unfold rememberAfterAuth
  simp only [bind_apply, M.get]
  rcases h with h | h
  · simp [h, pure_apply]
  · by_cases hv : c.values = true <;> simp [hv, h, pure_apply]

/-! ### Non-vacuity / regression examples (kernel-evaluated) -/

example : rememberPid (rememberRaw (lit "oauth2;;google;;u;1") (List.replicate 32 7)) = some (lit "oauth2;;google;;u;1") := by decide
example : rememberPid (lit "no-separator-here-xxxxxxxxxxxxxxxxxxxxxxxxxxxxxxxxx") = none := by decide

end AuthbossModel.M
