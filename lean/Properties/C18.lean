/-
  C18 — Backend failures never panic, fake success or weaken security state.

  In the model every call that leaves the library (storage, hasher, renderer, mailer, SMS
  sender, OAuth2 provider) goes through `backend`, which consults the fault oracle of the
  context (`oracle c`).  Every theorem here is stated for an arbitrary context, i.e. for
  every fault oracle: every call index and every error kind at once.

  What is proved:
  * a failing `Save` / token use / hash / render changes nothing in storage and is reported
    to the caller (`C18_save_fault`, `C18_useToken_fault`, …);
  * save-before-session ordering on the four one-time credentials (the mechanism the
    property is anchored in): one-time password (`C12_otp_consumed_first`, re-exported),
    remember token (`C18_remember_consumed`), recovery code at the TOTP and at the SMS step
    (`C18_totp_reccode_saved`, `C18_sms_reccode_saved`);
  * a failed user save never puts a record in storage (`C18_save_monotone`).

  * `C18_no_panic`: no request on any route other than the three that *are*
    `lock.Middleware` / `confirm.Middleware` (known finding K3) ends in a panic, whatever call
    fails and however (`Proofs/NoPanic.lean`: every handler, event handler, middleware).

  What is *not* proved here and is decided by the fault enumeration of the correspondence
  check instead (see DESIGN.md): "no success response for an unsaved change" per route, and
  "nothing spent comes back".
-/
import Proofs.Dispatch
import Proofs.Veto
import Proofs.SafeTop
import Proofs.ReadOnly
import Proofs.NoPanic
import Proofs.StepUid
import Properties.C12

namespace AuthbossModel.M
attribute [local irreducible] Frame Lic

/-! ### A failing backend call changes nothing and is reported -/

/-- `Save` under a fault: reports the error, leaves storage as it was. -/
theorem C18_save_fault (u : User) (c : Ctx) (k : ErrKind) (h : oracle c = some k) :
    (M.save u c).1 = .ok true ∧ (M.save u c).2.store = c.store := by
  unfold M.save
  rw [bind_apply, backend_eq, h]
  simp [pure_apply, tick]

/-- `Save` either fails and leaves storage untouched, or succeeds and stores exactly `u`. -/
theorem C18_save_monotone (u : User) (c : Ctx) :
    ((M.save u c).1 = .ok true ∧ (M.save u c).2.store = c.store) ∨
    ((M.save u c).1 = .ok false ∧ (M.save u c).2.store = c.store.upsert u) := by
  cases h : oracle c with
  | some k => exact Or.inl (C18_save_fault u c k h)
  | none =>
    right
    unfold M.save
    rw [bind_apply, backend_eq, h]
    simp [bind_apply, M.modify, pure_apply, tick]

/-- The hasher and the renderer under a fault: reported, nothing stored. -/
theorem C18_hash_fault (c : Ctx) (k : ErrKind) (h : oracle c = some k) :
    (M.hash c).1 = .ok true ∧ (M.hash c).2.store = c.store := by
  unfold M.hash; rw [bind_apply, backend_eq, h]; simp [pure_apply, tick]

theorem C18_render_fault (c : Ctx) (k : ErrKind) (h : oracle c = some k) :
    (M.render c).1 = .ok true ∧ (M.render c).2.store = c.store := by
  unfold M.render; rw [bind_apply, backend_eq, h]; simp [pure_apply, tick]

/-- A page whose rendering fails is never written: the request ends with an error. -/
theorem C18_respond_fault (p : Page) (t : List String) (c : Ctx) (k : ErrKind) (h : oracle c = some k) :
    (∃ e, (M.respond p t c).1 = .stop (.err e)) ∧ (M.respond p t c).2.acts = c.acts := by
  unfold M.respond M.render
  simp only [bind_apply, backend_eq, h]
  simp [pure_apply, M.fail, M.stop, tick]

/-- A remember token whose `UseRememberToken` call fails is *not* consumed and does *not*
authenticate (`none` = error, `some false` = token not found). -/
theorem C18_useToken_fault (pid raw : Bytes) (c : Ctx) (k : ErrKind) (h : oracle c = some k) :
    (useToken pid raw c).1 ≠ .ok (some true) ∧ (useToken pid raw c).2.store = c.store := by
  unfold useToken
  rw [bind_apply, backend_eq, h]
  cases k <;> simp [pure_apply, tick]

/-! ### Save-before-session ordering on one-time credentials -/

/-- **Remember token.** `useToken` answers `true` only when the storage call did not fail and
the token has been erased from storage. -/
theorem C18_useToken_true {pid raw c c'} (h : useToken pid raw c = (Res.ok (some true), c')) :
    oracle c = none ∧ c'.store.tokens = c.store.tokens.erase (pid, raw) := by
  unfold useToken at h
  rw [bind_apply, backend_eq] at h
  generalize ho : oracle c = o at h
  cases o with
  | some k => cases k <;> simp [pure_apply] at h
  | none =>
    refine ⟨rfl, ?_⟩
    simp only [bind_apply, M.get] at h
    have : (tick c).store = c.store := rfl
    rw [this] at h
    by_cases hc : (pid, raw) ∈ c.store.tokens
    · simp only [List.contains_eq_mem, decide_eq_true_eq, hc, if_true, bind_apply, M.modify, pure_apply] at h
      simp at h
      rw [← h]; rfl
    · simp only [List.contains_eq_mem, decide_eq_true_eq, hc, if_false] at h
      simp [pure_apply] at h

set_option maxHeartbeats 4000000 in
/-- **C18_remember_consumed.** `remember.Authenticate` writes an identity only for the PID of
a token whose consumption succeeded in storage — for every fault oracle. -/
theorem C18_remember_consumed (c0 : Ctx) :
    Safe (fun U => ∃ raw c', c0.rm = some (.raw raw) ∧ rememberPid raw = some U ∧
        useToken U raw c0 = (.ok (some true), c') ∧ oracle c0 = none ∧
        c'.store.tokens = c0.store.tokens.erase (U, raw))
      rememberAuthenticate c0 := by
  unfold rememberAuthenticate
  safe_auto
  obtain ⟨rfl, rfl⟩ := get_ok (by assumption)
  have h1 := ‹c0.rm = some (Cookie.raw _)›
  have h2 := ‹rememberPid _ = some _›
  have h3 := ‹useToken _ _ c0 = _›
  have h4 := C18_useToken_true h3
  unfold Lic
  exact ⟨_, _, h1, h2, h3, h4.1, h4.2⟩

/-- **One-time password.** (Proved as `C12_otp_consumed_first`: the identity is written only
after the record without the matched password has been saved successfully.) -/
theorem C18_otp_consumed (c0 : Ctx) :
    Safe (fun U => ∃ u i cX cY, c0.store.find U = some u ∧
        List.findIdx? (fun y => y == c0.req.pw) u.otps = some i ∧
        M.save { u with otps := swapRemove u.otps i } cX = (.ok false, cY))
      otpLoginPost c0 := C12_otp_consumed_first c0

attribute [local irreducible] Ret Post

set_option maxHeartbeats 4000000 in
/-- **Recovery code at the TOTP step.** When `totpValidate` reports success for a request that
carries a recovery code, the user it returns is the pending user minus one stored code equal
to the submitted one, and that record has been saved successfully. -/
theorem C18_totp_reccode_saved (c0 : Ctx) (hr : c0.req.rcode ≠ []) :
    Ret (fun r _ => ∀ u, r = some (u, TotpStatus.success) →
          ∃ (u0 : User) (rest : List Bytes) (cX cY : Ctx),
            useRecoveryCode u0.recCodes c0.req.rcode = some rest ∧
            u = { u0 with recCodes := rest } ∧ M.save u cX = (.ok false, cY))
      totpValidate c0 := by
  unfold totpValidate
  ret_auto
  all_goals (unfold Post; intro u hu)
  all_goals first
    | (simp at hu; done)
    | (have ht := ‹tfaUser SKey.totpPending c0 = _›
       have hg := ‹M.get _ = (Res.ok _, _)›
       obtain ⟨rfl, rfl⟩ := get_ok hg
       have hq := (RO.tfaUser SKey.totpPending c0).1
       rw [ht] at hq
       simp only at hq
       first
        | (exfalso
           have hn := ‹¬(!List.isEmpty _) = true›
           rw [hq] at hn
           simp at hn
           exact hr hn)
        | (have hs := ‹M.save _ _ = _›
           have hb := ‹¬ _ = true›
           have hu' := ‹useRecoveryCode _ _ = some _›
           rw [hq] at hu'
           simp at hb
           subst hb
           simp at hu
           subst hu
           exact ⟨_, _, _, _, hu', rfl, hs⟩))

set_option maxHeartbeats 4000000 in
/-- **Recovery code at the SMS step.** When `smsVerdict` accepts a request that carries a
recovery code (outside enrolment, where recovery codes are not consulted), the user it returns
is `u` minus one stored code equal to the submitted one, saved successfully. -/
theorem C18_sms_reccode_saved (pg : SmsPage) (u : User) (c0 : Ctx)
    (hr : c0.req.rcode ≠ []) (hpg : pg ≠ .confirm) :
    Ret (fun r _ => ∀ u', r = (u', true) →
          ∃ (rest : List Bytes) (cX cY : Ctx),
            useRecoveryCode u.recCodes c0.req.rcode = some rest ∧
            u' = { u with recCodes := rest } ∧ M.save u' cX = (.ok false, cY))
      (smsVerdict pg u) c0 := by
  unfold smsVerdict
  ret_auto
  all_goals (unfold Post; intro u' hu)
  all_goals (
    have hg := ‹M.get _ = (Res.ok _, _)›
    obtain ⟨rfl, rfl⟩ := get_ok hg)
  all_goals first
    | (simp at hu; done)
    | (exfalso
       have hn := ‹¬(!List.isEmpty _ && _) = true›
       have : (pg != SmsPage.confirm) = true := by cases pg <;> simp_all
       simp [this] at hn
       exact hr hn)
    | (have hs := ‹M.save _ _ = _›
       have hb := ‹¬ _ = true›
       have hu' := ‹useRecoveryCode _ _ = some _›
       simp at hb
       subst hb
       simp at hu
       subst hu
       exact ⟨_, _, _, hu', rfl, hs⟩)

/-! ### No panic -/

/-- **C18_no_panic.** For every configuration, state, request and fault oracle: a request on
any route other than `lock.Middleware` / `confirm.Middleware` themselves never ends in a panic. -/
theorem C18_no_panic (cfg : Config) (s : State) (b : Bytes) (rt : Route) (req : Req) (fault : Option Fault)
    (h1 : rt ≠ .lockmw) (h2 : rt ≠ .confirmmw) (h3 : rt ≠ .rootmw) (e : String) :
    (stepHttp cfg s b rt req fault).2.stop ≠ some (.panic e) := by
  unfold stepHttp
  simp only
  have := NoPanic.serve rt h1 h2 h3 (initCtx cfg s b req fault) e
  generalize serve rt (initCtx cfg s b req fault) = r at this
  obtain ⟨res, c⟩ := r
  cases res with
  | ok a => simp
  | stop st => intro h; simp at h; subst h; exact this rfl

def cfgK3 : Config := { units := [.auth, .lock] }
def sK3 : State := run cfgK3 {} [.seedUser { pid := lit "a@x.c", pw := lit "pw", confirmed := true },
                                  .setSess (lit "b") [(.uid, lit "a@x.c")]]

/-- K3, in the model as in the code: `lock.Middleware` panics when loading the user fails
(the excluded routes of `C18_no_panic` are excluded for a reason). -/
example : (stepHttp cfgK3 sK3 (lit "b") .lockmw {} (some ⟨0, .generic⟩)).2.stop = some (.panic "LoadCurrentUserP") := by
  decide

/-! ### Non-vacuity -/

def nv18 : Config := { units := [.otp, .auth, .lock], lockAfter := 3, lockWindow := 1000, lockDuration := 1000 }
def nv18User : User := { pid := lit "a@x.c", pw := lit "pw", confirmed := true, otps := [lit "o1", lit "o2"] }

/-- One-time-password login, clean: logged in, the password is gone from storage. -/
example :
    let s := run nv18 {} [.seedUser nv18User, .http (lit "b") .otpLogin { pid := lit "a@x.c", pw := lit "o1" } none]
    ((s.browser (lit "b")).sess.get .uid, (s.store.find (lit "a@x.c")).map (·.otps)) =
      (some (lit "a@x.c"), some [lit "o2"]) := by decide

/-- The same request with the `Save` that removes the password failing (backend call 1):
no session, and the password is still there. -/
example :
    let s := run nv18 {} [.seedUser nv18User, .http (lit "b") .otpLogin { pid := lit "a@x.c", pw := lit "o1" } (some ⟨1, .generic⟩)]
    ((s.browser (lit "b")).sess.get .uid, (s.store.find (lit "a@x.c")).map (·.otps)) =
      (none, some [lit "o1", lit "o2"]) := by decide

end AuthbossModel.M
