/-
  C15 — Client-supplied return targets never redirect off-site.
  For *every* byte string `v`: if the guard lets `v` through, neither `v` itself (the JSON
  `location` answer) nor what `http.Redirect` makes of it (the `Location` header) is a
  reference a browser resolves to another origin.
-/
import AuthbossModel.Redirect

namespace AuthbossModel.Redirect
open AuthbossModel.PathClean

/-! ### What the guard guarantees -/

theorem guard_shape (v : Bytes) (h : guard v = true) :
    ∃ rest, v = 47 :: rest ∧ (∀ c1 r, rest = c1 :: r → c1 ≠ 47 ∧ c1 ≠ 92) ∧ (∀ c ∈ v, badByte c = false) := by
  unfold guard at h
  cases v with
  | nil => simp at h
  | cons c0 rest =>
    simp only [Bool.and_eq_true, beq_iff_eq, Bool.not_eq_true'] at h
    obtain ⟨⟨⟨h0, h1⟩, h2⟩, _⟩ := h
    subst h0
    refine ⟨rest, rfl, ?_, ?_⟩
    · intro c1 r hr
      subst hr
      simp at h1
      exact h1
    · intro c hc
      have := List.any_eq_false.mp h2 c hc
      simpa using this

/-- Values that pass the guard contain nothing a browser strips. -/
theorem preprocess_id (v : Bytes) (h : ∀ c ∈ v, badByte c = false) : preprocess v = v := by
  have hgt : ∀ c ∈ v, ¬ (c ≤ 32) := by
    intro c hc hle
    have := h c hc
    simp [badByte] at this
    exact absurd hle (by simpa using this.1.1)
  unfold preprocess
  have h1 : v.dropWhile (· ≤ 32) = v := by
    cases v with
    | nil => rfl
    | cons a t => simp [List.dropWhile, hgt a (by simp)]
  have h2 : (v.reverse.dropWhile (· ≤ 32)).reverse = v := by
    have : v.reverse.dropWhile (· ≤ 32) = v.reverse := by
      cases hr : v.reverse with
      | nil => rfl
      | cons a t =>
        have ha : a ∈ v := by
          have : a ∈ v.reverse := by rw [hr]; simp
          simpa using this
        simp [List.dropWhile, hgt a ha]
    rw [this, List.reverse_reverse]
  simp only [h1, h2]
  apply List.filter_eq_self.mpr
  intro c hc
  have := hgt c hc
  simp
  refine ⟨⟨?_, ?_⟩, ?_⟩ <;> (intro he; subst he; exact this (by decide))

/-- **C15_value_same_site.** The value itself — what the JSON answer carries. -/
theorem C15_value_same_site (v : Bytes) (h : guard v = true) : offSite v = false := by
  obtain ⟨rest, rfl, h1, hb⟩ := guard_shape v h
  unfold offSite
  rw [preprocess_id _ hb]
  simp only [hasScheme, isAlpha]
  cases rest with
  | nil => simp
  | cons c1 r =>
    obtain ⟨ha, hb'⟩ := h1 c1 r rfl
    simp [isSlashish, ha, hb']

/-! ### `path.Clean` on a rooted path -/

theorem splitSlash_mem (p : Bytes) : ∀ seg ∈ splitSlash p, ∀ c ∈ seg, c ∈ p ∧ c ≠ 47 := by
  induction p with
  | nil => intro seg hs c hc; simp [splitSlash] at hs; subst hs; cases hc
  | cons a t ih =>
    intro seg hs c hc
    unfold splitSlash at hs
    by_cases ha : (a == slash) = true
    · simp only [ha, if_true, List.mem_cons] at hs
      rcases hs with rfl | hs
      · cases hc
      · obtain ⟨h1, h2⟩ := ih seg hs c hc
        exact ⟨List.mem_cons_of_mem _ h1, h2⟩
    · simp only [ha] at hs
      have hne : a ≠ 47 := by simpa [slash] using ha
      cases hsp : splitSlash t with
      | nil => simp [hsp] at hs; subst hs; simp at hc; subst hc; exact ⟨by simp, hne⟩
      | cons s ss =>
        have hs' : seg ∈ (a :: s) :: ss := by simpa [hsp] using hs
        cases hs' with
        | head =>
          simp only [List.mem_cons] at hc
          rcases hc with hc | hc
          · subst hc; exact ⟨by simp, hne⟩
          · obtain ⟨h1, h2⟩ := ih s (by rw [hsp]; simp) c hc
            exact ⟨List.mem_cons_of_mem _ h1, h2⟩
        | tail _ hm =>
          obtain ⟨h1, h2⟩ := ih seg (by rw [hsp]; exact List.mem_cons_of_mem _ hm) c hc
          exact ⟨List.mem_cons_of_mem _ h1, h2⟩

theorem cleanSegs_good (P : UInt8 → Prop) (rooted : Bool) (segs stack : List Bytes)
    (hsegs : ∀ s ∈ segs, ∀ c ∈ s, P c) (hstack : ∀ s ∈ stack, s ≠ [] ∧ ∀ c ∈ s, P c) :
    ∀ s ∈ cleanSegs rooted stack segs, s ≠ [] ∧ ∀ c ∈ s, P c := by
  induction segs generalizing stack with
  | nil => intro s hs; simp [cleanSegs] at hs; exact hstack s hs
  | cons seg rest ih =>
    have hrest : ∀ s ∈ rest, ∀ c ∈ s, P c := fun s hs => hsegs s (List.mem_cons_of_mem _ hs)
    have hseg : ∀ c ∈ seg, P c := hsegs seg (by simp)
    unfold cleanSegs
    split
    · exact ih stack hrest hstack
    · rename_i hne
      have hnonempty : seg ≠ [] := by
        intro he; subst he; simp at hne
      have hpush : ∀ s ∈ seg :: stack, s ≠ [] ∧ ∀ c ∈ s, P c := by
        intro s hs
        rcases List.mem_cons.mp hs with rfl | hs
        · exact ⟨hnonempty, hseg⟩
        · exact hstack s hs
      split
      · split
        · split
          · exact ih _ hrest hpush
          · exact ih _ hrest (fun s hs => hstack s (List.mem_cons_of_mem _ hs))
        · split
          · exact ih [] hrest (by intro s hs; cases hs)
          · exact ih [seg] hrest (by
              intro s hs; simp at hs; subst hs; exact ⟨hnonempty, hseg⟩)
      · exact ih _ hrest hpush

theorem joinSlash_mem (segs : List Bytes) : ∀ c ∈ joinSlash segs, c = 47 ∨ ∃ s ∈ segs, c ∈ s := by
  induction segs with
  | nil => intro c hc; cases hc
  | cons s rest ih =>
    intro c hc
    cases rest with
    | nil => simp [joinSlash] at hc; exact Or.inr ⟨s, by simp, hc⟩
    | cons r rs =>
      simp only [joinSlash, List.mem_append, List.mem_singleton, slash] at hc
      rcases hc with (hc | hc) | hc
      · exact Or.inr ⟨s, by simp, hc⟩
      · exact Or.inl hc
      · rcases ih c hc with h | ⟨s', hs', hcs⟩
        · exact Or.inl h
        · exact Or.inr ⟨s', List.mem_cons_of_mem _ hs', hcs⟩

theorem joinSlash_head (s : Bytes) (rest : List Bytes) (hs : s ≠ []) :
    ∃ c t, joinSlash (s :: rest) = c :: t ∧ c ∈ s := by
  cases s with
  | nil => exact absurd rfl hs
  | cons c t =>
    cases rest with
    | nil => exact ⟨c, t, rfl, by simp⟩
    | cons r rs => exact ⟨c, t ++ [slash] ++ joinSlash (r :: rs), by simp [joinSlash], by simp⟩

/-- A rooted path without bad bytes cleans to `/` followed by nothing, or by a byte that is
neither `/` nor `\`; and it introduces no byte that was not in the input. -/
theorem clean_rooted (rest : Bytes) (hb : ∀ c ∈ (47 : UInt8) :: rest, badByte c = false) :
    ∃ body, clean (47 :: rest) = 47 :: body ∧
      (∀ c t, body = c :: t → c ≠ 47 ∧ c ≠ 92) ∧ (∀ c ∈ body, badByte c = false) := by
  unfold clean
  simp only [List.isEmpty_cons, Bool.false_eq_true, if_false, List.head?_cons, slash, beq_self_eq_true, if_true]
  let P : UInt8 → Prop := fun c => c ∈ (47 : UInt8) :: rest ∧ c ≠ 47
  have hsegs := splitSlash_mem (47 :: rest)
  have hgood := cleanSegs_good P true (splitSlash (47 :: rest)) [] (fun s hs c hc => hsegs s hs c hc)
    (by intro s hs; cases hs)
  refine ⟨joinSlash (cleanSegs true [] (splitSlash (47 :: rest))), rfl, ?_, ?_⟩
  · intro c t hbody
    cases hcs : cleanSegs true [] (splitSlash (47 :: rest)) with
    | nil => rw [hcs] at hbody; cases hbody
    | cons s ss =>
      rw [hcs] at hbody
      obtain ⟨hne, hP⟩ := hgood s (by rw [hcs]; simp)
      obtain ⟨c', t', hj, hc'⟩ := joinSlash_head s ss hne
      rw [hj] at hbody
      cases hbody
      obtain ⟨hin, hn47⟩ := hP c hc'
      refine ⟨hn47, ?_⟩
      intro h92; subst h92
      have := hb 92 hin
      simp [badByte] at this
  · intro c hc
    rcases joinSlash_mem _ c hc with h | ⟨s, hs, hcs⟩
    · subst h; decide
    · exact hb c ((hgood s hs).2 c hcs).1


theorem splitQuery_spec (v : Bytes) :
    (∀ c ∈ (splitQuery v).1, c ∈ v) ∧ (∀ c ∈ (splitQuery v).2, c ∈ v) ∧
    ((splitQuery v).2 = [] ∨ ∃ t, (splitQuery v).2 = 63 :: t) ∧
    (∀ r, v = 47 :: r → ∃ r', (splitQuery v).1 = 47 :: r') := by
  induction v with
  | nil => simp [splitQuery]
  | cons a t ih =>
    obtain ⟨i1, i2, i3, _⟩ := ih
    by_cases ha : (a == 63) = true
    · have : a = 63 := by simpa using ha
      subst this
      refine ⟨by simp [splitQuery], by simp [splitQuery], Or.inr ⟨t, by simp [splitQuery]⟩, ?_⟩
      intro r hr; simp at hr
    · have hsq : splitQuery (a :: t) = (a :: (splitQuery t).1, (splitQuery t).2) := by
        simp [splitQuery, ha]
      rw [hsq]
      refine ⟨?_, ?_, i3, ?_⟩
      · intro c hc
        simp only [List.mem_cons] at hc ⊢
        rcases hc with hh | hh
        · exact Or.inl hh
        · exact Or.inr (i1 c hh)
      · intro c hc; exact List.mem_cons_of_mem _ (i2 c hc)
      · intro r hr
        simp at hr
        exact ⟨_, by rw [hr.1]⟩

/-- **C15_guard_sound.** Whatever `net/url` makes of the value (`relative` is universally
quantified), the `Location` that `http.Redirect` emits for a value the guard accepted is not
a reference a browser resolves to another origin; neither is the value itself. -/
theorem C15_guard_sound (v : Bytes) (relative : Bool) (h : guard v = true) :
    offSite (goRedirect v relative) = false ∧ offSite v = false := by
  refine ⟨?_, C15_value_same_site v h⟩
  unfold goRedirect
  cases relative with
  | false => simpa using C15_value_same_site v h
  | true =>
    simp only [Bool.not_true, Bool.false_eq_true, if_false]
    obtain ⟨rest, rfl, h1, hb⟩ := guard_shape v h
    obtain ⟨s1, s2, s3, s4⟩ := splitQuery_spec (47 :: rest)
    obtain ⟨r', hp⟩ := s4 rest rfl
    have hbp : ∀ c ∈ (47 : UInt8) :: r', badByte c = false := by
      intro c hc; rw [← hp] at hc; exact hb c (s1 c hc)
    obtain ⟨body, hcl, hhead, hbody⟩ := clean_rooted r' hbp
    simp only [hp, hcl]
    -- the result: '/' :: body (++ "/")? ++ query
    have key : ∀ tail : Bytes, (∀ c t, tail = c :: t → c ≠ 47 ∧ c ≠ 92) → (∀ c ∈ tail, badByte c = false) →
        offSite (47 :: tail) = false := by
      intro tail ht hbt
      unfold offSite
      have hall : ∀ c ∈ (47 : UInt8) :: tail, badByte c = false := by
        intro c hc
        rcases List.mem_cons.mp hc with rfl | hc
        · decide
        · exact hbt c hc
      rw [preprocess_id _ hall]
      simp only [hasScheme, isAlpha]
      cases tail with
      | nil => simp
      | cons c1 r =>
        obtain ⟨ha, hb'⟩ := ht c1 r rfl
        simp [isSlashish, ha, hb']
    have hq : ∀ c ∈ (splitQuery (47 :: rest)).2, badByte c = false := fun c hc => hb c (s2 c hc)
    -- case analysis on the optional trailing slash
    split
    · -- a slash is appended
      have : (47 :: body ++ [47]) ++ (splitQuery (47 :: rest)).2 = 47 :: (body ++ [47] ++ (splitQuery (47 :: rest)).2) := by simp
      rw [this]
      apply key
      · intro c t ht
        cases body with
        | nil =>
          -- cleaned path is "/" which already ends in '/': this branch is impossible
          rename_i hcond
          simp at hcond
        | cons b bs =>
          simp at ht
          obtain ⟨hb1, _⟩ := ht
          subst hb1
          exact hhead _ bs rfl
      · intro c hc
        simp only [List.mem_append, List.mem_singleton] at hc
        rcases hc with (hc | hc) | hc
        · exact hbody c hc
        · subst hc; decide
        · exact hq c hc
    · have : (47 :: body) ++ (splitQuery (47 :: rest)).2 = 47 :: (body ++ (splitQuery (47 :: rest)).2) := by simp
      rw [this]
      apply key
      · intro c t ht
        cases body with
        | nil =>
          simp at ht
          rcases s3 with hq0 | ⟨t', hq1⟩
          · rw [hq0] at ht; cases ht
          · rw [hq1] at ht; cases ht; constructor <;> decide
        | cons b bs =>
          simp at ht
          obtain ⟨hb1, _⟩ := ht
          subst hb1
          exact hhead _ bs rfl
      · intro c hc
        simp only [List.mem_append] at hc
        rcases hc with hc | hc
        · exact hbody c hc
        · exact hq c hc

/-! ### The old guard was not sound: kernel-checked witnesses (all reach `Location` through
`strings.Contains(redir, "://")`; replayed on the real code before the `fix:`) -/

def oldGuard (v : Bytes) : Bool := !containsSchemeSep v

theorem C15_old_guard_witnesses :
    (oldGuard (lit "//evil.example") = true ∧ offSite (lit "//evil.example") = true) ∧
    (oldGuard (lit "/\\evil.example") = true ∧ offSite (lit "/\\evil.example") = true) ∧
    (oldGuard (lit "https:evil.example") = true ∧ offSite (lit "https:evil.example") = true) ∧
    (oldGuard (lit "/a/../\\evil.example") = true ∧
      offSite (goRedirect (lit "/a/../\\evil.example") true) = true) := by decide

/-- … and the new guard refuses every one of them. -/
theorem C15_new_guard_refuses :
    guard (lit "//evil.example") = false ∧ guard (lit "/\\evil.example") = false ∧
    guard (lit "https:evil.example") = false ∧ guard (lit "/a/../\\evil.example") = false ∧
    guard (lit "/\t/evil.example") = false ∧ guard (lit "http://evil.example") = false ∧ guard [] = false := by decide

/-- Non-vacuity: ordinary return targets pass. -/
example : guard (lit "/") = true ∧ guard (lit "/home?x=1&y=%2F") = true ∧ guard (lit "/a/b/../c/") = true := by decide

end AuthbossModel.Redirect
