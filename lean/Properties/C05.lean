/-
  C05 — Confirm and recovery links work once, only for their account and unmodified.
  C06 — A password change revokes the old password, recovery link and remember tokens.

  Symbolic crypto: a stored selector / verifier is represented by the 32-byte half it is the
  SHA-512 of (injective hash); "decodes to exactly the bytes that were issued" is then
  equality of the decoded token with `selector ++ verifier`.
-/
import Proofs.Dispatch
import Proofs.Veto

namespace AuthbossModel.M
attribute [local irreducible] Frame Lic

/-! ## Recovery: acceptance implies the exact outstanding, unexpired token of that account -/

/-- A token whose halves are the stored selector and verifier *is* the issued token. -/
theorem C05_halves_are_token (raw sel ver : Bytes) (hl : raw.length = tokenSize)
    (hs : raw.take 32 = sel) (hv : raw.drop 32 = ver) : raw = sel ++ ver := by
  rw [← hs, ← hv, List.take_append_drop]

set_option maxHeartbeats 4000000 in
/-- **C05_recover_accept.** `recover.EndPost` changes a password only on a path on which:
the submitted value decoded, has exactly 64 bytes, its first half is the stored selector of
the account `u` found by it, its second half is `u`'s stored verifier, and now is not after
`u`'s expiry.  Expressed on the one observable the `Safe` logic tracks — here we reuse the
route theorem of C01, whose licence is precisely this condition (with `recoverLogin`). -/
theorem C05_recover_accept (c0 : Ctx) :
    Safe (fun U => c0.req.valid = true ∧
      ∃ raw u, c0.req.token = some raw ∧ raw.length = tokenSize ∧ u ∈ c0.store.users ∧ u.pid = U ∧
        u.recoverSel = some (raw.take 32) ∧ u.recoverVer = some (raw.drop 32) ∧ ¬ (c0.now > u.recoverExpiry))
      recoverEndPost c0 :=
  Safe.mono (recoverEnd_safe c0) (fun U h => ⟨h.2.1, h.2.2⟩)

/-- **C05_recover_reject_frame.** Every rejection path of `recover.EndPost` (validation
failure, undecodable token, wrong length, unknown selector, expired, wrong verifier) leaves
storage exactly as it was: no password change, selectors untouched, the genuine token stays
usable. -/
theorem C05_recover_reject_frame (c : Ctx)
    (hrej : c.req.valid = false ∨ c.req.token = none ∨
      (∃ raw, c.req.token = some raw ∧ raw.length ≠ tokenSize) ∨
      (∃ raw, c.req.token = some raw ∧ raw.length = tokenSize ∧ oracle c = none ∧
        ∀ u ∈ c.store.users, ¬ (u.recoverSel = some (raw.take 32) ∧ u.recoverVer = some (raw.drop 32) ∧
          ¬ (c.now > u.recoverExpiry)))) :
    (recoverEndPost c).2.store = c.store := by
  have hresp : ∀ p t (c' : Ctx), (M.respond p t c').2.store = c'.store := by
    intro p t c'
    unfold M.respond M.render
    simp only [bind_apply, backend_eq]
    cases oracle c' <;> simp [pure_apply, M.fail, M.stop, M.act, M.modify, tick]
  unfold recoverEndPost
  simp only [bind_apply, M.get]
  rcases hrej with hv | ht | ⟨raw, ht, hl⟩ | ⟨raw, ht, hl, ho, hnone⟩
  · simp only [hv, Bool.not_false, if_true, M.logf, M.modify]
    exact hresp _ _ _
  · by_cases hv : c.req.valid = true
    · simp only [hv, Bool.not_true, Bool.false_eq_true, if_false, ht, M.logf, M.modify]
      exact hresp _ _ _
    · have hv' : c.req.valid = false := by simpa using hv
      simp only [hv', Bool.not_false, if_true, M.logf, M.modify]
      exact hresp _ _ _
  · by_cases hv : c.req.valid = true
    · have hne : (raw.length != tokenSize) = true := by simpa using hl
      simp only [hv, Bool.not_true, Bool.false_eq_true, if_false, ht, hne, if_true, M.logf, M.modify]
      exact hresp _ _ _
    · have hv' : c.req.valid = false := by simpa using hv
      simp only [hv', Bool.not_false, if_true, M.logf, M.modify]
      exact hresp _ _ _
  · by_cases hv : c.req.valid = true
    · have hne : (raw.length != tokenSize) = false := by simpa using hl
      simp only [hv, Bool.not_true, Bool.false_eq_true, if_false, ht, hne]
      rw [bind_apply, backend_eq, ho]
      simp only []
      have hts : (tick c).store = c.store := rfl
      cases hf : c.store.users.find? (fun x => x.recoverSel == some (raw.take 32)) with
      | none =>
        simp only [M.logf, M.modify, bind_apply]
        rw [hresp]; rfl
      | some u =>
        have hmem := List.mem_of_find?_eq_some hf
        have hsel : u.recoverSel = some (raw.take 32) := by
          have := List.find?_some hf; simpa using this
        have hn := hnone u hmem
        simp only
        by_cases hexp : c.now > u.recoverExpiry
        · simp only [hexp, if_true, M.logf, M.modify, bind_apply]
          rw [hresp]; rfl
        · have hver : u.recoverVer ≠ some (raw.drop 32) := fun h => hn ⟨hsel, h, hexp⟩
          have hvb : (u.recoverVer != some (raw.drop 32)) = true := by simpa using hver
          simp only [hexp, if_false, hvb, if_true, M.logf, M.modify, bind_apply]
          rw [hresp]; rfl
    · have hv' : c.req.valid = false := by simpa using hv
      simp only [hv', Bool.not_false, if_true, M.logf, M.modify]
      exact hresp _ _ _


/-! ## Confirmation: the same two statements -/

theorem redirect_store (p ok f fl) (c : Ctx) : (M.redirect p ok f fl c).2.store = c.store := by
  unfold M.redirect
  simp only [bind_apply, M.get]
  cases hj : c.cfg.json
  · cases ok <;> cases f <;> simp [hj, M.putS, M.act, M.modify, bind_apply, pure_apply]
  · simp only [hj, if_true, M.render, bind_apply, backend_eq]
    cases oracle c <;> simp [pure_apply, M.fail, M.stop, M.act, M.modify, tick]

/-- **C05_confirm_reject_frame.** Every rejection path of `confirm.Get` leaves storage exactly
as it was: nobody is confirmed, no selector is spent. -/
theorem C05_confirm_reject_frame (c : Ctx)
    (hrej : c.req.valid = false ∨ c.req.token = none ∨
      (∃ raw, c.req.token = some raw ∧ raw.length ≠ tokenSize) ∨
      (∃ raw, c.req.token = some raw ∧ raw.length = tokenSize ∧ oracle c = none ∧
        ∀ u ∈ c.store.users, ¬ (u.confirmSel = some (raw.take 32) ∧ u.confirmVer = some (raw.drop 32)))) :
    (confirmGet c).2.store = c.store := by
  have hred := redirect_store
  unfold confirmGet
  simp only [bind_apply, M.get]
  rcases hrej with hv | ht | ⟨raw, ht, hl⟩ | ⟨raw, ht, hl, ho, hnone⟩
  · simp only [hv, Bool.not_false, if_true, M.logf, M.modify]
    exact hred _ _ _ _ _
  · by_cases hv : c.req.valid = true
    · simp only [hv, Bool.not_true, Bool.false_eq_true, if_false, ht, M.logf, M.modify]
      exact hred _ _ _ _ _
    · have hv' : c.req.valid = false := by simpa using hv
      simp only [hv', Bool.not_false, if_true, M.logf, M.modify]
      exact hred _ _ _ _ _
  · by_cases hv : c.req.valid = true
    · have hne : (raw.length != tokenSize) = true := by simpa using hl
      simp only [hv, Bool.not_true, Bool.false_eq_true, if_false, ht, hne, if_true, M.logf, M.modify]
      exact hred _ _ _ _ _
    · have hv' : c.req.valid = false := by simpa using hv
      simp only [hv', Bool.not_false, if_true, M.logf, M.modify]
      exact hred _ _ _ _ _
  · by_cases hv : c.req.valid = true
    · have hne : (raw.length != tokenSize) = false := by simpa using hl
      simp only [hv, Bool.not_true, Bool.false_eq_true, if_false, ht, hne]
      rw [bind_apply, backend_eq, ho]
      simp only []
      cases hf : c.store.users.find? (fun x => x.confirmSel == some (raw.take 32)) with
      | none =>
        simp only [M.logf, M.modify, bind_apply]
        rw [hred]; rfl
      | some u =>
        have hmem := List.mem_of_find?_eq_some hf
        have hsel : u.confirmSel = some (raw.take 32) := by
          have := List.find?_some hf; simpa using this
        have hn := hnone u hmem
        simp only
        have hver : u.confirmVer ≠ some (raw.drop 32) := fun h => hn ⟨hsel, h⟩
        have hvb : (u.confirmVer != some (raw.drop 32)) = true := by simpa using hver
        simp only [hvb, if_true, M.logf, M.modify, bind_apply]
        rw [hred]; rfl
    · have hv' : c.req.valid = false := by simpa using hv
      simp only [hv', Bool.not_false, if_true, M.logf, M.modify]
      exact hred _ _ _ _ _

/-- **C05_confirm_accept.** If `confirm.Get` changes storage at all (the storage call itself
not failing), then the request validated, the token decoded to exactly 64 bytes, and some
account's stored selector *and* verifier are its two halves — i.e. it is, byte for byte, the
token that was issued to that account and has not been used. -/
theorem C05_confirm_accept (c : Ctx) (ho : oracle c = none) (hch : (confirmGet c).2.store ≠ c.store) :
    c.req.valid = true ∧ ∃ raw u, c.req.token = some raw ∧ raw.length = tokenSize ∧ u ∈ c.store.users ∧
      u.confirmSel = some (raw.take 32) ∧ u.confirmVer = some (raw.drop 32) := by
  apply Classical.byContradiction
  intro hn
  apply hch
  apply C05_confirm_reject_frame
  by_cases hv : c.req.valid = true
  · right
    cases ht : c.req.token with
    | none => exact Or.inl rfl
    | some raw =>
      right
      by_cases hl : raw.length = tokenSize
      · right
        refine ⟨raw, rfl, hl, ho, ?_⟩
        intro u hu hsv
        exact hn ⟨hv, raw, u, ht, hl, hu, hsv.1, hsv.2⟩
      · exact Or.inl ⟨raw, rfl, hl⟩
  · left; simpa using hv


end AuthbossModel.M
