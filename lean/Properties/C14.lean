/-
  C14 — OAuth2 callbacks need the session's own unused state and bind the named identity.
-/
import Proofs.Dispatch
import Proofs.Appends

namespace AuthbossModel.M
attribute [local irreducible] Frame Lic

/-- Splitting at the first `;`: two strings `p ++ ; ++ r` with `;`-free `p` agree only if the
parts agree. -/
theorem split_first_semi (p1 p2 r1 r2 : Bytes) (h1 : (59 : UInt8) ∉ p1) (h2 : (59 : UInt8) ∉ p2)
    (h : p1 ++ 59 :: r1 = p2 ++ 59 :: r2) : p1 = p2 ∧ r1 = r2 := by
  induction p1 generalizing p2 with
  | nil =>
    cases p2 with
    | nil => simpa using h
    | cons b p2 =>
      simp at h
      have : b = 59 := h.1.symm
      subst this
      simp at h2
  | cons a p1 ih =>
    cases p2 with
    | nil =>
      simp at h
      have : a = 59 := h.1
      subst this
      simp at h1
    | cons b p2 =>
      simp only [List.cons_append, List.cons.injEq] at h
      have h1' : (59 : UInt8) ∉ p1 := fun hm => h1 (List.mem_cons_of_mem _ hm)
      have h2' : (59 : UInt8) ∉ p2 := fun hm => h2 (List.mem_cons_of_mem _ hm)
      obtain ⟨hp, hr⟩ := ih p2 h1' h2' h.2
      exact ⟨by rw [h.1, hp], hr⟩

/-- **C14_pid_injective.** For provider names free of the separator character `;`, distinct
`(provider, uid)` pairs never map to the same account identifier — for *all* uid byte
strings (including ones containing `;` and `;;`). -/
theorem C14_pid_injective (p1 p2 u1 u2 : Bytes) (h1 : (59 : UInt8) ∉ p1) (h2 : (59 : UInt8) ∉ p2)
    (h : makeOAuth2PID p1 u1 = makeOAuth2PID p2 u2) : p1 = p2 ∧ u1 = u2 := by
  unfold makeOAuth2PID at h
  have h' : p1 ++ 59 :: (59 :: u1) = p2 ++ 59 :: (59 :: u2) := by
    have := List.append_cancel_left (by simpa [List.append_assoc] using h : lit "oauth2;;" ++ (p1 ++ lit ";;" ++ u1) = lit "oauth2;;" ++ (p2 ++ lit ";;" ++ u2))
    simpa [lit, List.append_assoc] using this
  obtain ⟨hp, hr⟩ := split_first_semi p1 p2 _ _ h1 h2 h'
  exact ⟨hp, by simpa using hr⟩

/-- The boundary is sharp: a provider name *ending* in `;` collides. -/
theorem C14_pid_sharp :
    makeOAuth2PID (lit "a") (lit ";b") = makeOAuth2PID (lit "a;") (lit "b") := by decide

/-- **C14_callback_needs_state / identity.** The callback writes identity `U` only if the
session holds a state equal to the submitted one, the provider reported no error, and `U`
is exactly the identifier of the (provider, uid) pair the provider reported. -/
theorem C14_callback (c0 : Ctx) :
    Safe (fun U => c0.sess.get .oauthState = some c0.req.state ∧ c0.req.oerr = [] ∧
      ∃ puid, c0.req.provUid = some puid ∧ U = makeOAuth2PID c0.req.provider puid) oauth2End c0 :=
  oauth2End_safe c0

/-- **C14_no_state_no_effect.** Without a matching session state the callback fails before it
touches anything: no session write, no store change. -/
theorem C14_no_state_no_effect (c : Ctx) (h : c.sess.get .oauthState ≠ some c.req.state) :
    (oauth2End c).2.store = c.store ∧ (oauth2End c).2.acts = c.acts ∧ ∃ e, (oauth2End c).1 = .stop (.err e) := by
  unfold oauth2End
  simp only [bind_apply, M.get, M.logf, M.modify]
  cases hs : c.sess.get .oauthState with
  | none => exact ⟨rfl, rfl, _, rfl⟩
  | some want =>
    have hne : c.req.state ≠ want := by intro he; apply h; rw [hs, he]
    simp only [bne_iff_ne, ne_eq, hne, not_false_eq_true, if_true]
    exact ⟨rfl, rfl, _, rfl⟩

/-! ### The state is spent by the first matching callback -/

set_option maxHeartbeats 4000000 in
/-- **C14_state_spent.** A callback whose `state` matches the one in the session deletes the
state (and the stored parameters) from the session *first*: whatever happens afterwards —
provider error, failing exchange, veto, success — the two deletions are the first things it
queues, so the response that answers it spends the state. -/
theorem C14_state_spent (c : Ctx) (want : Bytes) (hs : c.sess.get .oauthState = some want)
    (hm : c.req.state = want) :
    ∃ ext, (oauth2End c).2.acts = c.acts ++ [.sess (.del .oauthState), .sess (.del .oauthParams)] ++ ext := by
  unfold oauth2End
  simp only [bind_apply, M.get, M.logf, M.modify, hs, hm, bne_self_eq_false, Bool.false_eq_true, if_false,
    M.delS, M.act]
  suffices h : ∀ (k : H PUnit) (c2 : Ctx), App k → c2.acts = c.acts ++ [.sess (.del .oauthState), .sess (.del .oauthParams)] →
      ∃ ext, (k c2).2.acts = c.acts ++ [.sess (.del .oauthState), .sess (.del .oauthParams)] ++ ext by
    apply h
    · repeat' (first
        | exact App.fireAfter _ | exact App.fireBefore _ | exact App.redirect _ _ _ _
        | exact App.act _ | app_step)
    · simp
  intro k c2 hk h2
  obtain ⟨ext, he⟩ := hk c2
  exact ⟨ext, by rw [he, h2]⟩

/-! ### Non-vacuity -/
example : makeOAuth2PID (lit "google") (lit "u;;1") ≠ makeOAuth2PID (lit "github") (lit "u;;1") := by decide

end AuthbossModel.M
