/-
  C03 — Locked or unconfirmed accounts cannot complete a login or use protected routes.

  The order-independence is the heart: `FireBefore` runs every handler of every loaded unit
  in load order without short-circuiting; the theorems below hold for *every* list of units.
-/
import Proofs.Veto
import Proofs.Dispatch

namespace AuthbossModel.M
attribute [local irreducible] Frame Lic

def lockedQ : Int → User → Prop := fun t u => u.locked > t
def unconfQ : Int → User → Prop := fun _ u => u.confirmed = false

theorem lockedQ_stable : StableQ lockedQ := by intro t u s h; simpa [lockedQ, User.withL] using h
theorem unconfQ_stable : StableQ unconfQ := by intro t u s h; simpa [unconfQ, User.withL] using h

/-- **C03_locked_veto.** With the lock unit loaded anywhere in the load order, `Before(EventAuth)`
and `Before(EventOAuth2)` never report "not handled" for a context user who is locked now
(they answer the request themselves or fail) — so every login flow that consults them stops. -/
theorem C03_locked_veto (c : Ctx) (e : Ev) (he : e = .auth ∨ e = .oauth2)
    (hl : c.cfg.has .lock = true) (u : User) (hu : c.ctxUser = some u) (hlocked : u.locked > c.now) :
    ∀ c', fireBefore e c ≠ (.ok false, c') := by
  refine fireBefore_vetoes e he lockedQ lockedQ_stable (lockUpdate true)
    (fun b c hi => lockUpdate_true_vetoes c hi b) c ?_ ⟨u, hu, hlocked⟩
  refine ⟨.lock, by simpa [Config.has] using hl, ?_⟩
  rcases he with rfl | rfl <;> simp [Unit.before]

/-- **C03_unconfirmed_veto.** Same for the confirm unit and an unconfirmed context user, on
`Before(EventAuth)`. -/
theorem C03_unconfirmed_veto (c : Ctx) (hl : c.cfg.has .confirm = true) (u : User)
    (hu : c.ctxUser = some u) (hunc : u.confirmed = false) :
    ∀ c', fireBefore .auth c ≠ (.ok false, c') := by
  refine fireBefore_vetoes .auth (Or.inl rfl) unconfQ unconfQ_stable confirmPrevent
    (fun b c hi => confirmPrevent_vetoes c hi b) c ?_ ⟨u, hu, hunc⟩
  exact ⟨.confirm, by simpa [Config.has] using hl, by simp [Unit.before]⟩

/-- The confirm unit registers nothing on `Before(EventOAuth2)` (the lock unit does): an
OAuth2 callback is vetoed for locked accounts only.  OAuth2 accounts are created by the
application's `NewFromOAuth2`; whether such an account can be "unconfirmed" at all is the
application's decision (recorded in DESIGN.md §6-F12). -/
theorem C03_confirm_not_on_oauth2 : Unit.before .confirm .oauth2 = [] ∧ Unit.before .lock .oauth2 = [lockUpdate true] := by
  constructor <;> rfl

theorem setCtxUser_ok {u c a c'} (h : M.setCtxUser u c = (Res.ok a, c')) : c' = { c with ctxUser := some u } :=
  modify_ok h

set_option maxHeartbeats 2000000 in
/-- **C03_password_login.** The password login handler, started in any context, adds no
session identity when the named account is locked (lock loaded) or unconfirmed (confirm
loaded) — whatever password is presented and wherever those units sit in the load order. -/
theorem C03_password_login (c0 : Ctx)
    (hblocked : ∀ u, c0.store.find c0.req.pid = some u →
      (c0.cfg.has .lock = true ∧ u.locked > c0.now) ∨ (c0.cfg.has .confirm = true ∧ u.confirmed = false)) :
    Safe (fun _ => False) authLoginPost c0 := by
  unfold authLoginPost
  safe_auto
  rename_i cA cB hget r u hpw c5 hload x1 c4 hset x2 c3 hmod b1 hb1 c2 hfb b2 hb2 c1 hfh x3 cE hlog
  obtain ⟨rfl, rfl⟩ := get_ok hget
  obtain ⟨hfind, rfl⟩ := load_found hload
  have h1 := setCtxUser_ok hset
  subst h1
  have h2 := modify_ok hmod
  subst h2
  have hb : b1 = false := Bool.eq_false_iff.mpr hb1
  subst hb
  exfalso
  rcases hblocked u hfind with ⟨hL, hlk⟩ | ⟨hC, hun⟩
  · refine absurd hfb (C03_locked_veto _ .auth (Or.inl rfl) ?_ u ?_ ?_ _)
    · exact hL
    · rfl
    · exact hlk
  · refine absurd hfb (C03_unconfirmed_veto _ ?_ u ?_ hun _)
    · exact hC
    · rfl

/-- **C03_lock_middleware / C03_confirm_middleware.** The wrapped handler is represented by an
observable marker action (`putS uid m`, the one action the `Safe` logic tracks).  The
middlewares run it only for a user, loaded in this request, who is not locked now /
is confirmed. -/
theorem C03_lock_middleware (m : Bytes) (c : Ctx) :
    Safe (fun _ => ∃ u c1, loadCurrentUser c = (.ok (.found u), c1) ∧ Lock.isLocked c1.now u.lstate = false)
      (lockMW (putS .uid m)) c := by
  unfold lockMW
  apply Safe.bind (Frame.safe Frame.loadCurrentUser _ _)
  intro r c1 hr
  split
  · rename_i u
    apply Safe.bind (Frame.safe Frame.get _ _)
    intro c2 c3 hg
    obtain ⟨rfl, rfl⟩ := get_ok hg
    apply Safe.ite
    · intro hn
      apply Safe.putUid
      exact ⟨u, c1, hr, by simpa using hn⟩
    · intro _
      exact Frame.safe (Frame.bind (Frame.logf _ _) (fun _ => Frame.swallowErr (Frame.redirect _ _ _ _))) _ _
  · exact Frame.safe (Frame.stop _) _ _

theorem C03_confirm_middleware (m : Bytes) (c : Ctx) :
    Safe (fun _ => ∃ u c1, loadCurrentUser c = (.ok (.found u), c1) ∧ u.confirmed = true)
      (confirmMW (putS .uid m)) c := by
  unfold confirmMW
  apply Safe.bind (Frame.safe Frame.loadCurrentUser _ _)
  intro r c1 hr
  split
  · rename_i u
    apply Safe.ite
    · intro hn
      apply Safe.putUid
      exact ⟨u, c1, hr, hn⟩
    · intro _
      exact Frame.safe (Frame.bind (Frame.logf _ _) (fun _ => Frame.swallowErr (Frame.redirect _ _ _ _))) _ _
  · exact Frame.safe (Frame.stop _) _ _

/-! ### Non-vacuity: a locked account with the right password, lock loaded *after* every other unit -/

def nv3 : Config := { units := [.remember, .confirm, .auth, .lock], lockAfter := 2, lockWindow := 1000, lockDuration := 1000 }
def nv3User : User := { pid := lit "a@x.c", pw := lit "pw", confirmed := true, locked := 500 }

example : ((run nv3 {} [.seedUser nv3User, .http (lit "b") .login { pid := lit "a@x.c", pw := lit "pw" } none]).browser
    (lit "b")).sess.get .uid = none := by decide

example : ((run nv3 {} [.seedUser { nv3User with locked := 0 }, .advance 1,
    .http (lit "b") .login { pid := lit "a@x.c", pw := lit "pw" } none]).browser (lit "b")).sess.get .uid
      = some (lit "a@x.c") := by decide

end AuthbossModel.M
