/-
  C03 — Locked or unconfirmed accounts cannot complete a login or use protected routes.

  The order-independence is the heart: `FireBefore` runs every handler of every loaded unit
  in load order without short-circuiting; the theorems below hold for *every* list of units.
-/
import Proofs.Veto
import Proofs.Dispatch
import Proofs.ReadOnly2
import Proofs.CtxUser

namespace AuthbossModel.M
attribute [local irreducible] Frame Lic

def lockedQ : Int → User → Prop := fun t u => u.locked > t
def unconfQ : Int → User → Prop := fun _ u => u.confirmed = false

theorem lockedQ_stable : StableQ lockedQ := by intro t u s h; simpa [lockedQ, User.withL] using h
theorem unconfQ_stable : StableQ unconfQ := by intro t u s h; simpa [unconfQ, User.withL] using h

/-- **C03_locked_veto.** With the lock unit loaded anywhere in the load order, `Before(EventAuth)`
and `Before(EventOAuth2)` never report "not handled" for a context user who is locked now
(they answer the request themselves or fail) — so every login flow that consults them stops. -/
theorem C03_locked_veto (c : Ctx) (e : Ev) (he : e = .auth ∨ e = .oauth2)
    (hl : c.cfg.has .lock = true) (u : User) (hu : c.ctxUser = some u) (hlocked : u.locked > c.now) :
    ∀ c', fireBefore e c ≠ (.ok false, c') := by
  refine fireBefore_vetoes e he lockedQ lockedQ_stable (lockUpdate true)
    (fun b c hi => lockUpdate_true_vetoes c hi b) c ?_ ⟨u, hu, hlocked⟩
  refine ⟨.lock, by simpa [Config.has] using hl, ?_⟩
  rcases he with rfl | rfl <;> simp [Unit.before]

/-- **C03_unconfirmed_veto.** Same for the confirm unit and an unconfirmed context user, on
`Before(EventAuth)`. -/
theorem C03_unconfirmed_veto (c : Ctx) (hl : c.cfg.has .confirm = true) (u : User)
    (hu : c.ctxUser = some u) (hunc : u.confirmed = false) :
    ∀ c', fireBefore .auth c ≠ (.ok false, c') := by
  refine fireBefore_vetoes .auth (Or.inl rfl) unconfQ unconfQ_stable confirmPrevent
    (fun b c hi => confirmPrevent_vetoes c hi b) c ?_ ⟨u, hu, hunc⟩
  exact ⟨.confirm, by simpa [Config.has] using hl, by simp [Unit.before]⟩

/-- The confirm unit registers nothing on `Before(EventOAuth2)` (the lock unit does): an
OAuth2 callback is vetoed for locked accounts only.  OAuth2 accounts are created by the
application's `NewFromOAuth2`; whether such an account can be "unconfirmed" at all is the
application's decision (recorded in DESIGN.md §6-F12). -/
theorem C03_confirm_not_on_oauth2 : Unit.before .confirm .oauth2 = [] ∧ Unit.before .lock .oauth2 = [lockUpdate true] := by
  constructor <;> rfl

theorem setCtxUser_ok {u c a c'} (h : M.setCtxUser u c = (Res.ok a, c')) : c' = { c with ctxUser := some u } :=
  modify_ok h

set_option maxHeartbeats 2000000 in
/-- **C03_password_login.** The password login handler, started in any context, adds no
session identity when the named account is locked (lock loaded) or unconfirmed (confirm
loaded) — whatever password is presented and wherever those units sit in the load order. -/
theorem C03_password_login (c0 : Ctx)
    (hblocked : ∀ u, c0.store.find c0.req.pid = some u →
      (c0.cfg.has .lock = true ∧ u.locked > c0.now) ∨ (c0.cfg.has .confirm = true ∧ u.confirmed = false)) :
    Safe (fun _ => False) authLoginPost c0 := by
  unfold authLoginPost
  safe_auto
  rename_i cA cB hget r u hpw c5 hload x1 c4 hset x2 c3 hmod b1 hb1 c2 hfb b2 hb2 c1 hfh x3 cE hlog
  obtain ⟨rfl, rfl⟩ := get_ok hget
  obtain ⟨hfind, rfl⟩ := load_found hload
  have h1 := setCtxUser_ok hset
  subst h1
  have h2 := modify_ok hmod
  subst h2
  have hb : b1 = false := Bool.eq_false_iff.mpr hb1
  subst hb
  exfalso
  rcases hblocked u hfind with ⟨hL, hlk⟩ | ⟨hC, hun⟩
  · refine absurd hfb (C03_locked_veto _ .auth (Or.inl rfl) ?_ u ?_ ?_ _)
    · exact hL
    · rfl
    · exact hlk
  · refine absurd hfb (C03_unconfirmed_veto _ ?_ u ?_ hun _)
    · exact hC
    · rfl

/-! ### The other login flows (handler level) -/

theorem logf_ok {f a c x c'} (h : M.logf f a c = (Res.ok x, c')) :
    c'.ctxUser = c.ctxUser ∧ c'.now = c.now ∧ c'.cfg = c.cfg := by
  have := modify_ok h; subst this; exact ⟨rfl, rfl, rfl⟩

set_option maxHeartbeats 2000000 in
/-- **C03_otp_login.** The one-time-password login adds no session identity when the named
account is locked or unconfirmed. -/
theorem C03_otp_login (c0 : Ctx)
    (hblocked : ∀ u, c0.store.find c0.req.pid = some u →
      (c0.cfg.has .lock = true ∧ u.locked > c0.now) ∨ (c0.cfg.has .confirm = true ∧ u.confirmed = false)) :
    Safe (fun _ => False) otpLoginPost c0 := by
  unfold otpLoginPost
  safe_auto
  rename_i cA cB hget r u x i heq c8 hload x1 c7 hs1 x2 c6 hl1 x3 c5 hs2 b hb c4 hsv x4 c3 hm b1 hb1 c2 hfb b2 hb2 c1 hfh x5 cE hl2
  obtain ⟨rfl, rfl⟩ := get_ok hget
  obtain ⟨hfind, rfl⟩ := load_found hload
  have e1 := setCtxUser_ok hs1; subst e1
  have e2 := logf_ok hl1
  have e3 := setCtxUser_ok hs2; subst e3
  have e4 := save_ok hsv
  have e5 := modify_ok hm; subst e5
  have hb1' : b1 = false := Bool.eq_false_iff.mpr hb1
  subst hb1'
  exfalso
  have ht1 : (tick c0).cfg = c0.cfg := rfl
  have ht2 : (tick c0).now = c0.now := rfl
  rcases hblocked u hfind with ⟨hL, hlk⟩ | ⟨hC, hun⟩
  · refine absurd hfb (C03_locked_veto _ .auth (Or.inl rfl) ?_ { u with otps := swapRemove u.otps i } ?_ ?_ _)
    · simpa [e4.2.2, e2.2.2, ht1] using hL
    · simpa using e4.1
    · simpa [e4.2.1, e2.2.1, ht2] using hlk
  · refine absurd hfb (C03_unconfirmed_veto _ ?_ { u with otps := swapRemove u.otps i } ?_ hun _)
    · simpa [e4.2.2, e2.2.2, ht1] using hC
    · simpa using e4.1

theorem pure_ok {α} {a b : α} {c c' : Ctx} (h : (Pure.pure a : H α) c = (Res.ok b, c')) : c' = c := by
  simp [pure_apply] at h; exact h.2.symm

set_option maxHeartbeats 4000000 in
/-- **C03_totp_validate.** The TOTP step of a login adds no session identity when the user it
resolved (the pending user, with a valid code or recovery code) is locked or unconfirmed —
after the `fix:` that makes the second-factor steps consult `Before(EventAuth)`. -/
theorem C03_totp_validate (c0 : Ctx)
    (hblocked : ∀ u c', totpValidate c0 = (.ok (some (u, .success)), c') →
      (c'.cfg.has .lock = true ∧ u.locked > c'.now) ∨ (c'.cfg.has .confirm = true ∧ u.confirmed = false)) :
    Safe (fun _ => False) totpPostValidate c0 := by
  unfold totpPostValidate
  safe_auto
  · -- replay protection on: the record is saved first
    rename_i r u st hst c5 hv cg hot c4 hget sb hsb c3 hsave x1 c2 hpure x2 c1 hset b hb cE hfb
    simp at hst; subst hst
    have hbk := hblocked _ _ hv
    obtain ⟨rfl, rfl⟩ := get_ok hget
    have e1 := save_ok hsave
    have e2 := pure_ok hpure; subst e2
    have es := setCtxUser_ok hset; subst es
    have hb' : b = false := Bool.eq_false_iff.mpr hb
    subst hb'
    exfalso
    rcases hbk with ⟨hL, hlk⟩ | ⟨hC, hun⟩
    · refine absurd hfb (C03_locked_veto _ .auth (Or.inl rfl) ?_ _ rfl ?_ _)
      · simpa [e1.2.2] using hL
      · simpa [e1.2.1] using hlk
    · refine absurd hfb (C03_unconfirmed_veto _ ?_ _ rfl hun _)
      simpa [e1.2.2] using hC
  · rename_i r u st hst c3 hv cg hot c2 hget x2 c1 hset b hb cE hfb
    simp at hst; subst hst
    have hbk := hblocked _ _ hv
    obtain ⟨rfl, rfl⟩ := get_ok hget
    have es := setCtxUser_ok hset; subst es
    have hb' : b = false := Bool.eq_false_iff.mpr hb
    subst hb'
    exfalso
    rcases hbk with ⟨hL, hlk⟩ | ⟨hC, hun⟩
    · refine absurd hfb (C03_locked_veto _ .auth (Or.inl rfl) ?_ _ rfl ?_ _)
      · exact hL
      · exact hlk
    · refine absurd hfb (C03_unconfirmed_veto _ ?_ _ rfl hun _)
      exact hC
set_option maxHeartbeats 8000000 in
/-- **C03_sms_validate.** Same for the SMS step (code from the session, or a recovery code). -/
theorem C03_sms_validate (u : User) (c0 : Ctx)
    (hblocked : ∀ u' c', smsVerdict .validate u c0 = (.ok (u', true), c') →
      (c'.cfg.has .lock = true ∧ u'.locked > c'.now) ∨ (c'.cfg.has .confirm = true ∧ u'.confirmed = false)) :
    Safe (fun _ => False) (smsValidateCode .validate u) c0 := by
  unfold smsValidateCode
  safe_auto
  rename_i pg hpg cg c3 hget xv u' v hv c2 hverd x2 c1 hset b hb cE hfb
  obtain ⟨rfl, rfl⟩ := get_ok hget
  have hv' : v = true := by simpa using hv
  subst hv'
  have hbk := hblocked _ _ hverd
  have es := setCtxUser_ok hset; subst es
  have hb' : b = false := Bool.eq_false_iff.mpr hb
  subst hb'
  exfalso
  rcases hbk with ⟨hL, hlk⟩ | ⟨hC, hun⟩
  · refine absurd hfb (C03_locked_veto _ .auth (Or.inl rfl) ?_ _ rfl ?_ _)
    · exact hL
    · exact hlk
  · refine absurd hfb (C03_unconfirmed_veto _ ?_ _ rfl hun _)
    exact hC


theorem ro_step {α} {h : H α} (hr : RO h) {c : Ctx} {a : α} {c' : Ctx} (he : h c = (Res.ok a, c')) :
    c'.cfg = c.cfg ∧ c'.now = c.now := by
  have := hr c; rw [he] at this; exact ⟨this.2.1, this.2.2⟩

set_option maxHeartbeats 8000000 in
/-- **C03_oauth2_locked.** An OAuth2 callback adds a session identity only for an account that
does not exist yet (it is being created): for an *existing* account that is locked now, with
the lock unit loaded anywhere, it never does. -/
theorem C03_oauth2_locked (c0 : Ctx) (hl : c0.cfg.has .lock = true)
    (hlocked : ∀ puid u, c0.req.provUid = some puid →
      c0.store.find (makeOAuth2PID c0.req.provider puid) = some u → u.locked > c0.now) :
    Safe (fun U => ∃ puid, c0.req.provUid = some puid ∧ U = makeOAuth2PID c0.req.provider puid ∧ c0.store.find U = none)
      oauth2End c0 := by
  unfold oauth2End
  safe_auto
  all_goals first
    | -- the account exists: it is locked, the veto stops the flow
      (
       rename_i cg x2 want hst hsm hoe x1 puid hpu c10 hget x15 c9 hlog hrm hgd x13 c8 hd1 x11 c7 hd2 dl3 c6 hb1 dl2 c5 hb2 dl1 c4 hb3 xo u hfind dl c3 hb4 x5 c2 hmod x3 c1 hset b hb cE hfb
       have hg := get_ok hget
       obtain ⟨rfl, rfl⟩ := hg
       exfalso
       have r1 := ro_step (RO.modify _ (fun _ => ⟨rfl, rfl, rfl⟩)) hlog
       have r2 := ro_step (RO.act _) hd1
       have r3 := ro_step (RO.act _) hd2
       have r4 := ro_step RO.backend hb1
       have r5 := ro_step RO.backend hb2
       have r6 := ro_step RO.backend hb3
       have r7 := ro_step RO.backend hb4
       have e8 := modify_ok hmod
       subst e8
       have e9 := setCtxUser_ok hset
       subst e9
       have hb' : b = false := Bool.eq_false_iff.mpr hb
       subst hb'
       have hcfg : c3.cfg = c0.cfg := by rw [r7.1, r6.1, r5.1, r4.1, r3.1, r2.1, r1.1]
       have hnow : c3.now = c0.now := by rw [r7.2, r6.2, r5.2, r4.2, r3.2, r2.2, r1.2]
       refine absurd hfb (C03_locked_veto _ .oauth2 (Or.inr rfl) ?_ _ rfl ?_ _)
       · simpa [hcfg] using hl
       · simpa [hnow] using hlocked puid u hpu hfind)
    | -- a new account
      (
       rename_i cg x2 want hst hsm hoe x1 puid hpu c10 hget x15 c9 hlog hrm hgd x13 c8 hd1 x11 c7 hd2 dl3 c6 hb1 dl2 c5 hb2 dl1 c4 hb3 xo hfind dl c3 hb4 x5 c2 hmod x3 c1 hset b hb cE hfb
       have hg := get_ok hget
       obtain ⟨rfl, rfl⟩ := hg
       unfold Lic
       exact ⟨puid, hpu, rfl, hfind⟩)

set_option maxHeartbeats 8000000 in
/-- **C03_recover_login.** `recover.EndPost` with login-after-recovery adds no session identity
when the account the token belongs to is locked or unconfirmed (the password is still changed). -/
theorem C03_recover_login (c0 : Ctx)
    (hblocked : ∀ raw u, c0.req.token = some raw → u ∈ c0.store.users → u.recoverSel = some (raw.take 32) →
      (c0.cfg.has .lock = true ∧ u.locked > c0.now) ∨ (c0.cfg.has .confirm = true ∧ u.confirmed = false)) :
    Safe (fun _ => False) recoverEndPost c0 := by
  unfold recoverEndPost
  safe_auto
  rename_i cg c9 hget xt raw htok hlen hrl hval xu u hfindu hexp hver dl c8 hbk x15 c7 hs1 b1 hb1 c6 hfb1 b2 hb2 c5 hhash x9 c4 hs2 b3 hb3 c3 hsave b4 c2 hfa b5 hb5 c1 hfb b6 hb6 cE hfh
  have hg := get_ok hget
  obtain ⟨rfl, rfl⟩ := hg
  exfalso
  have hmem := List.mem_of_find?_eq_some hfindu
  have r1 := ro_step RO.backend hbk
  have r2 := ro_step (RO.setCtxUser _) hs1
  have r3 := ro_step (RO.fireBefore _) hfb1
  have r4 := ro_step RO.hash hhash
  have r5 := ro_step (RO.setCtxUser _) hs2
  have r6 := ro_step (RO.save _) hsave
  have r7 := ro_step (RO.fireAfter _) hfa
  have e5 := setCtxUser_ok hs2
  have u6 := cu_step (CU.save _) hsave
  have u7 := cu_step CU.fireAfter_recoverEnd hfa
  have hb5' : b5 = false := Bool.eq_false_iff.mpr hb5
  subst hb5'
  have hcfg : c2.cfg = c0.cfg := by rw [r7.1, r6.1, r5.1, r4.1, r3.1, r2.1, r1.1]
  have hnow : c2.now = c0.now := by rw [r7.2, r6.2, r5.2, r4.2, r3.2, r2.2, r1.2]
  have hcu : c2.ctxUser = some { u with pw := c0.req.pw, recoverSel := none, recoverVer := none, recoverExpiry := c0.now } := by
    rw [u7, u6, e5]
  have hsel : u.recoverSel = some (raw.take 32) := by
    have := List.find?_some hfindu; simpa using this
  rcases hblocked raw u htok hmem hsel with ⟨hL, hlk⟩ | ⟨hC, hun⟩
  · refine absurd hfb (C03_locked_veto _ .auth (Or.inl rfl) ?_ _ hcu ?_ _)
    · simpa [hcfg] using hL
    · simpa [hnow] using hlk
  · refine absurd hfb (C03_unconfirmed_veto _ ?_ _ hcu hun _)
    simpa [hcfg] using hC

/-- **C03_lock_middleware / C03_confirm_middleware.** The wrapped handler is represented by an
observable marker action (`putS uid m`, the one action the `Safe` logic tracks).  The
middlewares run it only for a user, loaded in this request, who is not locked now /
is confirmed. -/
theorem C03_lock_middleware (m : Bytes) (c : Ctx) :
    Safe (fun _ => ∃ u c1, loadCurrentUser c = (.ok (.found u), c1) ∧ Lock.isLocked c1.now u.lstate = false)
      (lockMW (putS .uid m)) c := by
  unfold lockMW
  apply Safe.bind (Frame.safe Frame.loadCurrentUser _ _)
  intro r c1 hr
  split
  · rename_i u
    apply Safe.bind (Frame.safe Frame.get _ _)
    intro c2 c3 hg
    obtain ⟨rfl, rfl⟩ := get_ok hg
    apply Safe.ite
    · intro hn
      apply Safe.putUid
      exact ⟨u, c1, hr, by simpa using hn⟩
    · intro _
      exact Frame.safe (Frame.bind (Frame.logf _ _) (fun _ => Frame.swallowErr (Frame.redirect _ _ _ _))) _ _
  · exact Frame.safe (Frame.stop _) _ _

theorem C03_confirm_middleware (m : Bytes) (c : Ctx) :
    Safe (fun _ => ∃ u c1, loadCurrentUser c = (.ok (.found u), c1) ∧ u.confirmed = true)
      (confirmMW (putS .uid m)) c := by
  unfold confirmMW
  apply Safe.bind (Frame.safe Frame.loadCurrentUser _ _)
  intro r c1 hr
  split
  · rename_i u
    apply Safe.ite
    · intro hn
      apply Safe.putUid
      exact ⟨u, c1, hr, hn⟩
    · intro _
      exact Frame.safe (Frame.bind (Frame.logf _ _) (fun _ => Frame.swallowErr (Frame.redirect _ _ _ _))) _ _
  · exact Frame.safe (Frame.stop _) _ _

/-! ### Non-vacuity: a locked account with the right password, lock loaded *after* every other unit -/

def nv3 : Config := { units := [.remember, .confirm, .auth, .lock], lockAfter := 2, lockWindow := 1000, lockDuration := 1000 }
def nv3User : User := { pid := lit "a@x.c", pw := lit "pw", confirmed := true, locked := 500 }

example : ((run nv3 {} [.seedUser nv3User, .http (lit "b") .login { pid := lit "a@x.c", pw := lit "pw" } none]).browser
    (lit "b")).sess.get .uid = none := by decide

example : ((run nv3 {} [.seedUser { nv3User with locked := 0 }, .advance 1,
    .http (lit "b") .login { pid := lit "a@x.c", pw := lit "pw" } none]).browser (lit "b")).sess.get .uid
      = some (lit "a@x.c") := by decide

end AuthbossModel.M
