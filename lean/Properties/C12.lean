/-
  C12 — One-time secrets are consumed by the login they enable and never work twice.
-/
import Proofs.Dispatch
import Proofs.Veto

namespace AuthbossModel.M
attribute [local irreducible] Frame Lic

/-! ### One-time passwords -/

/-- `Save` that reported success has written exactly the given record. -/
theorem save_false_stores {u c c'} (h : M.save u c = (Res.ok false, c')) : c'.store = c.store.upsert u := by
  unfold M.save at h
  rw [bind_apply, backend_eq] at h
  generalize oracle c = o at h
  cases o with
  | some k => simp [pure_apply] at h
  | none =>
    simp only [bind_apply, M.modify, pure_apply] at h
    simp at h; rw [← h]; rfl

set_option maxHeartbeats 2000000 in
/-- **C12_otp_consumed_first.** `otp.LoginPost` writes the identity only on a path on which
the record *without* the matched one-time password has been saved successfully before
(error-checked `Save` ahead of `PutSession`). -/
theorem C12_otp_consumed_first (c0 : Ctx) :
    Safe (fun U => ∃ u i cX cY, c0.store.find U = some u ∧
        List.findIdx? (fun y => y == c0.req.pw) u.otps = some i ∧
        M.save { u with otps := swapRemove u.otps i } cX = (.ok false, cY))
      otpLoginPost c0 := by
  unfold otpLoginPost
  safe_auto
  rename_i cA cB hget r u x i heq c8 hload x1 c7 hset x2 c6 hlog x3 c5 hset2 sb hsb c4 hsave x4 c3 hmod b1 hb1 c2 hfb b2 hb2 c1 hfh x5 cE hlog2
  obtain ⟨rfl, rfl⟩ := get_ok hget
  have hf := (load_found hload).1
  have : sb = false := Bool.eq_false_iff.mpr hsb
  subst this
  unfold Lic
  exact ⟨u, i, c5, c4, hf, heq, hsave⟩

/-- The saved record really lacks one occurrence of the used value, and nothing else changed:
swap-remove shortens the list by one … -/
theorem C12_swapRemove_length (l : List Bytes) (i : Nat) (h : i < l.length) :
    (swapRemove l i).length + 1 = l.length := by
  unfold swapRemove
  cases hl : l.getLast? with
  | none => have := List.getLast?_eq_none_iff.mp hl; subst this; simp at h
  | some last => simp [List.length_dropLast, List.length_set]; omega

/-- … and what it drops is one occurrence of the element at position `i` (the matched one):
for every value `x`, its multiplicity in the result plus `[l[i] = x]` is its multiplicity
before.  So every *other* one-time password is kept, and a value stored once is gone. -/
theorem C12_swapRemove_count (l : List Bytes) (i : Nat) (h : i < l.length) (x : Bytes) :
    (swapRemove l i).count x + (if (l[i] == x) = true then 1 else 0) = l.count x := by
  unfold swapRemove
  cases hl : l.getLast? with
  | none => have := List.getLast?_eq_none_iff.mp hl; subst this; simp at h
  | some last =>
    simp only
    obtain ⟨init, rfl⟩ : ∃ init, l = init ++ [last] := by
      have hne : l ≠ [] := by intro h0; subst h0; simp at h
      refine ⟨l.dropLast, ?_⟩
      have h1 := List.dropLast_concat_getLast hne
      have h2 := List.getLast?_eq_some_getLast hne
      rw [hl] at h2
      have : last = l.getLast hne := by simpa using h2
      rw [this]; exact h1.symm
    by_cases hi : i < init.length
    · have hset : (init ++ [last]).set i last = init.set i last ++ [last] := by
        rw [List.set_append_left _ _ hi]
      have hget : (init ++ [last])[i] = init[i] := by rw [List.getElem_append_left hi]
      rw [hset, List.dropLast_concat, hget, List.count_append, List.count_singleton]
      have hc := List.count_set (a := last) (b := x) (l := init) (i := i) hi
      have hpos : (if (init[i] == x) = true then 1 else 0) ≤ List.count x init := by
        split
        · rename_i he
          have : init[i] = x := by simpa using he
          rw [← this]; exact List.count_pos_iff.mpr (List.getElem_mem hi)
        · exact Nat.zero_le _
      rw [hc]
      split <;> split <;> simp_all <;> omega
    · have hie : i = init.length := by simp at h; omega
      subst hie
      have hset : (init ++ [last]).set init.length last = init ++ [last] := by
        rw [List.set_append_right _ _ (Nat.le_refl _)]; simp
      rw [hset, List.dropLast_concat]
      simp [List.count_append, List.count_singleton]

/-! ### Recovery codes -/

/-- A recovery code is accepted only if stored, and acceptance removes exactly one code
(`C02_recovery_code_must_be_stored` has the statement; restated for the list that is saved). -/
theorem C12_recovery_removes_one (codes rest : List Bytes) (input : Bytes)
    (h : useRecoveryCode codes input = some rest) : input ∈ codes ∧ rest.length + 1 = codes.length := by
  unfold useRecoveryCode at h
  split at h
  · cases h
  · rename_i i hi
    simp at h; subst h
    have hh := List.findIdx?_eq_some_iff_getElem.mp hi
    obtain ⟨hl, hp, _⟩ := hh
    refine ⟨?_, ?_⟩
    · have : codes[i] = input := by simpa using hp
      rw [← this]; exact List.getElem_mem hl
    · rw [List.length_eraseIdx]; simp [hl]; omega

/-- Values that were never issued (not in the stored list) never succeed. -/
theorem C12_unknown_code_rejected (codes : List Bytes) (input : Bytes) (h : input ∉ codes) :
    useRecoveryCode codes input = none := by
  cases hr : useRecoveryCode codes input with
  | none => rfl
  | some rest => exact absurd (C12_recovery_removes_one codes rest input hr).1 h

/-! ### TOTP replay protection -/

/-- With replay protection (`UserOneTime`), a code equal to the stored last code is refused. -/
theorem C12_totp_norepeat (c : Ctx) (u : User) (hu : c.ctxUser = some u) (hs : u.totpSecret ≠ [])
    (hot : c.cfg.oneTime = true) (hr : c.req.rcode = []) (hrep : u.totpLast = c.req.code) :
    (totpValidate c).1 = .ok (some (u, .repeated)) := by
  unfold totpValidate tfaUser
  have hne : u.totpSecret.isEmpty = false := by
    cases h : u.totpSecret.isEmpty
    · rfl
    · exact absurd (List.isEmpty_iff.mp h) hs
  simp [bind_apply, currentUser_ctx hu, M.get, pure_apply, hne, hs, hr, hot, hrep]

/-! ### The limit of five one-time passwords -/

theorem C12_otp_limit (c : Ctx) (u : User) (hu : c.ctxUser = some u) (hfull : u.otps.length ≥ maxOTPs) :
    (otpAddPost c).2.store = c.store := by
  unfold otpAddPost
  simp only [bind_apply, currentUser_ctx hu]
  simp only [hfull, if_true]
  have : ∀ p t, (M.respond p t c).2.store = c.store := by
    intro p t
    unfold M.respond M.render
    simp only [bind_apply, backend_eq]
    cases oracle c <;> simp [pure_apply, M.fail, M.stop, M.act, M.modify, tick]
  exact this _ _

end AuthbossModel.M
