/-
  C02 — With a second factor enabled, password knowledge alone never yields a session.

  `Before(EventAuthHijack)` is the hook the totp2fa / sms2fa units use.  The chain theorem
  of C03 (`veto_chain`) gives order-independence: whichever of the two is loaded first takes
  the login over; if both are loaded and the account has both factors the first in load
  order wins, and in every case the chain never reports "not handled".
-/
import Proofs.Veto
import Proofs.Dispatch

namespace AuthbossModel.M
attribute [local irreducible] Frame Lic

/-- The account in the request context has a TOTP secret. -/
def HasTotp (c : Ctx) : Prop := ∃ u, c.ctxUser = some u ∧ u.totpSecret ≠ []
/-- The account in the request context has an SMS number. -/
def HasSms (c : Ctx) : Prop := ∃ u, c.ctxUser = some u ∧ u.smsNumber ≠ []

theorem hijack_handlers (u : Unit) : ∀ h ∈ u.before .authHijack, h = totpHijack ∨ h = smsHijack := by
  intro h hm
  unfold Unit.before at hm
  split at hm <;> simp_all

/-- `totp2fa.HijackAuth` takes over (or fails) when nobody has yet and the account has a secret. -/
theorem totpHijack_vetoes (c : Ctx) (h : HasTotp c) : Vetoes (totpHijack false) c := by
  obtain ⟨u, hu, hs⟩ := h
  intro c' he
  unfold totpHijack at he
  simp only [Bool.false_eq_true, if_false, bind_apply, M.get, hu] at he
  have hne : u.totpSecret.isEmpty = false := by
    cases h : u.totpSecret.isEmpty
    · rfl
    · exact absurd (List.isEmpty_iff.mp h) hs
  simp only [hne, Bool.false_eq_true, if_false, bind_apply, M.putS, M.act, M.modify] at he
  generalize M.redirect _ _ _ _ _ = rr at he
  obtain ⟨res, c1⟩ := rr
  cases res <;> simp [pure_apply] at he

/-- **C02_totp_parks.** With the totp unit loaded *first among the hijackers* — or alone —
`Before(EventAuthHijack)` never reports "not handled" for an account with a TOTP secret: the
primary login (password, OTP, recover-and-login all call it before writing the session)
stops there. -/
theorem C02_totp_parks (c : Ctx) (h : HasTotp c) (hs : List EvHandler) :
    Vetoes (callHandlers (totpHijack :: hs) false) c := by
  intro c' he
  unfold callHandlers at he
  rw [bind_apply] at he
  generalize hr : totpHijack false c = r at he
  obtain ⟨res, c1⟩ := r
  cases res with
  | stop s => simp at he
  | ok i =>
    have : i = true := by
      cases i
      · exact absurd hr (totpHijack_vetoes c h c1)
      · rfl
    subst this
    exact callHandlers_true hs c1 c' (by simpa using he)

/-- The parking writes the pending key, never the identity: both hijack handlers are frames
for the session identity (already part of `C01_event_handlers`), restated here. -/
theorem C02_hijack_never_logs_in (b : Bool) (c : Ctx) :
    uidPuts (totpHijack b c).2.acts = uidPuts c.acts ∧ uidPuts (smsHijack b c).2.acts = uidPuts c.acts :=
  by
  have h1 := Frame.totpHijack b
  have h2 := Frame.smsHijack b
  unfold Frame at h1 h2
  exact ⟨h1 c, h2 c⟩

/-- **C02_completion (TOTP / recovery code).** The TOTP validation step sets the identity only
through a successful `totpValidate` — see `C01_step` (`LicTotp`); and `totpValidate` succeeds
with a code only if that code is valid *for the secret of the user it resolved*, or with a
recovery code only if it is one of that user's stored codes (in which case it is removed and
saved first).  Stated on the pure verification function: -/
theorem C02_recovery_code_must_be_stored (codes : List Bytes) (input : Bytes) (rest : List Bytes)
    (h : useRecoveryCode codes input = some rest) : input ∈ codes ∧ rest.length + 1 = codes.length := by
  unfold useRecoveryCode at h
  split at h
  · cases h
  · rename_i i hi
    simp at h; subst h
    have hlt : i < codes.length := by
      have := List.findIdx?_eq_some_iff_getElem.mp hi
      exact this.1
    refine ⟨?_, ?_⟩
    · have := List.findIdx?_eq_some_iff_getElem.mp hi
      obtain ⟨hl, hp, _⟩ := this
      have : codes[i] = input := by simpa using hp
      rw [← this]; exact List.getElem_mem hl
    · rw [List.length_eraseIdx]; simp [hlt]; omega

/-- An empty stored recovery-code field matches nothing (the `[""]` regression class: the
model decodes `""` to the empty list, and an empty submitted code is never looked up because
the handlers only consult recovery codes for a non-empty `recovery_code` value). -/
theorem C02_no_codes_no_match (input : Bytes) : useRecoveryCode [] input = none := rfl

/-- **C02_sms_witness (known finding F9).** In the model, as in the code, the SMS code check
compares the submitted code with the code held in the *session*, whoever it was sent to:
the verdict does not depend on the pending user at all. -/
theorem C02_sms_verdict_ignores_user (u v : User) (c : Ctx) (hr : c.req.rcode = []) :
    ((smsVerdict .validate u c).1, (smsVerdict .validate v c).1) =
    (match (smsVerdict .validate u c).1 with
      | .ok (_, b) => (.ok (u, b), .ok (v, b))
      | .stop s => (.stop s, .stop s)) := by
  unfold smsVerdict
  simp only [bind_apply, M.get, hr, List.isEmpty_nil, Bool.not_true, Bool.false_and, Bool.false_eq_true, if_false]
  cases c.sess.get .smsSecret with
  | none => simp [M.fail, M.stop]
  | some code => by_cases h : code.isEmpty = true <;> simp [h, M.fail, M.stop, pure_apply]

end AuthbossModel.M
