/-
  C02 — With a second factor enabled, password knowledge alone never yields a session.

  `Before(EventAuthHijack)` is the hook the totp2fa / sms2fa units use.  The chain theorem
  of C03 (`veto_chain`) gives order-independence: whichever of the two is loaded first takes
  the login over; if both are loaded and the account has both factors the first in load
  order wins, and in every case the chain never reports "not handled".
-/
import Proofs.Veto
import Proofs.Dispatch
import Proofs.ReadOnly
import Proofs.CtxUser
import Properties.C12

namespace AuthbossModel.M
attribute [local irreducible] Frame Lic

/-- The account in the request context has a TOTP secret. -/
def HasTotp (c : Ctx) : Prop := ∃ u, c.ctxUser = some u ∧ u.totpSecret ≠ []
/-- The account in the request context has an SMS number. -/
def HasSms (c : Ctx) : Prop := ∃ u, c.ctxUser = some u ∧ u.smsNumber ≠ []

theorem hijack_handlers (u : Unit) : ∀ h ∈ u.before .authHijack, h = totpHijack ∨ h = smsHijack := by
  intro h hm
  unfold Unit.before at hm
  split at hm <;> simp_all

/-- `totp2fa.HijackAuth` takes over (or fails) when nobody has yet and the account has a secret. -/
theorem totpHijack_vetoes (c : Ctx) (h : HasTotp c) : Vetoes (totpHijack false) c := by
  obtain ⟨u, hu, hs⟩ := h
  intro c' he
  unfold totpHijack at he
  simp only [Bool.false_eq_true, if_false, bind_apply, M.get, hu] at he
  have hne : u.totpSecret.isEmpty = false := by
    cases h : u.totpSecret.isEmpty
    · rfl
    · exact absurd (List.isEmpty_iff.mp h) hs
  simp only [hne, Bool.false_eq_true, if_false, bind_apply, M.putS, M.act, M.modify] at he
  generalize M.redirect _ _ _ _ _ = rr at he
  obtain ⟨res, c1⟩ := rr
  cases res <;> simp [pure_apply] at he

/-- **C02_totp_parks.** With the totp unit loaded *first among the hijackers* — or alone —
`Before(EventAuthHijack)` never reports "not handled" for an account with a TOTP secret: the
primary login (password, OTP, recover-and-login all call it before writing the session)
stops there. -/
theorem C02_totp_parks (c : Ctx) (h : HasTotp c) (hs : List EvHandler) :
    Vetoes (callHandlers (totpHijack :: hs) false) c := by
  intro c' he
  unfold callHandlers at he
  rw [bind_apply] at he
  generalize hr : totpHijack false c = r at he
  obtain ⟨res, c1⟩ := r
  cases res with
  | stop s => simp at he
  | ok i =>
    have : i = true := by
      cases i
      · exact absurd hr (totpHijack_vetoes c h c1)
      · rfl
    subst this
    exact callHandlers_true hs c1 c' (by simpa using he)

/-- The parking writes the pending key, never the identity: both hijack handlers are frames
for the session identity (already part of `C01_event_handlers`), restated here. -/
theorem C02_hijack_never_logs_in (b : Bool) (c : Ctx) :
    uidPuts (totpHijack b c).2.acts = uidPuts c.acts ∧ uidPuts (smsHijack b c).2.acts = uidPuts c.acts :=
  by
  have h1 := Frame.totpHijack b
  have h2 := Frame.smsHijack b
  unfold Frame at h1 h2
  exact ⟨h1 c, h2 c⟩

/-- **C02_completion (TOTP / recovery code).** The TOTP validation step sets the identity only
through a successful `totpValidate` — see `C01_step` (`LicTotp`); and `totpValidate` succeeds
with a code only if that code is valid *for the secret of the user it resolved*, or with a
recovery code only if it is one of that user's stored codes (in which case it is removed and
saved first).  Stated on the pure verification function: -/
theorem C02_recovery_code_must_be_stored (codes : List Bytes) (input : Bytes) (rest : List Bytes)
    (h : useRecoveryCode codes input = some rest) : input ∈ codes ∧ rest.length + 1 = codes.length := by
  unfold useRecoveryCode at h
  split at h
  · cases h
  · rename_i i hi
    simp at h; subst h
    have hlt : i < codes.length := by
      have := List.findIdx?_eq_some_iff_getElem.mp hi
      exact this.1
    refine ⟨?_, ?_⟩
    · have := List.findIdx?_eq_some_iff_getElem.mp hi
      obtain ⟨hl, hp, _⟩ := this
      have : codes[i] = input := by simpa using hp
      rw [← this]; exact List.getElem_mem hl
    · rw [List.length_eraseIdx]; simp [hlt]; omega

/-- An empty stored recovery-code field matches nothing (the `[""]` regression class: the
model decodes `""` to the empty list, and an empty submitted code is never looked up because
the handlers only consult recovery codes for a non-empty `recovery_code` value). -/
theorem C02_no_codes_no_match (input : Bytes) : useRecoveryCode [] input = none := rfl

/-- **C02_sms_witness (known finding F9).** In the model, as in the code, the SMS code check
compares the submitted code with the code held in the *session*, whoever it was sent to:
the verdict does not depend on the pending user at all. -/
theorem C02_sms_verdict_ignores_user (u v : User) (c : Ctx) (hr : c.req.rcode = []) :
    ((smsVerdict .validate u c).1, (smsVerdict .validate v c).1) =
    (match (smsVerdict .validate u c).1 with
      | .ok (_, b) => (.ok (u, b), .ok (v, b))
      | .stop s => (.stop s, .stop s)) := by
  unfold smsVerdict
  simp only [bind_apply, M.get, hr, List.isEmpty_nil, Bool.not_true, Bool.false_and, Bool.false_eq_true, if_false]
  cases c.sess.get .smsSecret with
  | none => simp [M.fail, M.stop]
  | some code => by_cases h : code.isEmpty = true <;> simp [h, M.fail, M.stop, pure_apply]


/-! ### The SMS hijacker, and any load order -/

/-- `sms2fa.HijackAuth` takes over (or fails) when nobody has yet and the account has a number. -/
theorem smsHijack_vetoes (c : Ctx) (h : HasSms c) : Vetoes (smsHijack false) c := by
  obtain ⟨u, hu, hs⟩ := h
  intro c' he
  unfold smsHijack at he
  simp only [Bool.false_eq_true, if_false, bind_apply, M.get, hu] at he
  have hne : u.smsNumber.isEmpty = false := by
    cases h : u.smsNumber.isEmpty
    · rfl
    · exact absurd (List.isEmpty_iff.mp h) hs
  simp only [hne, Bool.false_eq_true, if_false, bind_apply, M.putS, M.act, M.modify] at he
  generalize M.smsSendCode _ _ _ = rr at he
  obtain ⟨res, c1⟩ := rr
  cases res with
  | stop s => simp at he
  | ok r =>
    cases r <;> simp only [M.fail, M.stop, bind_apply] at he
    all_goals first
      | (simp at he; done)
      | (generalize M.redirect _ _ _ _ _ = r2 at he
         obtain ⟨res2, c2⟩ := r2
         cases res2 <;> simp [pure_apply] at he)

/-- **C02_sms_parks.** Same for the SMS unit at the head of the hijackers. -/
theorem C02_sms_parks (c : Ctx) (h : HasSms c) (hs : List EvHandler) :
    Vetoes (callHandlers (smsHijack :: hs) false) c := by
  intro c' he
  unfold callHandlers at he
  rw [bind_apply] at he
  generalize hr : smsHijack false c = r at he
  obtain ⟨res, c1⟩ := r
  cases res with
  | stop s => simp at he
  | ok i =>
    have : i = true := by
      cases i
      · exact absurd hr (smsHijack_vetoes c h c1)
      · rfl
    subst this
    exact callHandlers_true hs c1 c' (by simpa using he)


/-- A hijack chain: a handler that takes over when reached with "not handled yet" makes the
whole chain report "handled", wherever it sits. -/
theorem hijack_chain (J : Ctx → Prop) (hs : List EvHandler)
    (hkeep : ∀ h ∈ hs, ∀ b c, J c → ∀ r c', h b c = (.ok r, c') → J c')
    (hveto : ∃ h ∈ hs, ∀ c, J c → Vetoes (h false) c) :
    ∀ c, J c → Vetoes (callHandlers hs false) c := by
  induction hs with
  | nil => obtain ⟨h, hm, _⟩ := hveto; cases hm
  | cons h hs ih =>
    intro c hj c' he
    unfold callHandlers at he
    rw [bind_apply] at he
    generalize hr : h false c = r at he
    obtain ⟨res, c1⟩ := r
    cases res with
    | stop s => simp at he
    | ok i =>
      have hj1 : J c1 := hkeep h (by simp) false c hj i c1 hr
      cases i with
      | true => exact callHandlers_true hs c1 c' (by simpa using he)
      | false =>
        obtain ⟨hv, hvm, hvv⟩ := hveto
        rcases List.mem_cons.mp hvm with rfl | hin
        · exact absurd hr (hvv c hj c1)
        · exact ih (fun h' hm => hkeep h' (by simp [hm])) ⟨hv, hin, hvv⟩ c1 hj1 c' (by simpa using he)

/-- **C02_parks_any_order.** Whatever else is loaded and in whatever order: with the totp unit
loaded and a TOTP secret on the account (or the sms unit and a number), `Before(EventAuthHijack)`
never reports "not handled" — the primary login stops and the session identity is not written. -/
theorem C02_parks_any_order (c : Ctx)
    (h : (c.cfg.has .totp = true ∧ HasTotp c) ∨ (c.cfg.has .sms = true ∧ HasSms c)) :
    Vetoes (fireBefore .authHijack) c := by
  intro c' he
  unfold fireBefore at he
  simp only [bind_apply, M.get] at he
  have hk : ∀ (J : Ctx → Prop), (∀ c c', c'.ctxUser = c.ctxUser → J c → J c') →
      ∀ h ∈ c.cfg.units.flatMap (·.before .authHijack), ∀ b c0, J c0 → ∀ r c1, h b c0 = (.ok r, c1) → J c1 := by
    intro J hJ h hm b c0 hj r c1 hr
    obtain ⟨u, _, hu⟩ := List.mem_flatMap.mp hm
    rcases hijack_handlers u h hu with rfl | rfl
    · have := CU.totpHijack b c0; rw [hr] at this; exact hJ _ _ this hj
    · have := CU.smsHijack b c0; rw [hr] at this; exact hJ _ _ this hj
  rcases h with ⟨hl, ht⟩ | ⟨hl, ht⟩
  · refine hijack_chain HasTotp _ (hk HasTotp ?_) ?_ c ht c' he
    · intro c0 c1 he ⟨u, hu, hs⟩; exact ⟨u, he.trans hu, hs⟩
    · refine ⟨totpHijack, List.mem_flatMap.mpr ⟨.totp, by simpa [Config.has] using hl, by simp [Unit.before]⟩, ?_⟩
      intro c0 hj; exact totpHijack_vetoes c0 hj
  · refine hijack_chain HasSms _ (hk HasSms ?_) ?_ c ht c' he
    · intro c0 c1 he ⟨u, hu, hs⟩; exact ⟨u, he.trans hu, hs⟩
    · refine ⟨smsHijack, List.mem_flatMap.mpr ⟨.sms, by simpa [Config.has] using hl, by simp [Unit.before]⟩, ?_⟩
      intro c0 hj; exact smsHijack_vetoes c0 hj


/-! ### What a successful second-factor verification means -/

attribute [local irreducible] Ret Post

set_option maxHeartbeats 4000000 in
/-- **C02_totp_success_means.** `totpValidate` reports success only for the user `u0` that the
pending key (or the current session) resolves to, only if that user has TOTP enabled, and only
if the submitted code is valid *for that user's secret* (no recovery code submitted) or the
submitted recovery code is one of *that user's* stored codes. -/
theorem C02_totp_success_means (c0 : Ctx) :
    Ret (fun r _ => ∀ u, r = some (u, TotpStatus.success) →
          ∃ (u0 : User) (c1 : Ctx), tfaUser .totpPending c0 = (.ok (.found u0), c1) ∧ u.pid = u0.pid ∧
            u0.totpSecret ≠ [] ∧
            (c0.req.rcode = [] → c0.req.totpOk.contains u0.totpSecret = true) ∧
            (c0.req.rcode ≠ [] → c0.req.rcode ∈ u0.recCodes))
      totpValidate c0 := by
  unfold totpValidate
  ret_auto
  all_goals (unfold Post; intro u hu)
  all_goals first
    | (simp at hu; done)
    | skip
  all_goals (
    have ht := ‹tfaUser SKey.totpPending c0 = _›
    have hg := ‹M.get _ = (Res.ok _, _)›
    obtain ⟨rfl, rfl⟩ := get_ok hg
    have hq := (RO.tfaUser SKey.totpPending c0).1
    rw [ht] at hq
    simp only at hq
    have hsec := ‹¬List.isEmpty _ = true›
    refine ⟨_, _, ht, ?_, ?_, ?_, ?_⟩
    · simp at hu; rw [← hu]
    · intro h0; apply hsec; simp [h0]
    · intro hr
      first
        | (exfalso
           have hn := ‹(!List.isEmpty _) = true›
           rw [hq, hr] at hn
           simp at hn)
        | (have hok := ‹¬(!List.contains _ _) = true›
           rw [hq] at hok
           simpa using hok)
    · intro hr
      first
        | (have hu' := ‹useRecoveryCode _ _ = some _›
           rw [hq] at hu'
           exact (C12_recovery_removes_one _ _ _ hu').1)
        | (exfalso
           have hn := ‹¬(!List.isEmpty _) = true›
           rw [hq] at hn
           simp at hn
           exact hr hn))

/-- `SS h`: `h` changes neither storage nor what the request sees of the session. -/
def SS {α} (h : H α) : Prop := ∀ c, (h c).2.store = c.store ∧ (h c).2.sess = c.sess ∧ (h c).2.ctxPid = c.ctxPid
theorem SS.pure {α} (a : α) : SS (Pure.pure a : H α) := fun _ => ⟨rfl, rfl, rfl⟩
theorem SS.get : SS M.get := fun _ => ⟨rfl, rfl, rfl⟩
theorem SS.backend : SS M.backend := fun _ => ⟨rfl, rfl, rfl⟩
theorem SS.bind {α β} {m : H α} {f : α → H β} (hm : SS m) (hf : ∀ a, SS (f a)) : SS (m >>= f) := by
  intro c
  rw [bind_apply]
  have h1 := hm c
  generalize m c = r at h1
  obtain ⟨res, c'⟩ := r
  cases res with
  | ok a => have h2 := hf a c'; exact ⟨h2.1.trans h1.1, h2.2.1.trans h1.2.1, h2.2.2.trans h1.2.2⟩
  | stop s => exact h1
theorem SS.ite {α} {b : Prop} [Decidable b] {x y : H α} (hx : SS x) (hy : SS y) : SS (if b then x else y) := by
  by_cases h : b <;> simp [h] <;> assumption
theorem SS.load (p) : SS (M.load p) := by
  unfold M.load
  repeat' (first | exact SS.pure _ | exact SS.get | exact SS.backend | apply SS.ite | apply SS.bind | split | intro _)
theorem SS.currentUserID : SS M.currentUserID := by
  unfold M.currentUserID
  repeat' (first | exact SS.pure _ | exact SS.get | apply SS.bind | split | intro _)

theorem currentUserID_eq (c : Ctx) :
    M.currentUserID c = (.ok (match c.ctxPid with | some p => p | none => (c.sess.get .uid).getD []), c) := by
  unfold M.currentUserID
  simp only [bind_apply, M.get]
  cases c.ctxPid <;> simp [pure_apply]

/-- With no user in the request context, `currentUser` is the stored record of the session's identity. -/
theorem currentUser_found_none {c : Ctx} {v : User} {cA : Ctx} (hcu : c.ctxUser = none)
    (h : M.currentUser c = (.ok (.found v), cA)) :
    ∃ pid, (c.ctxPid = some pid ∨ (c.ctxPid = none ∧ c.sess.get .uid = some pid)) ∧ c.store.find pid = some v := by
  unfold M.currentUser at h
  simp only [bind_apply, M.get, hcu, currentUserID_eq] at h
  cases hp : c.ctxPid with
  | some p =>
    simp only [hp] at h
    by_cases he : p.isEmpty = true
    · simp [he, pure_apply] at h
    · simp only [he, if_false] at h
      exact ⟨p, Or.inl rfl, (load_found h).1⟩
  | none =>
    simp only [hp] at h
    cases hs : c.sess.get .uid with
    | none => simp [hs, pure_apply] at h
    | some p =>
      simp only [hs, Option.getD_some] at h
      by_cases he : p.isEmpty = true
      · simp [he, pure_apply] at h
      · simp only [he, if_false] at h
        exact ⟨p, Or.inr ⟨rfl, rfl⟩, (load_found h).1⟩

theorem SS.currentUser : SS M.currentUser := by
  unfold M.currentUser
  have := SS.currentUserID; have := SS.load
  repeat' (first | exact SS.pure _ | exact SS.get | assumption | apply SS.ite | apply SS.bind | split | intro _)

/-- Who `tfaUser` resolves to: the user already in the request context, or the stored record
of the session's identity, or — only when there is none — the stored record of the pending key. -/
theorem tfaUser_found (k : SKey) (c : Ctx) (u : User) (c1 : Ctx)
    (h : tfaUser k c = (.ok (.found u), c1)) :
    c.ctxUser = some u ∨
    (∃ pid, (c.ctxPid = some pid ∨ (c.ctxPid = none ∧ c.sess.get .uid = some pid)) ∧ c.store.find pid = some u) ∨
    (∃ pid, c.sess.get k = some pid ∧ c.store.find pid = some u) := by
  unfold tfaUser at h
  rw [bind_apply] at h
  have hss := SS.currentUser c
  generalize hr0 : M.currentUser c = r0 at h hss
  obtain ⟨res0, cA⟩ := r0
  cases res0 with
  | stop s => simp at h
  | ok a =>
    cases a with
    | found v =>
      simp [pure_apply] at h
      obtain ⟨rfl, _⟩ := h
      cases hcu : c.ctxUser with
      | some w =>
        left
        have := currentUser_ctx hcu
        rw [this] at hr0
        simp at hr0
        rw [hr0.1]
      | none => exact Or.inr (Or.inl (currentUser_found_none hcu hr0))
    | error => simp [pure_apply] at h
    | notFound =>
      simp only [bind_apply, M.get] at h
      right; right
      simp only at hss
      cases hk : cA.sess.get k with
      | none => simp [hk, pure_apply] at h
      | some pid =>
        simp only [hk] at h
        by_cases he : pid.isEmpty = true
        · simp [he, pure_apply] at h
        · simp only [he, if_false] at h
          refine ⟨pid, ?_, ?_⟩
          · rw [← hss.2.1]; exact hk
          · rw [← hss.1]; exact (load_found h).1
set_option maxHeartbeats 4000000 in
/-- **C02_sms_success_means.** `smsVerdict` accepts only a recovery code stored for *that user*
(outside enrolment), or the code currently held in the session — the latter is not tied to
the user (known finding F9, `C02_sms_verdict_ignores_user`). -/
theorem C02_sms_success_means (pg : SmsPage) (u : User) (c0 : Ctx) :
    Ret (fun r _ => ∀ u', r = (u', true) →
          u'.pid = u.pid ∧
          ((c0.req.rcode ≠ [] ∧ pg ≠ .confirm ∧ c0.req.rcode ∈ u.recCodes) ∨
           (∃ code, c0.sess.get .smsSecret = some code ∧ code ≠ [] ∧ c0.req.code = code)))
      (smsVerdict pg u) c0 := by
  unfold smsVerdict
  ret_auto
  all_goals (unfold Post; intro u' hu)
  all_goals (
    have hg := ‹M.get _ = (Res.ok _, _)›
    obtain ⟨rfl, rfl⟩ := get_ok hg)
  all_goals first
    | (simp at hu; done)
    | skip
  all_goals (
    refine ⟨by simp at hu; first | rw [← hu] | rw [← hu.1], ?_⟩
    first
      | (left
         have hc := ‹(!List.isEmpty _ && _) = true›
         have hu2 := ‹useRecoveryCode _ _ = some _›
         simp at hc
         exact ⟨hc.1, hc.2, (C12_recovery_removes_one _ _ _ hu2).1⟩)
      | (right
         have hs := ‹c0.sess.get SKey.smsSecret = some _›
         have hne := ‹¬List.isEmpty _ = true›
         refine ⟨_, hs, ?_, ?_⟩
         · intro h0; apply hne; simp [h0]
         · simp at hu; exact hu.2))


end AuthbossModel.M
