/-
  C01 — A logged-in session is only ever issued against a valid credential of that user.

  Model: the whole request pipeline (`stepHttp`: LoadClientState → remember middleware →
  expire middleware → route → flush of the pending client-state events), for every
  configuration (every subset and load order of units), every state, every request and
  every fault oracle.
-/
import Proofs.StepUid

namespace AuthbossModel.M

/-- **C01_step.** One operation. If after it browser `b`'s session names user `U` and it did
not before, then the operation was an HTTP request *by `b`* and that request was licensed
for `U`: it carried `U`'s valid remember token, or its route's own credential check for
`U` succeeded (see `C01_licence_*` for what that means per route). -/
theorem C01_step (cfg : Config) (s : State) (op : Op) (b U : Bytes)
    (hreal : ∀ b' j, op ≠ .setSess b' j)   -- `setSess` is the harness' state-injection shortcut, not an operation of the system
    (hnew : ((step cfg s op).1.browser b).sess.get .uid = some U)
    (hold : (s.browser b).sess.get .uid ≠ some U) :
    ∃ rt req fault, op = .http b rt req fault ∧ ServeLic rt (initCtx cfg s b req fault) U := by
  cases op with
  | http b' rt req fault =>
    by_cases hb : b = b'
    · subst hb
      exact ⟨rt, req, fault, rfl, stepHttp_uid cfg s b rt req fault U (by simpa [step] using hnew) hold⟩
    · have := stepHttp_other cfg s b' b rt req fault hb
      simp only [step] at hnew
      rw [this] at hnew
      exact absurd hnew hold
  | advance d => exact absurd (by simpa [step, State.browser] using hnew) hold
  | apiLock pid =>
    simp only [step, withUser] at hnew
    split at hnew <;> exact absurd (by simpa [State.browser] using hnew) hold
  | apiUnlock pid =>
    simp only [step, withUser] at hnew
    split at hnew <;> exact absurd (by simpa [State.browser] using hnew) hold
  | apiUpdatePassword pid pw =>
    simp only [step] at hnew
    split at hnew <;> exact absurd (by simpa [State.browser] using hnew) hold
  | setCookie b' ck =>
    simp only [step] at hnew
    by_cases hb : b = b'
    · subst hb; rw [setBrowser_browser] at hnew; exact absurd hnew hold
    · rw [setBrowser_other _ _ _ _ hb] at hnew; exact absurd hnew hold
  | seedUser u => exact absurd (by simpa [step, State.browser] using hnew) hold
  | setSess b' j => exact absurd rfl (hreal b' j)

/-- **C01_history.** Along every history, every point at which a browser's session starts
naming `U` is an HTTP request of that browser licensed for `U` in the state just before it. -/
theorem C01_history (cfg : Config) (s0 : State) (pre : List Op) (op : Op) (b U : Bytes)
    (hreal : ∀ b' j, op ≠ .setSess b' j)
    (hnew : ((run cfg s0 (pre ++ [op])).browser b).sess.get .uid = some U)
    (hold : ((run cfg s0 pre).browser b).sess.get .uid ≠ some U) :
    ∃ rt req fault, op = .http b rt req fault ∧
      ServeLic rt (initCtx cfg (run cfg s0 pre) b req fault) U := by
  have : run cfg s0 (pre ++ [op]) = (step cfg (run cfg s0 pre) op).1 := by
    simp [run, List.foldl_append]
  rw [this] at hnew
  exact C01_step cfg _ op b U hreal hnew hold

/-- **C01_event_handlers.** No event handler of any unit — whatever is loaded, in whatever
order — ever establishes a session: `FireBefore`/`FireAfter` leave the pending `uid` writes
exactly as they were. -/
theorem C01_event_handlers (e : Ev) (c : Ctx) :
    uidPuts (fireBefore e c).2.acts = uidPuts c.acts ∧ uidPuts (fireAfter e c).2.acts = uidPuts c.acts :=
  ⟨Frame.fireBefore e c, Frame.fireAfter e c⟩

/-! ### What the licences say (definitional unfoldings, for the reader) -/

theorem C01_licence_password (c : Ctx) (U : Bytes) :
    Licensed .login c U ↔ U = c.req.pid ∧ ∃ u, c.store.find U = some u ∧ u.pw = c.req.pw ∧ u.pw ≠ [] := Iff.rfl

theorem C01_licence_otp (c : Ctx) (U : Bytes) :
    Licensed .otpLogin c U ↔ U = c.req.pid ∧ ∃ u, c.store.find U = some u ∧ c.req.pw ∈ u.otps := Iff.rfl

theorem C01_licence_register (c : Ctx) (U : Bytes) :
    Licensed .register c U ↔ U = c.req.pid ∧ c.store.find U = none ∧ c.req.valid = true := Iff.rfl

theorem C01_licence_recover (c : Ctx) (U : Bytes) :
    Licensed .recoverEnd c U ↔
      c.cfg.recoverLogin = true ∧ c.req.valid = true ∧
      ∃ raw u, c.req.token = some raw ∧ raw.length = tokenSize ∧ u ∈ c.store.users ∧ u.pid = U ∧
        u.recoverSel = some (raw.take 32) ∧ u.recoverVer = some (raw.drop 32) ∧ ¬ (c.now > u.recoverExpiry) := Iff.rfl

theorem C01_licence_oauth2 (c : Ctx) (U : Bytes) :
    Licensed .oauth2End c U ↔
      c.sess.get .oauthState = some c.req.state ∧ c.req.oerr = [] ∧
      ∃ puid, c.req.provUid = some puid ∧ U = makeOAuth2PID c.req.provider puid := Iff.rfl

theorem C01_licence_remember (c : Ctx) (U : Bytes) :
    LicRemember c U ↔ ∃ raw, c.rm = some (.raw raw) ∧ rememberPid raw = some U ∧ (U, raw) ∈ c.store.tokens := Iff.rfl

/-- Every other route (logout, recover start, confirm, OTP management, 2FA setup /
confirm / remove / regenerate, e-mail verification, protected routes, unknown routes)
licenses nobody. -/
theorem C01_no_other_route (rt : Route) (c : Ctx) (U : Bytes)
    (h : rt ≠ .login ∧ rt ≠ .otpLogin ∧ rt ≠ .register ∧ rt ≠ .recoverEnd ∧ rt ≠ .oauth2End ∧
         rt ≠ .totpValidate ∧ rt ≠ .smsValidate) : ¬ Licensed rt c U := by
  cases rt <;> simp_all [Licensed]

/-- `MwReach` (the only way the licensing context may differ from the request's initial
context) keeps the request, the configuration, the clock and every user record. -/
theorem C01_mwreach (c c' : Ctx) (h : MwReach c c') :
    c'.req = c.req ∧ c'.cfg = c.cfg ∧ c'.now = c.now ∧ c'.store.users = c.store.users ∧
    (∀ k v, k ≠ SKey.halfauth → c'.sess.get k = some v → c.sess.get k = some v) := h

/-! ### Non-vacuity (concrete reachable states; these are tests of the model, evaluated by the kernel) -/

def nvCfg : Config := { units := [.auth, .lock, .confirm, .remember, .otp], lockAfter := 3, lockWindow := 100, lockDuration := 100 }
def nvUser : User := { pid := lit "a@x.c", pw := lit "pw", confirmed := true, otps := [lit "o1", lit "o2"] }

/-- The hypotheses of `C01_step` are met by a real login, and the conclusion's licence is the password one. -/
example : ((run nvCfg {} [.seedUser nvUser, .http (lit "b1") .login { pid := lit "a@x.c", pw := lit "pw" } none]).browser
    (lit "b1")).sess.get .uid = some (lit "a@x.c") := by decide

/-- A wrong password leaves the session without identity. -/
example : ((run nvCfg {} [.seedUser nvUser, .http (lit "b1") .login { pid := lit "a@x.c", pw := lit "nope" } none]).browser
    (lit "b1")).sess.get .uid = none := by decide

set_option maxHeartbeats 2000000 in
/-- A one-time password logs in once; replaying it does not (second browser stays anonymous). -/
example :
    let s := run nvCfg {} [.seedUser nvUser,
      .http (lit "b1") .otpLogin { pid := lit "a@x.c", pw := lit "o1" } none,
      .http (lit "b2") .otpLogin { pid := lit "a@x.c", pw := lit "o1" } none]
    ((s.browser (lit "b1")).sess.get .uid, (s.browser (lit "b2")).sess.get .uid) = (some (lit "a@x.c"), none) := by decide

end AuthbossModel.M
