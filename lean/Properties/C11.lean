/-
  C11 — Session/cookie changes reach the client exactly once, in order, before the body.
  Theorems quantify over *every* handler program (`List HOp`, any length) and, where
  stated, every fault/store configuration `Cfg`.
-/
import AuthbossModel.ClientState
import Proofs.ClientState

namespace AuthbossModel.CS

/-! ## Property theorems -/

/-- **C11 (characterisation).**  For every handler program, with working stores, what
leaves the response writer is exactly: nothing at all if the handler never writes;
otherwise one `WriteState` per store that has pending changes, carrying exactly the
changes made for *that* store *before the first write*, in program order — session
first, then cookie — followed by the handler's header/body writes and nothing else. -/
theorem C11_characterisation (p : List HOp) :
    (run ok p).out =
      if (post p).isEmpty then []
      else flushCalls (evsOf .session (pre p)) (evsOf .cookie (pre p)) ++ writesOf (post p) := by
  have := runFrom_fresh {} p rfl rfl
  simpa [run] using this

/-- **C11_once / C11_no_replay.** Whatever the program does after its first write
(more puts, more writes, any number of them) adds no store call. -/
theorem C11_no_replay (p q : List HOp) (hw : (post p).isEmpty = false) :
    (run ok (p ++ q)).out = (run ok p).out ++ writesOf q := by
  have h1 : (run ok p).hasWritten = true ∧ (run ok p).dead = false := by
    clear q
    unfold run
    suffices h : ∀ w : W, w.dead = false → (w.hasWritten = true ∨ (post p).isEmpty = false) →
        (runFrom ok w p).hasWritten = true ∧ (runFrom ok w p).dead = false from
      h {} rfl (Or.inr hw)
    clear hw
    induction p with
    | nil => intro w hd h; simp [post] at h; simp [runFrom, h, hd]
    | cons op p ih =>
      intro w hd h
      rw [runFrom_cons]
      match hev : op.ev? with
      | some (s, e) =>
        rw [exec_ev ok w op s e hev hd]
        rw [post_ev op p s e hev] at h
        cases s <;> exact ih _ hd h
      | none =>
        have hwd : ∀ x : Out, let w' : W := { (if w.hasWritten = true then w else (flush ok w).1) with
              out := (if w.hasWritten = true then w else (flush ok w).1).out ++ [x] }
            (runFrom ok w' p).hasWritten = true ∧ (runFrom ok w' p).dead = false := by
          intro x
          have := runFrom_written ok { (if w.hasWritten = true then w else (flush ok w).1) with
              out := (if w.hasWritten = true then w else (flush ok w).1).out ++ [x] } p
            (by by_cases h' : w.hasWritten = true <;> simp [h', flush_ok])
            (by by_cases h' : w.hasWritten = true <;> simp [h', flush_ok, hd])
          exact ⟨this.2.1, this.2.2⟩
        rcases ev_none op hev with ⟨code, rfl⟩ | ⟨b, rfl⟩
        · have hx : exec ok w (.writeHeader code) =
              { (if w.hasWritten = true then w else (flush ok w).1) with
                out := (if w.hasWritten = true then w else (flush ok w).1).out ++ [.header code] } := by
            by_cases h' : w.hasWritten = true <;> simp [exec, hd, h', flush_ok]
          rw [hx]; exact hwd _
        · have hx : exec ok w (.write b) =
              { (if w.hasWritten = true then w else (flush ok w).1) with
                out := (if w.hasWritten = true then w else (flush ok w).1).out ++ [.body b] } := by
            by_cases h' : w.hasWritten = true <;> simp [exec, hd, h', flush_ok]
          rw [hx]; exact hwd _
  have : run ok (p ++ q) = runFrom ok (run ok p) q := by
    simp [run, runFrom, List.foldl_append]
  rw [this]
  exact (runFrom_written ok _ q h1.1 h1.2).1

/-- **C11_once.** At most one `WriteState` per store, for every program and **every**
fault / store configuration (missing stores, failing stores). -/
theorem C11_once (c : Cfg) (p : List HOp) (s : Store) :
    ((run c p).out.filter (Out.isCallOf s)).length ≤ 1 := by
  obtain ⟨calls, rest, ho, _, hr, hn⟩ := (Shape.init.runFrom c {} p).split
  unfold run
  rw [ho, List.filter_append]
  have : rest.filter (Out.isCallOf s) = [] := by
    apply List.filter_eq_nil_iff.mpr
    intro o ho; simp [isCallOf_of_not_isCall o s (hr o ho)]
  simpa [this] using hn s

/-- **C11_before_bytes.** In every configuration (including failing stores) every store
call precedes every header/body byte: the output is "calls, then non-calls". -/
theorem C11_before_bytes (c : Cfg) (p : List HOp) :
    (run c p).out = (run c p).out.filter Out.isCall ++ (run c p).out.filter (fun o => !o.isCall) := by
  obtain ⟨calls, rest, ho, hc, hr, _⟩ := (Shape.init.runFrom c {} p).split
  unfold run
  rw [ho, List.filter_append, List.filter_append]
  have e1 : calls.filter Out.isCall = calls := List.filter_eq_self.mpr hc
  have e2 : rest.filter Out.isCall = [] := List.filter_eq_nil_iff.mpr (by intro o ho; simp [hr o ho])
  have e3 : calls.filter (fun o => !o.isCall) = [] :=
    List.filter_eq_nil_iff.mpr (by intro o ho; simp [hc o ho])
  have e4 : rest.filter (fun o => !o.isCall) = rest :=
    List.filter_eq_self.mpr (by intro o ho; simp [hr o ho])
  simp [e1, e2, e3, e4]

/-- **C11_nothing_before_flush.** In every configuration, a handler that never writes
delivers nothing (neither a store call nor a byte). -/
theorem C11_silent_if_no_write (c : Cfg) (p : List HOp) (h : (run c p).hasWritten = false) :
    (run c p).out = [] :=
  (Shape.init.runFrom c {} p).fresh h

/-- **C11_separation.** A session operation never shows up in the cookie call and vice
versa: the call for store `s` carries exactly `evsOf s`, which by definition only
contains operations addressed to `s`. Stated as: every event delivered to `s` was made
by an operation on `s`. -/
theorem C11_separation (p : List HOp) (s : Store) (evs : List Ev)
    (h : Out.call s evs ∈ (run ok p).out) :
    evs = evsOf s (pre p) ∧ ∀ e ∈ evs, ∃ op ∈ pre p, op.ev? = some (s, e) := by
  rw [C11_characterisation] at h
  split at h
  · simp at h
  · have hw : Out.call s evs ∉ writesOf (post p) := by
      intro hm
      simp only [writesOf, List.mem_filterMap] at hm
      obtain ⟨op, _, hop⟩ := hm
      cases op <;> simp at hop
    have hf : Out.call s evs ∈ flushCalls (evsOf .session (pre p)) (evsOf .cookie (pre p)) := by
      rcases List.mem_append.mp h with h | h
      · exact h
      · exact absurd h hw
    have heq : evs = evsOf s (pre p) := by
      simp only [flushCalls, List.mem_append] at hf
      rcases hf with hf | hf
      · split at hf
        · simp at hf
        · simp at hf; obtain ⟨rfl, rfl⟩ := hf; rfl
      · split at hf
        · simp at hf
        · simp at hf; obtain ⟨rfl, rfl⟩ := hf; rfl
    refine ⟨heq, ?_⟩
    intro e he
    rw [heq] at he
    simp only [evsOf, List.mem_filterMap] at he
    obtain ⟨op, hop, hm⟩ := he
    refine ⟨op, hop, ?_⟩
    split at hm
    · rename_i s' e' heq'
      split at hm
      · simp at hm; subst hm; rename_i hs; subst hs; exact heq'
      · simp at hm
    · simp at hm

/-- **C11_delivered.** Conversely: if the program writes at all and made at least one
change to store `s` before its first write, that store receives its call (exactly the
pending list), with working stores. -/
theorem C11_delivered (p : List HOp) (s : Store)
    (hw : (post p).isEmpty = false) (hne : (evsOf s (pre p)).isEmpty = false) :
    Out.call s (evsOf s (pre p)) ∈ (run ok p).out := by
  rw [C11_characterisation]
  simp only [hw]
  cases s <;> simp_all [flushCalls]

/-- **C11_read_snapshot.** What handlers read is the state loaded at request start:
`GetSession`/`GetCookie` consult the request context, which no writer operation
touches. In the model reads are a function of the loaded jar alone, so this holds by
construction; it is the correspondence stream that checks the real code agrees. -/
theorem C11_read_snapshot (loaded : Bytes → Option Bytes) (c : Cfg) (p : List HOp) (k : Bytes) :
    (fun (_ : W) => loaded k) (run c p) = loaded k := rfl

/-! ## Non-vacuity: a concrete non-trivial program meets the hypotheses and the
characterisation computes what one expects. -/

def demo : List HOp :=
  [.put .session (lit "uid") (lit "a"), .put .cookie (lit "rm") (lit "t"), .del .session (lit "halfauth"),
   .writeHeader 302, .put .session (lit "late") (lit "x"), .write (lit "body"), .writeHeader 500]

example : (post demo).isEmpty = false ∧ (evsOf .session (pre demo)).isEmpty = false := by decide

example : (run ok demo).out =
    [ .call .session [⟨.put, lit "uid", lit "a"⟩, ⟨.del, lit "halfauth", []⟩],
      .call .cookie [⟨.put, lit "rm", lit "t"⟩],
      .header 302, .body (lit "body"), .header 500 ] := by decide

/-- With a failing session store and a `WriteHeader` first, the handler dies (panic)
and no byte is released — the fault side of the model is exercised too. -/
example : (run { sessFail := true } demo).out =
    [ .call .session [⟨.put, lit "uid", lit "a"⟩, ⟨.del, lit "halfauth", []⟩], .panic ] := by decide

end AuthbossModel.CS
