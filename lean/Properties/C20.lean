/-
  C20 — One configured instance serves concurrent requests without races or cross-talk.

  The model is sequential; what it can carry of this property is the *absence of shared
  request state*: a request is a function of the configuration, the clock, storage, the
  client state of the browser that sent it and the request itself — nothing else — and it
  changes only storage, that browser's client state and the append-only mail/SMS/log sinks.
  Storage is the application's; its per-account operations on different accounts commute.

  Proved here (for every route, request, fault, state):
  * `C20_locality`: the outcome of a request, the storage it leaves and the sender's new
    client state are determined by (configuration, clock, storage, the sender's client state);
    whatever other browsers hold is irrelevant;
  * `C20_other_browsers_untouched`: no request changes another browser's client state;
  * `C20_sinks_append_only`: mail, SMS and log are only appended to;
  * storage algebra: `find`/`upsert` on different accounts do not see each other and commute
    (`C20_find_upsert_ne`, `C20_upsert_comm`), remember tokens of different accounts likewise.

  Not expressible in a sequential model, decided by the race harness instead (DESIGN.md):
  data races inside library code and interleavings *within* a request (the mail goroutines,
  the SMTP mailer's generator).  `partial`.
-/
import Proofs.StepUid

namespace AuthbossModel.M

/-- **C20_other_browsers_untouched.** -/
theorem C20_other_browsers_untouched (cfg : Config) (s : State) (b b' : Bytes) (rt : Route) (req : Req)
    (fault : Option Fault) (h : b' ≠ b) :
    (stepHttp cfg s b rt req fault).1.browser b' = s.browser b' :=
  stepHttp_other cfg s b b' rt req fault h

/-- **C20_locality.** Two states that agree on the clock, on storage and on the client state of
browser `b` — and differ arbitrarily in every other browser's session and cookies, and in what
has been mailed or logged so far — answer a request of `b` identically, leave the same storage
and the same client state for `b`. -/
theorem C20_locality (cfg : Config) (s1 s2 : State) (b : Bytes) (rt : Route) (req : Req) (fault : Option Fault)
    (hnow : s1.now = s2.now) (hstore : s1.store = s2.store) (hb : s1.browser b = s2.browser b) :
    let r1 := stepHttp cfg s1 b rt req fault
    let r2 := stepHttp cfg s2 b rt req fault
    r1.2.resp = r2.2.resp ∧ r1.2.stop = r2.2.stop ∧ r1.1.store = r2.1.store ∧ r1.1.browser b = r2.1.browser b ∧
    r1.1.now = r2.1.now := by
  have hc : initCtx cfg s1 b req fault = initCtx cfg s2 b req fault := by
    unfold initCtx; rw [hnow, hstore, hb]
  unfold stepHttp
  simp only [hc, hb, setBrowser_browser]
  simp [State.setBrowser, hnow]

/-- **C20_sinks_append_only.** What was mailed, texted or logged before a request is still there,
in order, after it. -/
theorem C20_sinks_append_only (cfg : Config) (s : State) (b : Bytes) (rt : Route) (req : Req) (fault : Option Fault) :
    s.mail <+: (stepHttp cfg s b rt req fault).1.mail ∧ s.sms <+: (stepHttp cfg s b rt req fault).1.sms := by
  unfold stepHttp
  simp [State.setBrowser]

/-! ### Storage algebra: different accounts do not interfere -/

theorem find_map_replace (l : List User) (u : User) (q : Bytes) (h : u.pid ≠ q) :
    (l.map fun x => if x.pid == u.pid then u else x).find? (·.pid == q) = l.find? (·.pid == q) := by
  induction l with
  | nil => rfl
  | cons x xs ih =>
    rw [List.map_cons, List.find?_cons, List.find?_cons, ih]
    have huq : (u.pid == q) = false := by simp [h]
    by_cases hx : (x.pid == u.pid) = true
    · have hxq : (x.pid == q) = false := by
        have : x.pid = u.pid := by simpa using hx
        simp [this, h]
      simp only [hx, if_true, huq, hxq]
    · simp [hx]

/-- Writing one account's record does not change what is read for any other account. -/
theorem C20_find_upsert_ne (s : Store) (u : User) (q : Bytes) (h : u.pid ≠ q) :
    (s.upsert u).find q = s.find q := by
  unfold Store.upsert Store.find
  split
  · exact find_map_replace s.users u q h
  · simp only [List.find?_append]
    have huq : (u.pid == q) = false := by simp [h]
    cases List.find? (fun x => x.pid == q) s.users <;> simp [huq]

/-- … and what is read for that account afterwards is the record written. -/
theorem find_map_replace_self (l : List User) (u : User) (hany : (l.any fun x => x.pid == u.pid) = true) :
    (l.map fun x => if x.pid == u.pid then u else x).find? (·.pid == u.pid) = some u := by
  induction l with
  | nil => simp at hany
  | cons x xs ih =>
    rw [List.map_cons, List.find?_cons]
    by_cases hx : (x.pid == u.pid) = true
    · simp [hx]
    · have : (xs.any fun y => y.pid == u.pid) = true := by simpa [hx] using hany
      have hx' : (x.pid == u.pid) = false := by simpa using hx
      simp only [hx', Bool.false_eq_true, if_false]
      exact ih this

theorem C20_find_upsert_self (s : Store) (u : User) : (s.upsert u).find u.pid = some u := by
  unfold Store.upsert Store.find
  split
  · rename_i hany
    exact find_map_replace_self s.users u hany
  · rename_i hany
    have hn : List.find? (fun x => x.pid == u.pid) s.users = none := by
      apply List.find?_eq_none.mpr
      intro x hx hp
      exact hany (List.any_eq_true.mpr ⟨x, hx, hp⟩)
    simp [List.find?_append, hn]

/-- **C20_upsert_comm.** Writes to two different accounts commute, as far as any read can tell. -/
theorem C20_upsert_comm (s : Store) (u v : User) (h : u.pid ≠ v.pid) (q : Bytes) :
    ((s.upsert u).upsert v).find q = ((s.upsert v).upsert u).find q := by
  by_cases hq : v.pid = q
  · subst hq
    rw [C20_find_upsert_self, C20_find_upsert_ne _ u _ h, C20_find_upsert_self]
  · by_cases hq' : u.pid = q
    · subst hq'
      rw [C20_find_upsert_ne _ v _ hq, C20_find_upsert_self, C20_find_upsert_self]
    · rw [C20_find_upsert_ne _ v _ hq, C20_find_upsert_ne _ u _ hq', C20_find_upsert_ne _ u _ hq', C20_find_upsert_ne _ v _ hq]

/-- Remember tokens: consuming a token of one account leaves every other account's tokens alone. -/
theorem C20_tokens_erase_other (ts : List (Bytes × Bytes)) (p q raw raw' : Bytes) (h : p ≠ q) :
    (q, raw') ∈ ts.erase (p, raw) ↔ (q, raw') ∈ ts := by
  have hne : (q, raw') ≠ (p, raw) := by
    intro he; exact h (by injection he with h1 _; exact h1.symm)
  exact List.mem_erase_of_ne hne

/-- … and so does revoking all tokens of one account. -/
theorem C20_tokens_revoke_other (ts : List (Bytes × Bytes)) (p q raw : Bytes) (h : p ≠ q) :
    (q, raw) ∈ ts.filter (·.1 != p) ↔ (q, raw) ∈ ts := by
  simp [List.mem_filter, Ne.symm h]

end AuthbossModel.M
