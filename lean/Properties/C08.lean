/-
  C08 — The access middleware admits a request exactly when its requirements are met.
  `accessMW` transcribes `MountedMiddleware2` (authboss.go), `Url`/`PathClean` the stdlib
  functions it uses to build the login redirect.
-/
import Proofs.Dispatch
import Proofs.Veto

namespace AuthbossModel.Url

theorem hex_rt_nat : ∀ n : Fin 256,
    let b : UInt8 := UInt8.ofNat n.val
    unhex (hexUp (b / 16)) = some (b / 16) ∧ unhex (hexUp (b % 16)) = some (b % 16) ∧ (b / 16) * 16 + b % 16 = b := by
  decide +kernel

theorem hex_rt (b : UInt8) :
    unhex (hexUp (b / 16)) = some (b / 16) ∧ unhex (hexUp (b % 16)) = some (b % 16) ∧ (b / 16) * 16 + b % 16 = b := by
  have := hex_rt_nat ⟨b.toNat, b.toNat_lt⟩
  simpa using this

theorem unreserved_ne_nat : ∀ n : Fin 256,
    let b : UInt8 := UInt8.ofNat n.val
    unreserved b = true → b ≠ 37 ∧ b ≠ 43 := by decide +kernel

theorem unreserved_ne (b : UInt8) (h : unreserved b = true) : b ≠ 37 ∧ b ≠ 43 := by
  have := unreserved_ne_nat ⟨b.toNat, b.toNat_lt⟩
  simp only [UInt8.ofNat_toNat] at this
  exact this h

theorem unescape_byte (b : UInt8) (rest : Bytes) :
    queryUnescape (escapeByte b ++ rest) = (queryUnescape rest).map (b :: ·) := by
  unfold escapeByte
  by_cases hu : unreserved b = true
  · obtain ⟨h1, h2⟩ := unreserved_ne b hu
    simp only [hu, if_true, List.singleton_append]
    rw [queryUnescape]
    · intro a b' r he _; exact h1 he
    · intro he; exact h1 he
    · intro he; exact h2 he
  · simp only [hu]
    by_cases hs : (b == 32) = true
    · have : b = 32 := by simpa using hs
      subst this
      simp [queryUnescape]
    · simp only [hs]
      obtain ⟨ha, hb, hc⟩ := hex_rt b
      simp only [Bool.false_eq_true, if_false, List.cons_append, List.nil_append]
      rw [queryUnescape, ha, hb]
      cases queryUnescape rest <;> simp [hc]

/-- **C08_escape_roundtrip.** `url.QueryUnescape (url.QueryEscape x) = x` for every byte string:
the original path and query survive the trip through the `redir` parameter. -/
theorem C08_escape_roundtrip (x : Bytes) : queryUnescape (queryEscape x) = some x := by
  induction x with
  | nil => rfl
  | cons b rest ih =>
    have : queryEscape (b :: rest) = escapeByte b ++ queryEscape rest := by simp [queryEscape]
    rw [this, unescape_byte, ih]; rfl

end AuthbossModel.Url

namespace AuthbossModel.M
attribute [local irreducible] Frame Lic

/-- The requirement part of the middleware's decision (`hasBit` on the bit set, so every
`MWRequirements` value is covered, not just the named ones). -/
def reqsFail (reqs : Nat) (c : Ctx) : Bool :=
  (hasBit reqs 1 && (c.sess.get .halfauth).isSome) || (hasBit reqs 2 && (c.sess.get .twofactor).isNone)
def reqsMet (reqs : Nat) (c : Ctx) : Bool := !reqsFail reqs c

theorem reqsMet_true {reqs c} (h : reqsMet reqs c = true) : reqsFail reqs c = false := by
  unfold reqsMet at h; cases hf : reqsFail reqs c <;> simp_all
theorem reqsMet_false {reqs c} (h : reqsMet reqs c = false) : reqsFail reqs c = true := by
  unfold reqsMet at h; cases hf : reqsFail reqs c <;> simp_all

/-- **C08_only_if.** The wrapped handler (represented by an observable marker action) runs only
if every configured requirement holds and storage could load the session's user. -/
theorem C08_only_if (mp : Bool) (reqs fl : Nat) (path rq m : Bytes) (c : Ctx) :
    Safe (fun _ => reqsMet reqs c = true ∧ ∃ u c1, loadCurrentUser c = (.ok (.found u), c1))
      (accessMW mp reqs fl path rq (putS .uid m)) c := by
  unfold accessMW
  apply Safe.bind (Frame.safe Frame.get _ _); intro c1 c2 hg
  obtain ⟨rfl, rfl⟩ := get_ok hg
  dsimp only
  have hrefuse : ∀ c', Safe (fun _ => reqsMet reqs c = true ∧ ∃ u c1, loadCurrentUser c = (.ok (.found u), c1))
      (match fl with
        | 0 => do logf "not found for unauthorized user at: %s" [path]; status 404
        | 2 => do logf "unauthorized for unauthorized user at: %s" [path]; status 401
        | 1 => do
          logf "redirecting unauthorized user to login from: %s" [path]
          swallowErr (redirect (loginRedirect mp path rq) none (some .authFailed))
        | _ => pure ⟨⟩) c' := by
    intro c'
    split
    · exact Frame.safe (Frame.bind (Frame.logf _ _) (fun _ => Frame.status _)) _ _
    · exact Frame.safe (Frame.bind (Frame.logf _ _) (fun _ => Frame.status _)) _ _
    · exact Frame.safe (Frame.bind (Frame.logf _ _) (fun _ => Frame.swallowErr (Frame.redirect _ _ _ _))) _ _
    · exact Frame.safe (Frame.pure _) _ _
  apply Safe.ite
  · intro _; exact hrefuse c
  · intro hreq
    apply Safe.bind (Frame.safe Frame.loadCurrentUser _ _)
    intro r c1 hr
    split
    · exact hrefuse c1
    · exact Frame.safe (Frame.bind (Frame.logf _ _) (fun _ => Frame.status _)) _ _
    · rename_i u
      apply Safe.putUid
      refine ⟨?_, u, c1, hr⟩
      have hf : reqsFail reqs c = false := by
        unfold reqsFail
        cases hx : ((hasBit reqs 1 && (c.sess.get .halfauth).isSome) || (hasBit reqs 2 && (c.sess.get .twofactor).isNone))
        · rfl
        · exact absurd hx hreq
      unfold reqsMet; rw [hf]; rfl

/-- **C08_if.** Conversely, when the requirements hold and the user loads, the middleware *is*
the wrapped handler run in the context that has the user and its id loaded. -/
theorem C08_if (mp : Bool) (reqs fl : Nat) (path rq : Bytes) (next : H PUnit) (c c1 : Ctx) (u : User)
    (hreq : reqsMet reqs c = true) (hl : loadCurrentUser c = (.ok (.found u), c1)) :
    accessMW mp reqs fl path rq next c = next c1 := by
  unfold accessMW
  simp only [bind_apply, M.get]
  have : ((hasBit reqs 1 && (c.sess.get .halfauth).isSome) || (hasBit reqs 2 && (c.sess.get .twofactor).isNone)) = false :=
    reqsMet_true hreq
  simp only [this, Bool.false_eq_true, if_false]
  rw [bind_apply, hl]

/-- **C08_refusal.** When a requirement fails the handler does not run and the answer is the
configured refusal: 404 / 401 / a redirect to the login page carrying the original target. -/
theorem C08_refusal_status (mp : Bool) (reqs : Nat) (path rq : Bytes) (next : H PUnit) (c : Ctx)
    (hreq : reqsMet reqs c = false) :
    (accessMW mp reqs 0 path rq next c).2.acts = c.acts ++ [.respond (.status 404)] ∧
    (accessMW mp reqs 2 path rq next c).2.acts = c.acts ++ [.respond (.status 401)] := by
  have : ((hasBit reqs 1 && (c.sess.get .halfauth).isSome) || (hasBit reqs 2 && (c.sess.get .twofactor).isNone)) = true :=
    reqsMet_false hreq
  unfold accessMW
  simp only [bind_apply, M.get, this, if_true]
  constructor <;> simp [M.logf, M.modify, M.status, M.act, bind_apply]

/-- The redirect target of the refusal: `Mount/login?redir=` + the escaped original path (with
the mount prefix for library routes) and query; by `C08_escape_roundtrip` the login page gets
the original back. -/
theorem C08_redirect_target (mp : Bool) (path rq : Bytes) :
    ∃ target, loginRedirect mp path rq = PathClean.join2 mount (lit "/login?redir=" ++ Url.queryEscape target) ∧
      Url.queryUnescape (Url.queryEscape target) = some target ∧
      target = (if mp && !mount.isEmpty then PathClean.join2 mount path else path) ++ (if rq.isEmpty then [] else [63] ++ rq) := by
  refine ⟨_, ?_, Url.C08_escape_roundtrip _, rfl⟩
  unfold loginRedirect
  by_cases h : rq.isEmpty = true <;> simp [h]

/-- A storage error while loading the user yields a 500 and the handler does not run. -/
theorem C08_storage_error (mp : Bool) (reqs fl : Nat) (path rq : Bytes) (next : H PUnit) (c c1 : Ctx)
    (hreq : reqsMet reqs c = true) (hl : loadCurrentUser c = (.ok .error, c1)) :
    (accessMW mp reqs fl path rq next c).2.acts = c1.acts ++ [.respond (.status 500)] := by
  unfold accessMW
  simp only [bind_apply, M.get]
  have : ((hasBit reqs 1 && (c.sess.get .halfauth).isSome) || (hasBit reqs 2 && (c.sess.get .twofactor).isNone)) = false :=
    reqsMet_true hreq
  simp only [this, Bool.false_eq_true, if_false]
  rw [bind_apply, hl]
  simp [M.logf, M.modify, M.status, M.act, bind_apply]

/-! ### Non-vacuity -/
example : (Url.queryEscape (lit "/a b?x=1&y=%/é")).length > 0 ∧
    Url.queryUnescape (Url.queryEscape (lit "/p/1 a?x=1&y=%~")) = some (lit "/p/1 a?x=1&y=%~") := by decide

example : loginRedirect true (lit "/otp/add") (lit "a=1&b=%20c") =
    lit "/auth/login?redir=%2Fauth%2Fotp%2Fadd%3Fa%3D1%26b%3D%2520c" := by decide

end AuthbossModel.M
