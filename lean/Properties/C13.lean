/-
  C13 — Only the fully authenticated owner, proving the factor, can change 2FA settings.
-/
import Proofs.Dispatch
import Proofs.Veto
import Properties.C08

namespace AuthbossModel.M
attribute [local irreducible] Frame Lic

/-- **C13_routes_gated.** Every route that enables, disables or re-keys a second factor, and
the e-mail authorisation routes, is the handler wrapped in the access middleware with
`RequireFullAuth` (and, for setup/confirm, in the e-mail-verification wrapper). -/
theorem C13_routes_gated :
    (∀ c, dispatch .totpConfirm c = (do
        let c' ← get
        if !(c'.cfg.has .totp) then status 404 else verified false (lit "/2fa/totp/confirm") totpPostConfirm) c) ∧
    (∀ c, dispatch .totpRemove c = (do
        let c' ← get
        if !(c'.cfg.has .totp) then status 404 else moduleMW 1 (lit "/2fa/totp/remove") totpPostRemove) c) ∧
    (∀ c, dispatch .smsConfirm c = (do
        let c' ← get
        if !(c'.cfg.has .sms) then status 404 else verified true (lit "/2fa/sms/confirm") (smsPost .confirm)) c) ∧
    (∀ c, dispatch .smsRemove c = (do
        let c' ← get
        if !(c'.cfg.has .sms) then status 404 else moduleMW 1 (lit "/2fa/sms/remove") (smsPost .remove)) c) ∧
    (∀ c, dispatch .recoveryRegen c = (do
        let c' ← get
        if !(c'.cfg.has .recovery) then status 404 else moduleMW 1 (lit "/2fa/recovery/regen") recoveryPostRegen) c) := by
  refine ⟨?_, ?_, ?_, ?_, ?_⟩ <;> intro c <;> rfl

/-- `RequireFullAuth`: with the half-auth mark in the session the wrapped handler does not run
(`C08_only_if` instantiated at requirement bit 1). -/
theorem C13_halfauth_refused (path rq m : Bytes) (c : Ctx) (h : (c.sess.get .halfauth).isSome = true) :
    Safe (fun _ => False) (accessMW true 1 0 path rq (putS .uid m)) c := by
  apply Safe.mono (C08_only_if true 1 0 path rq m c)
  intro U ⟨hr, _⟩
  unfold reqsMet reqsFail at hr
  simp [hasBit, h] at hr

/-- A session without identity (e.g. one that only passed the password step and holds a
pending key) is refused as well: the middleware needs a loadable current user. -/
theorem C13_pending_refused (path rq m : Bytes) (c : Ctx) (h1 : c.ctxUser = none) (h2 : c.ctxPid = none)
    (h3 : c.sess.get .uid = none) :
    Safe (fun _ => False) (accessMW true 1 0 path rq (putS .uid m)) c := by
  apply Safe.mono (C08_only_if true 1 0 path rq m c)
  intro U ⟨_, u, c1, hl⟩
  unfold loadCurrentUser at hl
  simp only [bind_apply, M.get, h1] at hl
  unfold M.currentUserID at hl
  simp [bind_apply, M.get, h2, h3, pure_apply] at hl

/-- **C13_email_gate.** With e-mail authorisation required, the wrapper lets the handler run
only if the session carries the mark … -/
theorem C13_email_wrap (kind : Bytes) (c : Ctx) (hreq : c.cfg.emailAuth = true)
    (hno : c.sess.get .tfaAuthed ≠ some (lit "true")) :
    ∃ c', emailVerifyWrap kind c = (.ok false, c') ∨ ∃ s, emailVerifyWrap kind c = (.stop s, c') := by
  unfold emailVerifyWrap
  simp only [bind_apply, M.get, hreq, Bool.not_true, Bool.false_eq_true, if_false]
  have : (c.sess.get .tfaAuthed == some (lit "true")) = false := by
    cases h : (c.sess.get .tfaAuthed == some (lit "true"))
    · rfl
    · exact absurd (by simpa using h) hno
  simp only [this, Bool.false_eq_true, if_false]
  rw [bind_apply]
  unfold M.swallowErr
  generalize M.redirect _ _ _ _ c = r
  obtain ⟨res, c'⟩ := r
  cases res with
  | ok a => exact ⟨c', Or.inl rfl⟩
  | stop s => cases s <;> first | exact ⟨c', Or.inl rfl⟩ | exact ⟨c', Or.inr ⟨_, rfl⟩⟩

theorem redirect_no_authed (r : Bytes) (ok f : Option Txt) (fl : Bool) (c : Ctx)
    (hm : Act.sess (.put .tfaAuthed (lit "true")) ∈ (M.redirect r ok f fl c).2.acts) :
    Act.sess (.put .tfaAuthed (lit "true")) ∈ c.acts := by
  obtain ⟨ext, he, hx⟩ := redirect_acts r ok f fl c
  rw [he] at hm
  rcases List.mem_append.mp hm with h | h
  · exact h
  · rcases hx _ h with ⟨v, hv⟩ | ⟨v, hv⟩ | ⟨r', hv⟩ <;> cases hv

/-- … and the mark is set only by `End`, only when the session holds a non-empty token and the
submitted token equals it (after the `fix:`; before it the empty/empty case passed). -/
theorem C13_email_end (p : Bytes) (c : Ctx)
    (h : Act.sess (.put .tfaAuthed (lit "true")) ∈ (emailVerifyEnd p c).2.acts)
    (hnot : Act.sess (.put .tfaAuthed (lit "true")) ∉ c.acts) :
    ∃ tok, c.sess.get .tfaToken = some tok ∧ tok ≠ [] ∧ c.req.tokenRaw = tok := by
  unfold emailVerifyEnd at h
  simp only [bind_apply, M.get] at h
  cases hs : c.sess.get .tfaToken with
  | none =>
    exfalso
    simp only [hs, Option.getD_none, List.isEmpty_nil, Bool.true_or, if_true] at h
    exact hnot (redirect_no_authed _ _ _ _ _ h)
  | some tok =>
    refine ⟨tok, rfl, ?_⟩
    by_cases hbad : (tok.isEmpty || c.req.tokenRaw != tok) = true
    · exfalso
      simp only [hs, Option.getD_some, hbad, if_true] at h
      exact hnot (redirect_no_authed _ _ _ _ _ h)
    · simp only [Bool.or_eq_true, not_or] at hbad
      constructor
      · intro he; apply hbad.1; simp [he]
      · have := hbad.2; simpa using this

/-- **C13_confirm_needs_code.** TOTP enrolment stores a secret only if the session holds one,
the submitted code is valid *for that secret*, and what is stored *is* that secret. -/
theorem C13_totp_confirm (c : Ctx) (u : User) (hu : c.ctxUser = some u)
    (hchg : (totpPostConfirm c).2.store ≠ c.store) :
    ∃ secret, c.sess.get .totpSecret = some secret ∧ secret ∈ c.req.totpOk := by
  unfold totpPostConfirm at hchg
  simp only [bind_apply, currentUser_ctx hu, M.get] at hchg
  cases hs : c.sess.get .totpSecret with
  | none => simp [hs, M.fail, M.stop] at hchg
  | some secret =>
    refine ⟨secret, rfl, ?_⟩
    by_cases hin : secret ∈ c.req.totpOk
    · exact hin
    · exfalso
      apply hchg
      simp only [hs, List.contains_eq_mem, hin, decide_false, Bool.not_false, if_true]
      unfold M.respond M.render
      simp only [bind_apply, backend_eq]
      cases oracle c <;> simp [pure_apply, M.fail, M.stop, M.act, M.modify, tick]


/-! ### Disabling a factor -/

theorem no_tfa_handlers (us : List Unit) (e : Ev) (he : e = .tfaRemoved ∨ e = .tfaAdded) :
    us.flatMap (·.before e) = [] ∧ us.flatMap (·.after e) = [] := by
  induction us with
  | nil => exact ⟨rfl, rfl⟩
  | cons u us ih =>
    simp only [List.flatMap_cons, ih.1, ih.2, List.append_nil]
    rcases he with rfl | rfl <;> cases u <;> exact ⟨rfl, rfl⟩

@[simp] theorem after_tfaRemoved (us : List Unit) : us.flatMap (fun x => x.after Ev.tfaRemoved) = [] :=
  (no_tfa_handlers us _ (Or.inl rfl)).2

theorem respond_store (p t) (c : Ctx) : (M.respond p t c).2.store = c.store := by
  unfold M.respond M.render
  simp only [bind_apply, backend_eq]
  cases oracle c <;> simp [pure_apply, M.fail, M.stop, M.act, M.modify, tick]

/-- Saving a record, announcing it, answering: storage ends up unchanged (the save failed) or
with exactly that record written. -/
theorem save_then_answer_store (u' : User) (pg : Page) (msg : String) (ev : Ev) (hev : ev = .tfaRemoved) (c2 : Ctx) :
    let r := (do
      if ← M.save u' then M.fail "save" else
      M.logf msg [u'.pid]
      M.setCtxUser u'
      if ← M.fireAfter ev then M.stop .done else
      M.respond pg : H PUnit) c2
    r.2.store = c2.store ∨ r.2.store = c2.store.upsert u' := by
  subst hev
  simp only
  unfold M.save
  simp only [bind_apply, backend_eq]
  cases oracle c2 with
  | some k => left; simp [pure_apply, M.fail, M.stop, tick]
  | none =>
    right
    simp only [bind_apply, M.modify, pure_apply, Bool.false_eq_true, if_false, M.logf, M.setCtxUser, fireAfter, M.get,
      after_tfaRemoved, callHandlers]
    rw [respond_store]
    simp [tick]

/-- **C13_totp_remove.** Disabling TOTP: relative to what `totpValidate` left in storage, the
removal handler changes storage only when `totpValidate` reported success (a current code for
the user's secret, or one of the user's recovery codes — `C02_totp_success_means`), and then
only by writing that user's record with the secret cleared. -/
theorem C13_totp_remove (c : Ctx) :
    (∀ u c1, totpValidate c = (.ok (some (u, .success)), c1) →
        (totpPostRemove c).2.store = c1.store ∨
        (totpPostRemove c).2.store = c1.store.upsert { u with totpSecret := [] }) ∧
    (∀ r c1, totpValidate c = (r, c1) → (∀ u, r ≠ .ok (some (u, .success))) →
        (totpPostRemove c).2.store = c1.store) := by
  constructor
  · intro u c1 hv
    unfold totpPostRemove
    rw [bind_apply, hv]
    simp only [bne_self_eq_false, Bool.false_eq_true, if_false, bind_apply, M.delS, M.act, M.modify, M.writeBack]
    cases hcu : c1.ctxUser with
    | none =>
      simp only
      exact save_then_answer_store { u with totpSecret := [] } _ _ .tfaRemoved rfl _
    | some w =>
      simp only
      exact save_then_answer_store { u with totpSecret := [] } _ _ .tfaRemoved rfl _
  · intro r c1 hv hns
    unfold totpPostRemove
    rw [bind_apply, hv]
    cases r with
    | stop s => rfl
    | ok o =>
      cases o with
      | none => simp only; exact respond_store _ _ _
      | some p =>
        obtain ⟨u, st⟩ := p
        cases st with
        | success => exact absurd rfl (hns u)
        | invalid => simp [bind_apply, M.logf, M.modify, respond_store]
        | repeated => simp [bind_apply, M.logf, M.modify, respond_store]

end AuthbossModel.M
