/-
  C19 — Registration creates exactly one account, never overwrites, enforces the policy.
-/
import AuthbossModel.Policy
import Proofs.Dispatch
import Proofs.Veto

namespace AuthbossModel.Policy

theorem tally_nonneg (cls : List CharClass) :
    0 ≤ (tally cls).upper ∧ 0 ≤ (tally cls).lower ∧ 0 ≤ (tally cls).numeric ∧ 0 ≤ (tally cls).symbols ∧ 0 ≤ (tally cls).ws := by
  induction cls with
  | nil => simp [tally]
  | cons c rest ih =>
    obtain ⟨a, b, d, e, f⟩ := ih
    cases c <;> simp [tally] <;> omega

/-- Counts are what they say: the tally is the number of runes of each class. -/
theorem tally_counts (cls : List CharClass) :
    (tally cls).upper = cls.count .upper ∧ (tally cls).lower = cls.count .lower ∧
    (tally cls).numeric = cls.count .digit ∧ (tally cls).symbols = cls.count .symbol ∧
    (tally cls).ws = cls.count .space := by
  induction cls with
  | nil => simp [tally]
  | cons c rest ih =>
    obtain ⟨a, b, d, e, f⟩ := ih
    cases c <;> simp [tally, List.count_cons, a, b, d, e, f]

/-- **C19_policy.** The shipped password/field policy accepts a value *exactly* when it meets
every configured setting — for all rule settings (including zero / negative minimums and a
zero "no maximum") and all strings (through their byte length and rune classes). -/
theorem C19_policy (r : Rule) (ln : Int) (blank matchOk : Bool) (cls : List CharClass) :
    isValid r ln blank matchOk cls = true ↔
      ¬ (r.required = true ∧ (ln = 0 ∨ blank = true)) ∧
      (r.hasMatch = true → matchOk = true) ∧
      ¬ (r.minLength > 0 ∧ ln < r.minLength) ∧ ¬ (r.maxLength > 0 ∧ ln > r.maxLength) ∧
      r.minLetters ≤ (tally cls).upper + (tally cls).lower ∧
      r.minUpper ≤ (tally cls).upper ∧ r.minLower ≤ (tally cls).lower ∧
      r.minNumeric ≤ (tally cls).numeric ∧ r.minSymbols ≤ (tally cls).symbols ∧
      (r.allowWs = true ∨ (tally cls).ws = 0) := by
  have hn := tally_nonneg cls
  unfold isValid errors
  by_cases hreq : (r.required && (ln == 0 || blank)) = true
  · simp only [hreq, if_true]
    simp only [List.isEmpty_cons, Bool.false_eq_true, false_iff]
    intro h
    apply h.1
    simpa using hreq
  · have hreq' : ¬ (r.required = true ∧ (ln = 0 ∨ blank = true)) := by simpa using hreq
    simp only [hreq, Bool.false_eq_true, if_false, List.isEmpty_iff, List.append_eq_nil_iff, ite_eq_right_iff,
      reduceCtorEq, imp_false, Bool.and_eq_true, Bool.or_eq_true, Bool.not_eq_true', decide_eq_true_eq]
    constructor
    · intro ⟨⟨⟨⟨⟨⟨⟨h1, h2⟩, h3⟩, h4⟩, h5⟩, h6⟩, h7⟩, h8⟩
      refine ⟨hreq', ?_, ?_, ?_, ?_, ?_, ?_, ?_, ?_, ?_⟩
      · intro hm
        cases hmo : matchOk
        · exact absurd ⟨hm, hmo⟩ h1
        · rfl
      · intro hc; exact h2 (Or.inl hc)
      · intro hc; exact h2 (Or.inr hc)
      · omega
      · omega
      · omega
      · omega
      · omega
      · cases haw : r.allowWs
        · right
          have : ¬ ((tally cls).ws > 0) := fun hp => h8 ⟨haw, hp⟩
          omega
        · exact Or.inl rfl
    · intro ⟨_, h1, h2a, h2b, h3, h4, h5, h6, h7, h8⟩
      refine ⟨⟨⟨⟨⟨⟨⟨?_, ?_⟩, ?_⟩, ?_⟩, ?_⟩, ?_⟩, ?_⟩, ?_⟩
      · intro ⟨hm, hmo⟩
        have := h1 hm
        rw [hmo] at this; cases this
      · rintro (hc | hc)
        · exact h2a hc
        · exact h2b hc
      · omega
      · omega
      · omega
      · omega
      · omega
      · intro ⟨haw, hp⟩
        rcases h8 with h | h
        · rw [haw] at h; cases h
        · omega

/-- Lengths are counted in bytes and the two length bounds are independent; a zero bound is
"no bound". -/
theorem C19_length (r : Rule) (ln : Int) :
    ¬ ((r.minLength > 0 ∧ ln < r.minLength) ∨ (r.maxLength > 0 ∧ ln > r.maxLength)) ↔
      (r.minLength ≤ 0 ∨ r.minLength ≤ ln) ∧ (r.maxLength ≤ 0 ∨ ln ≤ r.maxLength) := by
  constructor
  · intro h; constructor <;> omega
  · intro ⟨h1, h2⟩ hc; omega

/-- **C19_confirm.** The confirmation field is in error iff the main field is non-empty and
the confirmation is missing or different. -/
theorem C19_confirm (main confirm : Bytes) :
    confirmErr main confirm = true ↔ main ≠ [] ∧ (confirm = [] ∨ main ≠ confirm) := by
  unfold confirmErr
  by_cases h : main.isEmpty = true
  · have : main = [] := List.isEmpty_iff.mp h
    simp [this]
  · have hne : main ≠ [] := fun he => h (by simp [he])
    simp [h, hne, List.isEmpty_iff]

/-! ### Non-vacuity: the shipped default password rule on two passwords -/
def defaultPw : Rule := { minLength := 8, minNumeric := 1, minSymbols := 1, minUpper := 1, minLower := 1 }
example : isValid defaultPw 9 false true [.upper, .lower, .lower, .lower, .lower, .digit, .lower, .lower, .symbol] = true := by decide
example : errors defaultPw 5 false true [.lower, .lower, .lower, .lower, .space] = [.length, .upper, .numeric, .symbols, .whitespace] := by decide

end AuthbossModel.Policy

namespace AuthbossModel.M
attribute [local irreducible] Frame Lic

theorem respond_store (p t) (c : Ctx) : (M.respond p t c).2.store = c.store := by
  unfold M.respond M.render
  simp only [bind_apply, backend_eq]
  cases oracle c <;> simp [pure_apply, M.fail, M.stop, M.act, M.modify, tick]

/-- **C19_invalid_creates_nothing.** A registration that fails validation leaves storage
exactly as it was (and, by `C01`, logs nobody in). -/
theorem C19_invalid_creates_nothing (c : Ctx) (h : c.req.valid = false) :
    (registerPost c).2.store = c.store := by
  unfold registerPost
  simp only [bind_apply, M.get, h, Bool.not_false, if_true, M.logf, M.modify]
  exact respond_store _ _ _

/-- **C19_existing_untouched.** Registering an identifier that already exists changes nothing
about storage (no fault injected): the existing account keeps its password and fields. -/
theorem C19_existing_untouched (c : Ctx) (u : User) (hv : c.req.valid = true)
    (hex : c.store.find c.req.pid = some u) (h1 : oracle c = none) (h2 : oracle (tick c) = none) :
    (registerPost c).2.store = c.store := by
  unfold registerPost
  simp only [bind_apply, M.get, hv, Bool.not_true, Bool.false_eq_true, if_false]
  unfold M.hash
  simp only [bind_apply, backend_eq, h1, pure_apply, Bool.false_eq_true, if_false]
  unfold createUser
  simp only [bind_apply, backend_eq, h2, M.get]
  have hts : (tick (tick c)).store = c.store := rfl
  simp only [hts, hex, Option.isSome_some, if_true, pure_apply, M.logf, M.modify]
  rw [bind_apply]
  simp only [M.modify]
  rw [respond_store]
  rfl

/-- **C19_logged_in_iff.** The new user's identity is written only on the path on which the
account was created *and* no `After(EventRegister)` handler (the confirm unit) took the
request over — this is the path condition of `register_safe`; and with the confirm unit
loaded that hook always takes over: -/
theorem C19_confirm_takes_over : Unit.after .confirm .register = [confirmStartWeb] := rfl

/-- What is stored for a created account: the submitted password (as its hash) and only the
whitelisted extra fields. -/
theorem C19_whitelist_filter (extra : List (Bytes × Bytes)) :
    ∀ kv ∈ extra.filter (fun kv => registerWhitelist.contains kv.1), kv.1 ∈ registerWhitelist := by
  intro kv h
  have := (List.mem_filter.mp h).2
  simpa using this

end AuthbossModel.M
