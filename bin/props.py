"""
Per-property configuration of bin/check: which Tie units, which harness streams, sizes.

TIE_UNITS: name -> {"funcs": [fully qualified Go function names], "tables": [Generated table names]}
A unit is a set of facts regenerated from /repo; Tie/<Unit>.lean holds one theorem per fact
(`Generated.x = Expected.x := rfl`).  Expected.lean is pinned by bin/pin-expected.
"""

TIE_UNITS = {
    "ClientState": {
        "funcs": [
            "authboss.ClientStateResponseWriter.WriteHeader",
            "authboss.ClientStateResponseWriter.Write",
            "authboss.ClientStateResponseWriter.putClientState",
            "authboss.ClientStateResponseWriter.UnderlyingResponseWriter",
            "authboss.ClientStateResponseWriter.Unwrap",
            "authboss.MustClientStateResponseWriter",
            "authboss.setState", "authboss.putState", "authboss.delState", "authboss.delAllState",
            "authboss.getState",
            "authboss.PutSession", "authboss.DelSession", "authboss.GetSession",
            "authboss.PutCookie", "authboss.DelCookie", "authboss.GetCookie",
            "authboss.DelAllSession",
            "authboss.Authboss.NewResponse", "authboss.Authboss.LoadClientState",
        ],
        "tables": [],
    },
}

COMMON_TB = []

PROPS = {
    "C11": {
        "ties": ["ClientState"],
        "streams": {
            "quick": [{"name": "c11", "n": 20000}],
            "thorough": [{"name": "c11", "n": 200000, "seeds": 2}, {"name": "c11-long", "n": 20000, "seeds": 2}],
        },
        "level": "proof",
        "assumptions": [
            "response-writer wrappers only forward calls (checked on the real code by the stream, not modelled)",
            "handlers are sequential programs over the writer; concurrent use of one writer is out of scope",
        ],
        "trusted_base": ["net/http ResponseWriter contract of the underlying writer (recording stub in the harness)"],
    },
}
