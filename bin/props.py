"""
Per-property configuration of bin/check: which Tie units, which harness streams, sizes.

TIE_UNITS: name -> {"funcs": [fully qualified Go function names], "tables": [Generated table names]}
A unit is a set of facts regenerated from /repo; Tie/<Unit>.lean holds one theorem per fact
(`Generated.x = Expected.x := rfl`).  Expected.lean is pinned by bin/pin-expected.
"""

TIE_UNITS = {
    "ClientState": {
        "funcs": [
            "authboss.ClientStateResponseWriter.WriteHeader",
            "authboss.ClientStateResponseWriter.Write",
            "authboss.ClientStateResponseWriter.putClientState",
            "authboss.ClientStateResponseWriter.UnderlyingResponseWriter",
            "authboss.ClientStateResponseWriter.Unwrap",
            "authboss.MustClientStateResponseWriter",
            "authboss.setState", "authboss.putState", "authboss.delState", "authboss.delAllState",
            "authboss.getState",
            "authboss.PutSession", "authboss.DelSession", "authboss.GetSession",
            "authboss.PutCookie", "authboss.DelCookie", "authboss.GetCookie",
            "authboss.DelAllSession",
            "authboss.Authboss.NewResponse", "authboss.Authboss.LoadClientState",
        ],
        "tables": [],
    },
}


def _f(pkg, *names):
    return [pkg + "." + n for n in names]

TIE_UNITS.update({
    "Events": {"funcs": _f("authboss", "Events.Before", "Events.After", "Events.FireBefore", "Events.FireAfter", "Events.call", "NewEvents"), "tables": []},
    "Context": {"funcs": _f("authboss", "Authboss.CurrentUserID", "Authboss.CurrentUser", "Authboss.currentUser", "Authboss.LoadCurrentUserID", "Authboss.LoadCurrentUser", "Authboss.LoadCurrentUserP", "Authboss.CurrentUserP", "IsFullyAuthed", "IsTwoFactored", "DelKnownSession", "DelKnownCookie"), "tables": []},
    "Middleware": {"funcs": _f("authboss", "MountedMiddleware2", "Middleware2", "MountedMiddleware", "Middleware", "hasBit"), "tables": []},
    "Core": {"funcs": _f("authboss", "Authboss.UpdatePassword", "Authboss.VerifyPassword", "bcryptHasher.CompareHashAndPassword", "bcryptHasher.GenerateHash", "Sha512TokenGenerator.GenerateToken", "Sha512TokenGenerator.ParseToken", "Sha512TokenGenerator.TokenSize", "MakeOAuth2PID", "ParseOAuth2PID", "Authboss.Email"), "tables": ["consts_authboss", "stateCalls_authboss"]},
    "Lock": {"funcs": _f("lock", "Lock.Init", "Lock.BeforeAuth", "Lock.AfterAuthSuccess", "Lock.AfterAuthFail", "Lock.updateLockedState", "Lock.Lock", "Lock.Unlock", "Middleware", "IsLocked"), "tables": ["eventRegs_lock", "stateCalls_lock", "logCalls_lock"]},
    "Auth": {"funcs": _f("auth", "Auth.Init", "Auth.LoginPost"), "tables": ["eventRegs_auth", "stateCalls_auth", "logCalls_auth", "routes_auth"]},
    "Otp": {"funcs": _f("otp", "OTP.Init", "OTP.LoginPost", "OTP.AddPost", "OTP.ClearPost", "splitOTPs", "joinOTPs", "generateOTP"), "tables": ["consts_otp", "eventRegs_otp", "stateCalls_otp", "logCalls_otp", "routes_otp"]},
    "Confirm": {"funcs": _f("confirm", "Confirm.Init", "Confirm.PreventAuth", "Confirm.StartConfirmationWeb", "Confirm.StartConfirmation", "Confirm.SendConfirmEmail", "Confirm.Get", "Confirm.invalidToken", "Middleware"), "tables": ["eventRegs_confirm", "stateCalls_confirm", "logCalls_confirm", "routes_confirm"]},
    "Recover": {"funcs": _f("recover", "Recover.Init", "Recover.StartPost", "Recover.SendRecoverEmail", "Recover.EndPost", "Recover.invalidToken"), "tables": ["eventRegs_recover", "stateCalls_recover", "logCalls_recover", "routes_recover"]},
    "Register": {"funcs": _f("register", "Register.Init", "Register.Post", "hasString"), "tables": ["eventRegs_register", "stateCalls_register", "logCalls_register", "routes_register"]},
    "Logout": {"funcs": _f("logout", "Logout.Init", "Logout.Logout"), "tables": ["eventRegs_logout", "stateCalls_logout", "logCalls_logout", "routes_logout"]},
    "Remember": {"funcs": _f("remember", "Remember.Init", "Remember.RememberAfterAuth", "Middleware", "Authenticate", "Remember.AfterPasswordReset", "GenerateToken", "halfAuthState.Get"), "tables": ["consts_remember", "eventRegs_remember", "stateCalls_remember", "logCalls_remember"]},
    "Expire": {"funcs": _f("expire", "Setup", "timeToExpiry", "refreshExpiry", "Middleware", "expireMiddleware.ServeHTTP", "stateHider.Get"), "tables": ["eventRegs_expire", "stateCalls_expire", "pkgVars_expire"]},
    "OAuth2": {"funcs": _f("oauth2", "OAuth2.Init", "OAuth2.Start", "OAuth2.End", "RMTrue.GetShouldRemember"), "tables": ["consts_oauth2", "eventRegs_oauth2", "stateCalls_oauth2", "logCalls_oauth2", "routes_oauth2", "pkgVars_oauth2"]},
    "Totp": {"funcs": _f("otp_twofactor_totp2fa", "TOTP.Setup", "TOTP.HijackAuth", "TOTP.GetSetup", "TOTP.PostSetup", "TOTP.PostConfirm", "TOTP.PostRemove", "TOTP.PostValidate", "TOTP.validate"), "tables": ["consts_otp_twofactor_totp2fa", "eventRegs_otp_twofactor_totp2fa", "stateCalls_otp_twofactor_totp2fa", "logCalls_otp_twofactor_totp2fa", "routes_otp_twofactor_totp2fa"]},
    "Sms": {"funcs": _f("otp_twofactor_sms2fa", "SMS.Setup", "SMS.HijackAuth", "SMS.SendCodeToUser", "SMS.GetSetup", "SMS.PostSetup", "SMSValidator.Post", "SMSValidator.sendCode", "SMSValidator.validateCode", "generateRandomCode"), "tables": ["consts_otp_twofactor_sms2fa", "eventRegs_otp_twofactor_sms2fa", "stateCalls_otp_twofactor_sms2fa", "logCalls_otp_twofactor_sms2fa", "routes_otp_twofactor_sms2fa"]},
    "TwoFactor": {"funcs": _f("otp_twofactor", "Recovery.Setup", "Recovery.PostRegen", "GenerateRecoveryCodes", "BCryptRecoveryCodes", "UseRecoveryCode", "EncodeRecoveryCodes", "DecodeRecoveryCodes", "SetupEmailVerify", "EmailVerify.PostStart", "EmailVerify.SendVerifyEmail", "EmailVerify.End", "EmailVerify.Wrap", "GenerateToken"), "tables": ["consts_otp_twofactor", "stateCalls_otp_twofactor", "logCalls_otp_twofactor", "routes_otp_twofactor"]},
    "Responder": {"funcs": _f("defaults", "Responder.Respond", "Redirector.Redirect", "Redirector.redirectAPI", "Redirector.redirectNonAPI", "isAPIRequest", "errorHandler.ServeHTTP", "ErrorHandler.Wrap", "Router.ServeHTTP", "JSONRenderer.Render"), "tables": []},
    "Values": {"funcs": _f("defaults", "HTTPBodyReader.Read", "NewHTTPBodyReader", "HTTPFormValidator.Validate", "URLValuesToMap", "UserValues.GetShouldRemember", "Rules.Errors", "Rules.IsValid", "tallyCharacters"), "tables": ["consts_defaults", "pkgVars_defaults"]},
    "Shared": {"funcs": _f("defaults", "SMTPMailer.Send", "SMTPMailer.boundary", "NewSMTPMailer", "LogMailer.Send", "Logger.Info", "Logger.Error", "SetCore") + _f("authboss", "Authboss.Init", "Authboss.loadModule", "RegisterModule", "New"), "tables": ["pkgVars_authboss", "pkgVars_auth", "pkgVars_confirm", "pkgVars_lock", "pkgVars_logout", "pkgVars_otp", "pkgVars_otp_twofactor", "pkgVars_otp_twofactor_sms2fa", "pkgVars_otp_twofactor_totp2fa", "pkgVars_recover", "pkgVars_register", "pkgVars_remember"]},
})

# every function of the library that no unit above watches, plus the list of all function names
# (so that an added function is noticed too): shared mutable state can be introduced anywhere (C20)
TIE_UNITS["Rest"] = {"funcs": "*", "tables": ["funcNames"]}

COMMON_TB = []

MACH_QUICK = {"name": "mach", "n": 120, "seeds": 4}
MACH_THOROUGH = {"name": "mach", "n": 400, "seeds": 12}
SYMBOLIC = "symbolic cryptography: SHA-512 and bcrypt are ideal (verify(hash p) q <-> p = q); crypto/rand output is a parameter of the model (fed back from the real run); TOTP validity is an oracle parameter"

MACH_TIES = ["Events", "Context", "Middleware", "Core", "Lock", "Auth", "Otp", "Confirm", "Recover", "Register", "Logout",
             "Remember", "Expire", "OAuth2", "Totp", "Sms", "TwoFactor", "Responder", "Values"]
MACH_TB = ["net/http, encoding/json, encoding/base64, pquerna/otp, x/crypto/bcrypt, x/oauth2 (real, under the harness)",
           SYMBOLIC]

PROPS = {
    "C01": {
        "ties": MACH_TIES,
        "streams": {"quick": [MACH_QUICK], "thorough": [MACH_THOROUGH], "search": [{"name": "c18r", "n": 100, "seeds": 6}, MACH_THOROUGH]},
        "level": "proof",
        "assumptions": [SYMBOLIC,
                        "for the second-factor routes and the remember cookie the licence is stated through the success of the verifying sub-computation (totpValidate / smsVerdict / useToken); remember's is unfolded to the stored token",
                        "malformed request bodies (body-reader parse errors) are outside the model"],
        "trusted_base": MACH_TB,
    },
    "C03": {
        "ties": MACH_TIES,
        "streams": {"quick": [MACH_QUICK], "thorough": [MACH_THOROUGH], "search": [{"name": "c18r", "n": 100, "seeds": 6}, MACH_THOROUGH]},
        "level": "proof",
        "assumptions": [SYMBOLIC,
                        "the handler-level link (no session identity is written when the account is locked/unconfirmed) is proven for the password, one-time-password, TOTP, SMS and recover-login flows, and for existing locked accounts on the OAuth2 callback",
                        "OAuth2 accounts are created confirmed by the application's storer (confirm registers no Before(EventOAuth2) handler; DESIGN 6-F12)"],
        "trusted_base": MACH_TB,
    },
    "C04": {
        "ties": ["Lock", "Events"],
        "streams": {
            "quick": [{"name": "c04", "n": 3000}, MACH_QUICK],
            "thorough": [{"name": "c04", "n": 30000, "seeds": 4}, MACH_THOROUGH],
        },
        "level": "proof",
        "assumptions": ["time is an integer number of nanoseconds; Go's zero time behaves as minus infinity (window/duration < 2^62 ns)",
                        "which handler fires AuthFail/Auth events is part of the machine model, tied by the mach stream"],
        "trusted_base": ["Go time package; fake clock (-tags faketime) of the harness"],
    },
    "C11": {
        "ties": ["ClientState"],
        "streams": {
            "quick": [{"name": "c11", "n": 20000}],
            "thorough": [{"name": "c11", "n": 200000, "seeds": 2}, {"name": "c11-long", "n": 20000, "seeds": 2}],
        },
        "level": "proof",
        "assumptions": [
            "response-writer wrappers only forward calls (checked on the real code by the stream, not modelled)",
            "handlers are sequential programs over the writer; concurrent use of one writer is out of scope",
        ],
        "trusted_base": ["net/http ResponseWriter contract of the underlying writer (recording stub in the harness)"],
    },
}

def _mach_prop(assumptions, extra_streams_quick=None, extra_streams_thorough=None, search=None):
    return {
        "ties": MACH_TIES,
        "streams": dict({"quick": (extra_streams_quick or []) + [MACH_QUICK], "thorough": (extra_streams_thorough or []) + [MACH_THOROUGH]},
                        **{"search": (search or [{"name": "c18r", "n": 100, "seeds": 6}]) + [MACH_THOROUGH]}),
        "level": "proof",
        "assumptions": [SYMBOLIC] + assumptions,
        "trusted_base": MACH_TB,
    }

PROPS.update({
    "C02": _mach_prop(["TOTP validity is an oracle (the real pquerna/otp under the harness)",
                       "the SMS code is compared with the code in the session, unbound to the destination: known finding F9 (theorem C02_sms_verdict_ignores_user is its model-side witness)",
                       "parking is proven for every load order and module set containing the enrolled factor's module (C02_parks_any_order)"]),
    "C07": _mach_prop(search=[{"name": "c18r", "n": 150, "seeds": 8}], assumptions=["the codec theorem is over all byte strings; single-use is proven on the storage operation (one occurrence erased); history-level counting is monitored on real traces"]),
    "C09": _mach_prop(["time stamps have one-second resolution (RFC 3339): known finding K1, with kernel-checked witness",
                       "after fix f76b20a every interactive login stamps the session; a remember-cookie login does not (known finding login-unstamped:remember; the library documents expire and remember as conflicting)"]),
    "C10": _mach_prop(["the logout response's own flash message is not 'left behind' state"]),
    "C12": _mach_prop(["replay protection for TOTP needs the application's user type to implement UserOneTime"]),
    "C14": _mach_prop(["'identifier separator' is the character ';' (sharp boundary proven)"],
                      extra_streams_quick=[{"name": "c14", "n": 20000}], extra_streams_thorough=[{"name": "c14", "n": 400000, "seeds": 2}]),
})

PROPS.update({
    "C15": {
        "ties": ["Responder", "OAuth2", "Auth", "Otp", "Totp", "Sms"],
        "streams": {"quick": [{"name": "c15", "n": 20000}, MACH_QUICK],
                    "thorough": [{"name": "c15", "n": 150000, "seeds": 4}, MACH_THOROUGH]},
        "level": "proof",
        "assumptions": ["the browser side is a specification written from the WHATWG URL standard, restricted to what decides same-origin vs not, conservative (anything not clearly same-site counts as off-site); it cannot be cross-checked against a browser in this sandbox",
                        "net/url parsing is a universally quantified bit in the theorem (relative or not); path.Clean is modelled (PathClean.lean) and diffed against the real http.Redirect on every accepted value",
                        "RedirectPath values configured by the application are same-site"],
        "trusted_base": ["net/http.Redirect, path.Clean, net/url (real, under the harness)"],
    },
})

PROPS.update({
    "C05": _mach_prop(["selectors/verifiers are represented by their pre-images (injective SHA-512): 'decodes to exactly the issued bytes' is equality with selector++verifier",
                       "base64 decoding is outside the model (the request carries the decoded bytes or 'undecodable'); alternative spellings of the same bytes are therefore the same token by construction; the harness decodes with the real encoding/base64",
                       "accept / reject-frame theorems are proven for both recovery and confirmation"]),
    "C06": _mach_prop(["symbolic bcrypt (the stored value verifies exactly the password it was made from); the 72-byte truncation of real bcrypt is known finding K2, exercised by the harness",
                       "token revocation is proven for UpdatePassword and for the remember hook on EventRecoverEnd under no storage fault"]),
})

PROPS.update({
    "C08": {
        "ties": ["Middleware", "Context", "Responder"],
        "streams": {"quick": [{"name": "c08", "n": 600}, MACH_QUICK],
                    "thorough": [{"name": "c08", "n": 20000, "seeds": 4}, MACH_THOROUGH],
                    "search": [{"name": "c08", "n": 2000, "seeds": 2}, {"name": "c18r", "n": 150, "seeds": 8}, MACH_THOROUGH]},
        "level": "proof",
        "assumptions": ["the wrapped handler is represented by an observable marker action in the 'only if' theorem",
                        "path.Join / url.QueryEscape are modelled (PathClean.lean, Url.lean) and diffed against the stdlib through the real middleware; the middleware sees the decoded path (r.URL.Path) that net/http hands it"],
        "trusted_base": ["net/http ServeMux routing in front of the middleware (real, under the harness)"],
    },
    "C19": {
        "ties": ["Values", "Register", "Confirm"],
        "streams": {"quick": [{"name": "c19", "n": 50000}, MACH_QUICK],
                    "thorough": [{"name": "c19", "n": 500000, "seeds": 4}, MACH_THOROUGH]},
        "level": "proof",
        "assumptions": ["unicode classification, the regular expressions and the byte length are inputs computed by the harness with the real stdlib (not modelled)",
                        "lengths are in bytes (the byte/character distinction is out of scope, as the property says)",
                        SYMBOLIC],
        "trusted_base": ["unicode, regexp (real, under the harness)"],
    },
})

PROPS.update({
    "C13": _mach_prop(["the wrapped handler is represented by an observable marker action in the gate theorems",
                       "the SMS enrolment code is compared with the code in the session, unbound to the number it was sent to (same root cause as known finding F9; monitored under site sms-enrol-unbound)",
                       "handler-level frame (no other route changes 2FA settings) is checked by the differential stream's store diff and the monitor, not by a theorem"]),
    "C17": _mach_prop(search=[{"name": "c18r", "n": 150, "seeds": 8}], extra_streams_quick=[{"name": "c17", "n": 300}], extra_streams_thorough=[{"name": "c17", "n": 5000, "seeds": 2}], assumptions=["hash pre-image resistance (a hash does not contain its input) is a cryptographic assumption; the harness' byte scan checks it empirically on every store change and log line",
                       "every logger call site with its argument expressions is pinned by the regenerated logCalls_* tables (T1); the model proves where mailed tokens go and that the repaired confirm log line carries no request data"]),
})

PROPS.update({
    "C18": {
        "ties": MACH_TIES,
        "streams": {"quick": [{"name": "c18", "n": 0}, {"name": "c18r", "n": 60, "seeds": 3}, MACH_QUICK],
                    "thorough": [{"name": "c18", "n": 0}, {"name": "c18r", "n": 300, "seeds": 12}, MACH_THOROUGH]},
        "level": "proof",
        "assumptions": [SYMBOLIC,
                        "every call that leaves the library goes through one fault oracle in the model (storage, hasher, renderer, mailer, SMS sender, OAuth2 exchange / user details); the theorems quantify over all oracles",
                        "proved: no panic on any route except the two documented middlewares (every handler, event handler and middleware, for every fault oracle); a failing Save / token use / hash / render stores nothing and is reported; save-before-session ordering for the one-time password, the remember token and recovery codes at both second-factor steps. Decided by the exhaustive fault enumeration through the correspondence check instead of a theorem: no success response for an unsaved change per route, nothing spent comes back",
                        "lock.Middleware / confirm.Middleware panic on a storage error by documented design: known finding K3"],
        "trusted_base": MACH_TB,
    },
})

PROPS.update({
    "C16": {
        "ties": ["Lock", "Auth", "Otp", "Recover", "Responder", "Events", "Confirm", "Values"],
        "streams": {"quick": [{"name": "c16", "n": 400}, MACH_QUICK],
                    "thorough": [{"name": "c16", "n": 3000, "seeds": 6}, MACH_THOROUGH]},
        "level": "proof",
        "assumptions": [SYMBOLIC,
                        "what the client observes is, in the model, the actions a handler appends (session/cookie events, response) and how it ended; the harness compares the real responses byte for byte (status, every header, body) after replacing the submitted identifier by a placeholder",
                        "theorems are for requests during which no backend call fails (C18's subject), for module lists without repetition, and a positive lock duration",
                        "response time is not an observable of this property"],
        "trusted_base": MACH_TB,
    },
})

PROPS.update({
    "C20": {
        # shared mutable state can be introduced in any function of any package: every tied unit is an obligation of C20
        "ties": sorted(TIE_UNITS.keys()),
        "streams": {"quick": [{"name": "c20", "n": 8, "kind": "race", "extra": ["-rounds", "2"]},
                              {"name": "c20-log", "n": 8, "kind": "race", "extra": ["-rounds", "2"]},
                              {"name": "c20-json", "n": 8, "kind": "race", "extra": ["-rounds", "2"]}, MACH_QUICK],
                    "thorough": [{"name": "c20", "n": 12, "kind": "race", "extra": ["-rounds", "4"], "seeds": 4},
                                 {"name": "c20-log", "n": 12, "kind": "race", "extra": ["-rounds", "4"], "seeds": 4},
                                 {"name": "c20-json", "n": 12, "kind": "race", "extra": ["-rounds", "4"], "seeds": 4}, MACH_THOROUGH]},
        "level": "proof",
        "assumptions": ["the model is sequential: it proves that a request depends on and changes nothing but the configuration, clock, storage, the sender's client state and the append-only sinks, and that storage operations on different accounts commute; data races and interleavings inside a request are decided by the race harness (Go race detector over concurrent clients against one instance built from the shipped defaults, SMTP and log mailers, mail goroutines on), which samples schedules rather than enumerating them",
                        "package-level variables of every package (the only places shared mutable state could live besides the instance) are pinned by the regenerated pkgVars_* tables",
                        "the application's storer is goroutine-safe and its per-account operations are atomic"],
        "trusted_base": ["Go race detector; net/smtp against a loopback SMTP server of the harness; goroutine-safe reference storer"],
    },
})
