module verif

go 1.20

require github.com/volatiletech/authboss/v3 v3.0.0

require (
	github.com/friendsofgo/errors v0.9.2 // indirect
	golang.org/x/crypto v0.17.0 // indirect
	golang.org/x/oauth2 v0.6.0 // indirect
)

replace github.com/volatiletech/authboss/v3 => /repo
