// Package c14: the OAuth2 identifier codec on its own — MakeOAuth2PID / ParseOAuth2PID over
// adversarial provider / uid strings (separators inside, empty parts, unicode).
package c14

import (
	"fmt"
	"math/rand"
	"strings"

	"github.com/volatiletech/authboss/v3"

	"verif/internal/wire"
)

var parts = []string{"", "a", "google", "u1", ";", ";;", ";;;", "1234;;5678", "x;y", "oauth2", "oauth2;;", "ü", " ", "a;;b;;c"}

// Run: n random pairs; Parse(Make(p,u)) is (p,u) or an error — never another pair; two different pairs with
// separator-free providers never make the same identifier.
func Run(seed int64, n int) *wire.Out {
	r := rand.New(rand.NewSource(seed))
	out := wire.NewOut("c14", seed)
	out.Meta.Rule = "random provider / uid strings built from separator-laden fragments; ParseOAuth2PID(MakeOAuth2PID(p,u)) must be (p,u) or an error, never another pair; distinct pairs with ';'-free providers must not collide; non-trivial = every pair; distinct by pair"
	seen := map[string]bool{}
	mk := func() string {
		s := ""
		for k := 0; k <= r.Intn(3); k++ {
			s += parts[r.Intn(len(parts))]
		}
		return s
	}
	made := map[string][2]string{}
	for i := 0; i < n; i++ {
		p, u := mk(), mk()
		if r.Intn(3) == 0 {
			p = []string{"google", "github", "stub"}[r.Intn(3)]
		}
		key := p + "\x00" + u
		if !seen[key] {
			seen[key] = true
			out.Meta.Distinct++
		}
		out.Meta.Cases++
		pid := authboss.MakeOAuth2PID(p, u)
		providerOK := !strings.Contains(p, ";") // provider names are configuration; the separator is not allowed in them
		func() {
			defer func() {
				if rec := recover(); rec != nil {
					out.Count("parse:panic")
					if p2 := fmt.Sprint(rec); p2 == "" {
						_ = p2
					}
				}
			}()
			p2, u2, err := authboss.ParseOAuth2PID(pid)
			switch {
			case err != nil:
				out.Count("parse:error")
			case p2 == p && u2 == u:
				out.Count("parse:roundtrip")
			case !providerOK:
				out.Count("parse:provider-with-separator")
			default:
				out.Violate(wire.Violation{Property: "C14", Site: "parse-other-pair",
					What:   fmt.Sprintf("ParseOAuth2PID(MakeOAuth2PID(%q, %q)) = (%q, %q): the identifier of one (provider, uid) pair resolves to another", p, u, p2, u2),
					Replay: []string{fmt.Sprintf("provider=%q uid=%q pid=%q", p, u, pid)}})
			}
		}()
		noSep := true
		for _, c := range p {
			if c == ';' {
				noSep = false
			}
		}
		if noSep {
			if q, ok := made[pid]; ok && (q[0] != p || q[1] != u) {
				hasSep := false
				for _, c := range q[0] {
					if c == ';' {
						hasSep = true
					}
				}
				if !hasSep {
					out.Violate(wire.Violation{Property: "C14", Site: "collision",
						What:   fmt.Sprintf("(%q,%q) and (%q,%q) make the same identifier %q", p, u, q[0], q[1], pid),
						Replay: []string{pid}})
				}
			}
			made[pid] = [2]string{p, u}
		}
	}
	return out
}
