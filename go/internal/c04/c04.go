// Package c04 drives the real lock module (its event handlers and manual Lock/Unlock)
// under the fake clock, at gaps placed exactly on, just below and just above the
// configured thresholds, and records the three stored lock fields after every step.
package c04

import (
	"context"
	"fmt"
	"math/rand"
	"net/http/httptest"
	"strconv"
	"strings"
	"time"

	"github.com/volatiletech/authboss/v3"
	"github.com/volatiletech/authboss/v3/lock"

	"verif/internal/wire"
	"verif/internal/world"
)

func tm(epoch, t time.Time) string {
	if t.IsZero() {
		return "z"
	}
	return strconv.FormatInt(int64(t.Sub(epoch)), 10)
}

// Run n sequences.
func Run(seed int64, n, length int) *wire.Out {
	r := rand.New(rand.NewSource(seed))
	out := wire.NewOut("c04", seed)
	out.Meta.Rule = "sequences of fail/success/correct-password/manual lock/unlock on one account, LockAfter 1..5, gaps drawn from {0, window-1ns, window, window+1ns, duration-1ns, duration, duration+1ns, random}; non-trivial = sequence in which the account becomes locked at least once; distinct by op line"
	seen := map[string]bool{}
	windows := []time.Duration{time.Second, time.Minute, 5 * time.Minute}
	durations := []time.Duration{time.Second, 90 * time.Second, 12 * time.Hour}
	for i := 0; i < n; i++ {
		cfg := world.DefaultCfg()
		cfg.Units = []string{"lock"}
		cfg.LockAfter = 1 + r.Intn(5)
		cfg.LockWindow = windows[r.Intn(len(windows))]
		cfg.LockDuration = durations[r.Intn(len(durations))]
		w, err := world.New(cfg)
		if err != nil {
			panic(err)
		}
		lk := &lock.Lock{Authboss: w.AB}
		w.Store.Users["u"] = &world.User{PID: "u", Email: "u@x.com"}
		gaps := []time.Duration{0, cfg.LockWindow - 1, cfg.LockWindow, cfg.LockWindow + 1, cfg.LockDuration - 1, cfg.LockDuration, cfg.LockDuration + 1, 1, time.Millisecond}
		var ops, obs []string
		everLocked := false
		// the model starts its clock at 0 = world epoch
		for j := 0; j < 1+r.Intn(length); j++ {
			var gap time.Duration
			if r.Intn(4) == 0 {
				gap = time.Duration(r.Int63n(int64(2 * cfg.LockDuration)))
			} else {
				gap = gaps[r.Intn(len(gaps))]
			}
			if j == 0 && gap == 0 {
				gap = 1
			}
			w.Advance(gap)
			kind := "f"
			switch x := r.Intn(20); {
			case x < 11:
			case x < 14:
				kind = "c"
			case x < 17:
				kind = "s"
			case x < 18:
				kind = "L"
			default:
				kind = "U"
			}
			u, _ := w.Store.Load(context.Background(), "u")
			req := httptest.NewRequest("POST", "/", nil)
			req = req.WithContext(context.WithValue(req.Context(), authboss.CTXKeyUser, u))
			rw := w.AB.NewResponse(httptest.NewRecorder())
			switch kind {
			case "f":
				lk.AfterAuthFail(rw, req, false)
			case "c":
				lk.BeforeAuth(rw, req, false)
			case "s":
				lk.AfterAuthSuccess(rw, req, false)
			case "L":
				lk.Lock(context.Background(), "u")
			case "U":
				lk.Unlock(context.Background(), "u")
			}
			su := w.Store.Users["u"]
			locked := 0
			if lock.IsLocked(su) {
				locked = 1
				everLocked = true
			}
			ops = append(ops, fmt.Sprintf("%s%d", kind, int64(gap)))
			obs = append(obs, fmt.Sprintf("%d,%s,%s,%d", su.AttemptCount, tm(w.Epoch, su.LastAttempt), tm(w.Epoch, su.Locked), locked))
			out.Count("op:" + kind)
		}
		line := fmt.Sprintf("lock %d %d %d %s", cfg.LockAfter, int64(cfg.LockWindow), int64(cfg.LockDuration), strings.Join(ops, " "))
		out.Add(line, strings.Join(obs, " "))
		out.Count(fmt.Sprintf("lockAfter:%d", cfg.LockAfter))
		if everLocked && !seen[line] {
			seen[line] = true
			out.Meta.Distinct++
		}
		// monitor: the reference automaton of the property, written independently in Go
		if v := monitor(cfg, ops, obs); v != "" {
			out.Violate(wire.Violation{Property: "C04", What: v, Site: "lock.updateLockedState", Replay: []string{line, strings.Join(obs, " ")}})
		}
	}
	return out
}

// monitor replays the op list through the property's reference rules.
func monitor(cfg world.Cfg, ops, obs []string) string {
	var now, last, until int64
	lastZero := true
	count := int64(0)
	for i, o := range ops {
		gap, _ := strconv.ParseInt(o[1:], 10, 64)
		now += gap
		switch o[0] {
		case 'f':
			if lastZero || now-last > int64(cfg.LockWindow) {
				count = 1
			} else {
				count++
			}
			if count >= int64(cfg.LockAfter) {
				until = now + int64(cfg.LockDuration)
			}
			last, lastZero = now, false
		case 's':
			count = 0
			last, lastZero = now, false
		case 'c':
			last, lastZero = now, false
		case 'L':
			until = now + int64(cfg.LockDuration)
		case 'U':
			count = 0
			last, lastZero = now-2*int64(cfg.LockWindow), false
			until = now - int64(cfg.LockDuration)
		}
		parts := strings.Split(obs[i], ",")
		wantLocked := "0"
		if now < until {
			wantLocked = "1"
		}
		if parts[0] != strconv.FormatInt(count, 10) {
			return fmt.Sprintf("step %d (%s): stored count %s, property says %d", i, o, parts[0], count)
		}
		if parts[3] != wantLocked {
			return fmt.Sprintf("step %d (%s): locked=%s, property says %s", i, o, parts[3], wantLocked)
		}
	}
	return ""
}
