// Package c19 diffs the real defaults.Rules.Errors / HTTPFormValidator against the Lean
// policy model on class-targeted strings and random rule settings, and drives registration
// through the real body reader with hostile field maps.
package c19

import (
	"fmt"
	"math/rand"
	"regexp"
	"strings"
	"unicode"

	"github.com/volatiletech/authboss/v3/defaults"

	"verif/internal/wire"
)

var blankRegex = regexp.MustCompile(`^\s*$`)

var alph = map[string][]string{
	"U": {"A", "Z", "É", "Ω"},
	"L": {"a", "z", "é", "ß", "中"}, // letters that are not upper count as lower (as the implementation does)
	"D": {"0", "9", "٣"},
	"S": {" ", "\t", "\n", " "},
	"Y": {"!", "-", "_", "€", "\x00", "\x7f"},
}

func classOf(r rune) byte {
	switch {
	case unicode.IsLetter(r):
		if unicode.IsUpper(r) {
			return 'U'
		}
		return 'L'
	case unicode.IsDigit(r):
		return 'D'
	case unicode.IsSpace(r):
		return 'S'
	}
	return 'Y'
}

func kindOf(msg string) string {
	switch {
	case strings.Contains(msg, "Cannot be blank"):
		return "blank"
	case strings.Contains(msg, "MATCHERR"):
		return "match"
	case strings.HasPrefix(msg, "Must be between") || strings.HasPrefix(msg, "Must be at least") || strings.HasPrefix(msg, "Must be at most"):
		return "length"
	case strings.Contains(msg, "uppercase"):
		return "upper"
	case strings.Contains(msg, "lowercase"):
		return "lower"
	case strings.Contains(msg, "letter"):
		return "letters"
	case strings.Contains(msg, "number"):
		return "numeric"
	case strings.Contains(msg, "symbol"):
		return "symbols"
	case strings.Contains(msg, "whitespace"):
		return "ws"
	}
	return "?" + msg
}

func Run(seed int64, n int) *wire.Out {
	r := rand.New(rand.NewSource(seed))
	out := wire.NewOut("c19", seed)
	out.Meta.Rule = "random rule settings (each minimum in {-1,0,1,2,3,8}, max length in {0,1,5,12}, required/whitespace/regexp on or off) against strings built class by class around each minimum (-1/0/+1), with non-ASCII letters, digits, spaces and symbols, empty and blank strings; lengths in bytes; non-trivial = at least one rule error or a pass with a non-default rule; distinct by op line"
	seen := map[string]bool{}
	mins := []int{-1, 0, 0, 1, 2, 3, 8}
	matchRe := regexp.MustCompile(`^[a-zA-Z0-9!]+$`)
	for i := 0; i < n; i++ {
		rule := defaults.Rules{FieldName: "f", Required: r.Intn(3) == 0, MatchError: "MATCHERR",
			MinLength: mins[r.Intn(len(mins))], MaxLength: []int{0, 0, 1, 5, 12}[r.Intn(5)], MinLetters: mins[r.Intn(len(mins))],
			MinLower: mins[r.Intn(len(mins))], MinUpper: mins[r.Intn(len(mins))], MinNumeric: mins[r.Intn(len(mins))],
			MinSymbols: mins[r.Intn(len(mins))], AllowWhitespace: r.Intn(2) == 0}
		hasMatch := r.Intn(3) == 0
		if hasMatch {
			rule.MustMatch = matchRe
		}
		// class-targeted string
		var sb strings.Builder
		order := []string{"U", "L", "D", "S", "Y"}
		r.Shuffle(len(order), func(a, b int) { order[a], order[b] = order[b], order[a] })
		for _, c := range order {
			k := r.Intn(4)
			if r.Intn(3) == 0 {
				k = 0
			}
			for j := 0; j < k; j++ {
				sb.WriteString(alph[c][r.Intn(len(alph[c]))])
			}
		}
		s := sb.String()
		errs := rule.Errors(s)
		var kinds []string
		for _, e := range errs {
			msg := e.Error()
			msg = strings.TrimPrefix(msg, "f: ")
			kinds = append(kinds, kindOf(msg))
		}
		obs := "ok"
		if len(kinds) > 0 {
			obs = strings.Join(kinds, ",")
		}
		var cls strings.Builder
		for _, ru := range s {
			cls.WriteByte(classOf(ru))
		}
		clsS := cls.String()
		if clsS == "" {
			clsS = "-"
		}
		mok := !hasMatch || matchRe.MatchString(s)
		line := fmt.Sprintf("rules %s %s %d %d %d %d %d %d %d %s %d %s %s %s", wire.Bool(rule.Required), wire.Bool(hasMatch),
			rule.MinLength, rule.MaxLength, rule.MinLetters, rule.MinLower, rule.MinUpper, rule.MinNumeric, rule.MinSymbols,
			wire.Bool(rule.AllowWhitespace), len(s), wire.Bool(blankRegex.MatchString(s)), wire.Bool(mok), clsS)
		out.Add(line, obs)
		out.Count("errors:" + fmt.Sprint(len(kinds)))
		if !seen[line] {
			seen[line] = true
			out.Meta.Distinct++
		}
		// monitor: IsValid iff every configured minimum is met (the property, restated in Go)
		var U, L, D, S, Y int
		for _, ru := range s {
			switch classOf(ru) {
			case 'U':
				U++
			case 'L':
				L++
			case 'D':
				D++
			case 'S':
				S++
			default:
				Y++
			}
		}
		ln := len(s)
		want := !(rule.Required && (ln == 0 || blankRegex.MatchString(s))) && mok &&
			!(rule.MinLength > 0 && ln < rule.MinLength) && !(rule.MaxLength > 0 && ln > rule.MaxLength) &&
			U+L >= rule.MinLetters && U >= rule.MinUpper && L >= rule.MinLower && D >= rule.MinNumeric && Y >= rule.MinSymbols &&
			(rule.AllowWhitespace || S == 0)
		if rule.IsValid(s) != want {
			out.Violate(wire.Violation{Property: "C19", What: fmt.Sprintf("IsValid(%q)=%v under %+v but the value meets every configured minimum = %v", s, rule.IsValid(s), rule, want), Site: "rules.IsValid", Replay: []string{line}})
		}
	}
	// confirm-field check
	for i := 0; i < n/10+10; i++ {
		vals := []string{"", "a", "ab", "Passw0rd!", "passw0rd!", " "}
		mn, cf := vals[r.Intn(len(vals))], vals[r.Intn(len(vals))]
		v := defaults.HTTPFormValidator{Values: map[string]string{"password": mn, "confirm_password": cf}, ConfirmFields: []string{"password", "confirm_password"}}
		errs := v.Validate()
		out.Add(fmt.Sprintf("rules %s %s", wire.Hex(mn), wire.Hex(cf)), wire.Bool(len(errs) > 0))
	}
	return out
}
