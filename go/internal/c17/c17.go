// Package c17 is a monitor-only stream (no model side): request bodies the body reader rejects
// — the common client mistakes: a JSON boolean or number where a string is expected, a nested
// object, an array, trailing garbage, a truncated body; a form body that does not parse — are
// sent to every POST route of the real stack with secrets in them, and every log line, response
// body and header of those requests is scanned for the secrets (C17: no log line contains a
// password, a one-time or recovery code, a second-factor code or a mailed token).
package c17

import (
	"fmt"
	"math/rand"
	"net/url"
	"runtime"
	"strings"

	"verif/internal/wire"
	"verif/internal/world"
)

var routes = []string{
	"/auth/login", "/auth/otp/login", "/auth/register", "/auth/recover", "/auth/recover/end",
	"/auth/2fa/totp/setup", "/auth/2fa/totp/confirm", "/auth/2fa/totp/validate", "/auth/2fa/totp/remove",
	"/auth/2fa/sms/setup", "/auth/2fa/sms/confirm", "/auth/2fa/sms/validate", "/auth/2fa/sms/remove",
	"/auth/2fa/totp/email/verify", "/auth/2fa/sms/email/verify", "/auth/otp/add", "/auth/2fa/recovery/regen",
}

// field -> secret typed into it
func secrets(r *rand.Rand) map[string]string {
	tag := fmt.Sprintf("%06d", r.Intn(1000000))
	return map[string]string{
		"password":         "Pw!" + tag + "-Secret9",
		"confirm_password": "Pw!" + tag + "-Secret9",
		"token":            "tok" + tag + "MAILEDTOKENVALUE",
		"code":             "9" + tag + "31",
		"recovery_code":    "rc" + tag + "-recov-code",
	}
}

func Run(seed int64, n int) *wire.Out {
	r := rand.New(rand.NewSource(seed))
	out := wire.NewOut("c17", seed)
	out.Meta.Rule = "request bodies the shipped body reader rejects (JSON: boolean / number / object / array where a string is expected, trailing garbage, truncation; form: an invalid escape), carrying a password, a token, a code and a recovery code, to every POST route (API and form mode, 500-writing and silent error handler); the log lines, response body and headers of each are scanned for those secrets; non-trivial = the body reader returned an error (the request ended in the error handler); distinct by (mode, route, body shape)"
	seen := map[string]bool{}
	for i := 0; i < n; i++ {
		cfg := world.DefaultCfg()
		cfg.JSON = r.Intn(4) != 0
		cfg.Err500 = r.Intn(2) == 0
		w, err := world.New(cfg)
		if err != nil {
			out.Violate(wire.Violation{Property: "C17", Site: "harness", What: "world: " + err.Error()})
			return out
		}
		if i%100 == 99 {
			runtime.GC()
		}
		for k := 0; k < 12; k++ {
			route := routes[r.Intn(len(routes))]
			sec := secrets(r)
			var body, ct, shape string
			if cfg.JSON {
				ct = "application/json"
				var parts []string
				parts = append(parts, `"email":"alice@x.com"`)
				for f, v := range sec {
					parts = append(parts, fmt.Sprintf("%q:%q", f, v))
				}
				r.Shuffle(len(parts), func(a, b int) { parts[a], parts[b] = parts[b], parts[a] })
				switch x := r.Intn(7); x {
				case 0:
					shape = "bool-field"
					parts = append(parts, `"rm":true`)
				case 1:
					shape = "number-field"
					parts = append(parts, `"code2":123456`)
				case 2:
					shape = "object-field"
					parts = append(parts, `"profile":{"name":"x"}`)
				case 3:
					shape = "null-then-array"
					parts = append(parts, `"tags":["a"]`)
				case 4:
					shape = "trailing-garbage"
				case 5:
					shape = "truncated"
				case 6:
					shape = "array-body"
				}
				body = "{" + strings.Join(parts, ",") + "}"
				switch shape {
				case "trailing-garbage":
					body += "}"
				case "truncated":
					body = body[:len(body)-2]
				case "array-body":
					body = "[" + body + "]"
				}
			} else {
				ct = "application/x-www-form-urlencoded"
				shape = "bad-escape"
				vals := url.Values{"email": {"alice@x.com"}}
				for f, v := range sec {
					vals.Set(f, v)
				}
				body = vals.Encode() + "&x=%zz"
			}
			res := w.DoRawStr("b1", "POST", route, ct, body, world.Fault{At: -1})
			key := fmt.Sprintf("%v/%s/%s", cfg.JSON, route, shape)
			out.Meta.Cases++
			rejected := res.Status == 500 || (!cfg.Err500 && len(res.Pages) == 0 && res.Location == "")
			if rejected {
				if !seen[key] {
					seen[key] = true
					out.Meta.Distinct++
				}
				out.Count("rejected:" + shape)
			} else {
				out.Count("served:" + shape)
			}
			if res.Panic != "" {
				out.Count("panic")
			}
			var hdr []string
			for k, vs := range res.Header {
				hdr = append(hdr, k+": "+strings.Join(vs, ","))
			}
			for f, v := range sec {
				for _, l := range res.LogLines {
					if strings.Contains(l, v) || strings.Contains(l, url.QueryEscape(v)) {
						out.Violate(wire.Violation{Property: "C17", Site: "log:" + f,
							What:   fmt.Sprintf("a log line of a rejected %s request contains the submitted %s: %.200q", route, f, l),
							Replay: []string{fmt.Sprintf("json=%v err500=%v", cfg.JSON, cfg.Err500), "POST " + route + " " + ct, body}})
					}
				}
				if strings.Contains(res.Body, v) || strings.Contains(strings.Join(hdr, "\n"), v) {
					if f == "password" || f == "confirm_password" {
						out.Violate(wire.Violation{Property: "C17", Site: "echo:" + f,
							What:   fmt.Sprintf("the response to a rejected %s request echoes the submitted %s", route, f),
							Replay: []string{fmt.Sprintf("json=%v err500=%v", cfg.JSON, cfg.Err500), "POST " + route + " " + ct, body}})
					}
				}
			}
		}
	}
	return out
}
