// Package c08 enumerates the access middleware's decision table completely on the real code
// (session contents x requirement bits x refusal mode x mount-path setting x storage outcome)
// and adds hostile paths and query strings.
package c08

import (
	"math/rand"

	"verif/internal/mach"
	"verif/internal/wire"
	"verif/internal/world"
)

var paths = []string{"/x", "/", "/a/b", "/a%20b", "/a%3Fb", "/a%25b", "/a;b", "/a&b=c", "/é", "/a+b", "/a/b/", "/%C3%A9"}
var queries = []string{"", "a=1", "a=1&b=%20c", "q=%2F&r=%3F", "x=y#z", "a=%", "+=+", "é=ü", "&&", "redir=//evil"}

func Run(seed int64, n int) *wire.Out {
	r := rand.New(rand.NewSource(seed))
	out := wire.NewOut("c08", seed)
	out.Meta.Rule = "complete table: session user {absent, unknown, known} x half-auth mark x 2FA mark x requirement bits 0..3 x refusal mode 0..3 x mountPathed x storage {ok, error}, in form and JSON mode, then n random (path, query) pairs from an escaping-hostile alphabet; non-trivial = every row; distinct by op line"
	out.Meta.Exhaustive = true
	seen := map[string]bool{}
	for _, js := range []bool{false, true} {
		cfg := world.DefaultCfg()
		cfg.JSON = js
		cfg.Units = []string{"auth", "logout"}
		cfg.RememberMW = false
		m, err := mach.New(cfg, out)
		if err != nil {
			panic(err)
		}
		m.SeedUser("known@x.com", "Passw0rd!", true, 0, 0, 0, false, false, nil, "", "", nil)
		row := func(uid string, half, twofa bool, reqs, fail, mp int, p, q string, fault bool) {
			sess := map[string]string{}
			if uid != "" {
				sess["uid"] = uid
			}
			if half {
				sess["halfauth"] = "true"
			}
			if twofa {
				sess["twofactor"] = "totp"
			}
			m.SetSession("b1", sess)
			var f *world.Fault
			if fault {
				f = &world.Fault{At: 0, Kind: "generic"}
			}
			m.HTTP("b1", "prot", mach.Args{Reqs: reqs, Fail: fail, MP: mp, Path: p, RawQuery: q}, f)
			line := out.Ops[len(out.Ops)-1]
			if !seen[line] {
				seen[line] = true
				out.Meta.Distinct++
			}
		}
		for _, uid := range []string{"", "ghost@x.com", "known@x.com"} {
			for _, half := range []bool{false, true} {
				for _, twofa := range []bool{false, true} {
					for reqs := 0; reqs <= 3; reqs++ {
						for fail := 0; fail <= 3; fail++ {
							for mp := 0; mp <= 1; mp++ {
								for _, fault := range []bool{false, true} {
									row(uid, half, twofa, reqs, fail, mp, "/x", "a=1", fault)
								}
							}
						}
					}
				}
			}
		}
		for i := 0; i < n; i++ {
			row([]string{"", "known@x.com"}[r.Intn(2)], r.Intn(2) == 0, r.Intn(2) == 0, r.Intn(4), 1, r.Intn(2), paths[r.Intn(len(paths))], queries[r.Intn(len(queries))], false)
		}
	}
	return out
}
