// Package urlspec: where a browser goes for a Location value, restricted to what decides
// "same site or not" (written from the WHATWG URL standard, conservative: unclear = off-site).
package urlspec



func preprocess(v string) string {
	b := []byte(v)
	for len(b) > 0 && b[0] <= 32 {
		b = b[1:]
	}
	for len(b) > 0 && b[len(b)-1] <= 32 {
		b = b[:len(b)-1]
	}
	out := b[:0:0]
	for _, c := range b {
		if c != 9 && c != 10 && c != 13 {
			out = append(out, c)
		}
	}
	return string(out)
}

func isAlpha(c byte) bool { return c >= 'A' && c <= 'Z' || c >= 'a' && c <= 'z' }

func OffSite(v string) bool {
	w := preprocess(v)
	if len(w) > 0 && isAlpha(w[0]) {
		for i := 1; i < len(w); i++ {
			c := w[i]
			if c == ':' {
				return true
			}
			if !(isAlpha(c) || c >= '0' && c <= '9' || c == '+' || c == '-' || c == '.') {
				break
			}
		}
	}
	sl := func(c byte) bool { return c == '/' || c == '\\' }
	return len(w) >= 2 && sl(w[0]) && sl(w[1])
}

