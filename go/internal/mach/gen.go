package mach

import (
	"encoding/base64"
	"fmt"
	"math/rand"
	"strings"
	"time"

	"verif/internal/wire"
	"verif/internal/world"
)

// Acct is what the harness (playing both honest users and the adversary) knows.
type Acct struct {
	PID      string
	PW       string   // current password
	OldPWs   []string // previous passwords
	OTPs     []string
	RecCodes []string
	OldRec   []string
	Confirm  []string // confirm tokens mailed (latest last)
	Recover  []string
	Verify   []string
	Phone    string
	Email    string   // contact address when it differs from the login identifier ("" = same)
	Cookies  []string // remember cookies issued, latest last
	Exists   bool
}

type Gen struct {
	M     *M
	R     *rand.Rand
	Accts []*Acct
	Bs    []string
	W     Weights
	OIdx  int
	// FaultP: per cent of requests sent with a backend failure injected at a random call index
	FaultP int
}

var faultKinds = []string{"generic", "generic", "generic", "notfound", "tokennotfound", "userfound"}

func (g *Gen) fault() *world.Fault {
	if g.FaultP <= 0 || g.R.Intn(100) >= g.FaultP {
		return nil
	}
	return &world.Fault{At: g.R.Intn(7), Kind: faultKinds[g.R.Intn(len(faultKinds))]}
}

// Weights of op kinds (a stream biases these).
type Weights map[string]int

func DefaultWeights() Weights {
	return Weights{
		"register": 6, "confirm": 6, "login": 14, "otplogin": 4, "otpadd": 3, "otpclear": 1,
		"recstart": 4, "recend": 5, "logout": 4, "ostart": 2, "oend": 3,
		"totpsetup": 3, "totpconfirm": 3, "totpremove": 1, "totpvalidate": 5, "totpgetsetup": 1,
		"smssetup": 3, "smsconfirm": 3, "smsremove": 1, "smsvalidate": 6, "smsgetsetup": 1,
		"regen": 1, "vstart": 2, "vend": 2, "prot": 5, "open": 1, "lockmw": 1, "confirmmw": 1, "rootmw": 1,
		"adv": 6, "keepalive": 2, "xfactor": 2, "enrolchain": 0, "recchain": 1, "apilock": 1, "apiunlock": 1, "updpw": 1, "setcookie": 3, "stealcookie": 2,
	}
}

var goodPWs = []string{"Passw0rd!", "S3cret$Word", "An0ther#Pass", "Zz9!zzzzzz", "Qwerty1!X"}
var phones = []string{"+15550001", "+15550002", "+15550003"}

func NewGen(m *M, r *rand.Rand, nAcct, nB int) *Gen {
	g := &Gen{M: m, R: r, W: DefaultWeights()}
	names := []string{"alice@x.com", "bob@y.org", "carol@z.net", "dave@w.io", "eve@evil.com"}
	for i := 0; i < nAcct; i++ {
		g.Accts = append(g.Accts, &Acct{PID: names[i%len(names)], Phone: phones[i%len(phones)]})
	}
	// an oauth2 account known by pid only
	for i := 0; i < nB; i++ {
		g.Bs = append(g.Bs, fmt.Sprintf("b%d", i+1))
	}
	return g
}

func (g *Gen) acct() *Acct { return g.Accts[g.R.Intn(len(g.Accts))] }
func (g *Gen) b() string   { return g.Bs[g.R.Intn(len(g.Bs))] }

func last(l []string) string {
	if len(l) == 0 {
		return ""
	}
	return l[len(l)-1]
}

func pick(r *rand.Rand, l []string) string {
	if len(l) == 0 {
		return ""
	}
	return l[r.Intn(len(l))]
}

// secretFor picks a password-ish value: mostly the right one, sometimes someone else's,
// stale, stored-hash-replayed, empty or huge.
func (g *Gen) pwFor(a *Acct) string {
	switch x := g.R.Intn(100); {
	case x < 62:
		return a.PW
	case x < 72:
		return g.acct().PW
	case x < 80:
		return pick(g.R, a.OldPWs)
	case x < 84:
		return ""
	case x < 88:
		if u := g.M.W.Store.Users[a.PID]; u != nil {
			return u.Password // the stored hash replayed as the secret
		}
		return "x"
	case x < 90:
		return strings.Repeat("A1!a", 16) // 64 bytes (below bcrypt's limit)
	default:
		return "wrong-" + a.PW
	}
}

func mutateToken(r *rand.Rand, tok string) string {
	raw, err := base64.URLEncoding.DecodeString(tok)
	if err != nil || len(raw) == 0 {
		return tok + "A"
	}
	switch r.Intn(6) {
	case 0: // single bit flip
		i := r.Intn(len(raw))
		raw[i] ^= 1 << uint(r.Intn(8))
	case 1: // truncate
		raw = raw[:len(raw)-1-r.Intn(3)]
	case 2: // extend
		raw = append(raw, byte(r.Intn(256)))
	case 3: // swap halves
		h := len(raw) / 2
		raw = append(append([]byte{}, raw[h:]...), raw[:h]...)
	case 4:
		return tok + "!" // not base64
	case 5:
		return ""
	}
	return base64.URLEncoding.EncodeToString(raw)
}

func (g *Gen) tokenFor(a *Acct, pool func(*Acct) []string) string {
	switch x := g.R.Intn(100); {
	case x < 55:
		return last(pool(a))
	case x < 65:
		return pick(g.R, pool(a)) // possibly stale / superseded
	case x < 75:
		return last(pool(g.acct()))
	case x < 83: // splice: selector half of a, verifier half of another
		t1, t2 := last(pool(a)), last(pool(g.acct()))
		r1, e1 := base64.URLEncoding.DecodeString(t1)
		r2, e2 := base64.URLEncoding.DecodeString(t2)
		if e1 == nil && e2 == nil && len(r1) == 64 && len(r2) == 64 {
			return base64.URLEncoding.EncodeToString(append(append([]byte{}, r1[:32]...), r2[32:]...))
		}
		return t1
	case x < 88: // built from what storage holds
		if u := g.M.W.Store.Users[a.PID]; u != nil {
			return u.RecoverSelector + u.ConfirmSelector
		}
		return "zz"
	default:
		return mutateToken(g.R, last(pool(a)))
	}
}

func (g *Gen) codeFor(a *Acct, b string) string {
	u := g.M.W.Store.Users[a.PID]
	switch x := g.R.Intn(100); {
	case x < 55:
		if u != nil && u.TOTPSecretKey != "" {
			return TOTPCode(u.TOTPSecretKey)
		}
		return "000000"
	case x < 70:
		o := g.acct()
		if ou := g.M.W.Store.Users[o.PID]; ou != nil && ou.TOTPSecretKey != "" {
			return TOTPCode(ou.TOTPSecretKey)
		}
		return "111111"
	case x < 80:
		if s := g.M.W.B(b).Sess["totp_secret"]; s != "" {
			return TOTPCode(s)
		}
		return "222222"
	case x < 85:
		return ""
	default:
		return fmt.Sprintf("%06d", g.R.Intn(1000000))
	}
}

func (g *Gen) smsCodeFor(b string) string {
	switch x := g.R.Intn(100); {
	case x < 55:
		return g.M.W.B(b).Sess["sms_secret"]
	case x < 70:
		if n := len(g.M.W.SMSs); n > 0 {
			return g.M.W.SMSs[g.R.Intn(n)].Code // any code ever sent (possibly to another phone)
		}
		return "123456"
	case x < 78:
		return g.M.W.B(g.b()).Sess["sms_secret"]
	case x < 85:
		return ""
	default:
		return fmt.Sprintf("%06d", g.R.Intn(1000000))
	}
}

func (g *Gen) recCodeFor(a *Acct) string {
	switch x := g.R.Intn(100); {
	case x < 50:
		return pick(g.R, a.RecCodes)
	case x < 65:
		return pick(g.R, a.OldRec)
	case x < 80:
		return pick(g.R, g.acct().RecCodes)
	default:
		return "abcde-fghij"
	}
}

func (g *Gen) harvest(a *Acct, r *world.Result) {
	for _, ml := range r.NewMail {
		for _, acc := range g.Accts {
			if len(ml.To) > 0 && (ml.To[0] == acc.PID && acc.Email == "" || acc.Email != "" && ml.To[0] == acc.Email) {
				switch ml.Kind {
				case "confirm":
					acc.Confirm = append(acc.Confirm, ml.Token)
				case "recover":
					acc.Recover = append(acc.Recover, ml.Token)
				case "verify":
					acc.Verify = append(acc.Verify, ml.Token)
				}
			}
		}
	}
	for _, d := range r.Datas {
		if o, ok := d["otp"].(string); ok && a != nil {
			a.OTPs = append(a.OTPs, o)
		}
		if rc, ok := d["recovery_codes"].([]string); ok && a != nil {
			a.OldRec = append(a.OldRec, a.RecCodes...)
			a.RecCodes = append([]string{}, rc...)
		}
	}
	for _, e := range r.CookEv {
		if e.K == 0 && e.Key == "rm" && a != nil {
			a.Cookies = append(a.Cookies, e.Val)
		}
	}
}

// owner returns the account a browser is currently logged in as (harness knowledge of the jar).
func (g *Gen) owner(b string) *Acct {
	uid := g.M.W.B(b).Sess["uid"]
	for _, a := range g.Accts {
		if a.PID == uid {
			return a
		}
	}
	return nil
}

func (g *Gen) choose() string {
	total := 0
	for _, w := range g.W {
		total += w
	}
	keys := make([]string, 0, len(g.W))
	for k := range g.W {
		keys = append(keys, k)
	}
	sortStrings(keys)
	x := g.R.Intn(total)
	for _, k := range keys {
		x -= g.W[k]
		if x < 0 {
			return k
		}
	}
	return keys[0]
}

func sortStrings(s []string) {
	for i := 1; i < len(s); i++ {
		for j := i; j > 0 && s[j] < s[j-1]; j-- {
			s[j], s[j-1] = s[j-1], s[j]
		}
	}
}

var gaps = []time.Duration{time.Second, 9 * time.Second, 10 * time.Second, 11 * time.Second, time.Minute, 4 * time.Minute, 6 * time.Minute, time.Hour, 13 * time.Hour, 25 * time.Hour, 1, 999999999}

// Step performs one random op.
func (g *Gen) Step() {
	m := g.M
	kind := g.choose()
	b := g.b()
	a := g.acct()
	var r *world.Result
	switch kind {
	case "register":
		pw := pick(g.R, goodPWs)
		args := Args{PID: a.PID, PW: pw, PW2: pw}
		switch g.R.Intn(10) {
		case 0:
			args.PW2 = "different1!A"
		case 1:
			args.PW, args.PW2 = "short", "short"
		case 2:
			args.PID = "not-an-email"
		case 3:
			args.Extra = map[string]string{"name": "X", "confirmed": "true", "password": "zzz"}
		case 4:
			// spellings of the one whitelisted field name
			args.Extra = map[string]string{"EMAIL": "admin@x.com", "Email": "root@x.com", "eMail": "x@y.zz"}
		case 6:
			// white space around an otherwise good password (the shipped rules allow none; nothing trims it)
			args.PW = []string{pw + " ", " " + pw, pw + "\n", "\t" + pw + " "}[g.R.Intn(4)]
			args.PW2 = args.PW
		case 5:
			args.NoPW = true
			args.PW = ""
			if g.R.Intn(2) == 0 {
				args.NoPW2 = true
			} else {
				args.PW2 = ""
			}
		}
		existed := m.W.Store.Users[args.PID] != nil
		r = m.HTTP(b, "register", args, g.fault())
		if !existed && m.W.Store.Users[a.PID] != nil && args.PID == a.PID {
			a.Exists = true
			a.PW = args.PW
		}
		g.harvest(a, r)
	case "confirm":
		r = m.HTTP(b, "confirm", Args{Token: g.tokenFor(a, func(x *Acct) []string { return x.Confirm })}, g.fault())
		g.harvest(a, r)
	case "login", "otplogin":
		args := Args{PID: a.PID, RM: g.R.Intn(3) == 0}
		if !args.RM && g.R.Intn(6) == 0 {
			args.RMVal = pick(g.R, []string{"false", "0", "1", "yes"})
		}
		if g.R.Intn(12) == 0 {
			args.PID = "ghost@nowhere.com"
		}
		if g.R.Intn(10) == 0 {
			// any identifier storage knows, including the ones the library builds for OAuth2 users
			var pids []string
			for pid := range m.W.Store.Users {
				pids = append(pids, pid)
			}
			sortStrings(pids)
			if len(pids) > 0 {
				args.PID = pids[g.R.Intn(len(pids))]
			}
		}
		if kind == "login" {
			args.PW = g.pwFor(a)
		} else {
			switch x := g.R.Intn(10); {
			case x < 6:
				args.PW = pick(g.R, a.OTPs)
			case x < 8:
				args.PW = pick(g.R, g.acct().OTPs)
			case x < 9:
				args.PW = a.PW
			default:
				args.PW = ""
			}
		}
		if g.R.Intn(4) == 0 {
			args.Redir = pick(g.R, []string{"/home", "/a/b?x=1", "/"})
		}
		r = m.HTTP(b, kind, args, g.fault())
		g.harvest(a, r)
		if kind == "otplogin" {
			// a consumed otp stays in the harness pool on purpose (replay attempts)
		}
	case "otpadd", "otpclear":
		o := g.owner(b)
		r = m.HTTP(b, kind, Args{}, g.fault())
		g.harvest(o, r)
	case "recstart":
		args := Args{PID: a.PID}
		if g.R.Intn(8) == 0 {
			args.PID = "ghost@nowhere.com"
		}
		r = m.HTTP(b, "recstart", args, g.fault())
		g.harvest(a, r)
	case "recend":
		pw := pick(g.R, goodPWs)
		tok := g.tokenFor(a, func(x *Acct) []string { return x.Recover })
		args := Args{Token: tok, PW: pw, PW2: pw}
		if g.R.Intn(10) == 0 {
			args.PW2 = "mismatch1!A"
		}
		before := map[string]string{}
		for pid, u := range m.W.Store.Users {
			before[pid] = u.Password
		}
		r = m.HTTP(b, "recend", args, g.fault())
		for _, acc := range g.Accts {
			if u := m.W.Store.Users[acc.PID]; u != nil && u.Password != before[acc.PID] {
				acc.OldPWs = append(acc.OldPWs, acc.PW)
				acc.PW = pw
			}
		}
		g.harvest(a, r)
	case "logout":
		args := Args{}
		if g.R.Intn(6) == 0 {
			args.Method = pick(g.R, []string{"GET", "POST", "DELETE", "HEAD", "PUT"})
		}
		r = m.HTTP(b, "logout", args, g.fault())
	case "ostart":
		args := Args{Prov: pick(g.R, []string{"stub", "other"}), RM: g.R.Intn(3) == 0}
		if !args.RM && g.R.Intn(3) == 0 {
			args.RMVal = pick(g.R, []string{"false", "0", "no", "TRUE"})
		}
		if g.R.Intn(3) == 0 {
			args.Redir = pick(g.R, []string{"/after-oauth", "/after-oauth", "//evil.example", "/\\evil.example", "/%2Fevil.example", "/%5Cevil.example/x", "https://evil.example/"})
			if g.R.Intn(3) == 0 {
				// a repeated parameter: a harmless first value, the library keeps the last
				args.RedirFirst = "/welcome"
			}
			if g.R.Intn(3) == 0 {
				args.RMVal = "no" // one more pass-along parameter
			}
		}
		r = m.HTTP(b, "ostart", args, g.fault())
	case "oend":
		prov := pick(g.R, []string{"stub", "other"})
		g.OIdx++
		code := fmt.Sprintf("code%d", g.OIdx)
		uid := pick(g.R, []string{"u1", "u;;4", "u;4", "u;;4", "u;4", "u;3", "ü5"})
		if g.R.Intn(6) != 0 {
			m.W.OAuth[code] = map[string]string{"uid": uid}
		}
		if m.W.B(b).Sess["oauth2_state"] == "" && g.R.Intn(2) == 0 {
			m.HTTP(b, "ostart", Args{Prov: prov, RM: g.R.Intn(4) == 0}, nil) // a complete round trip
		}
		if pid := "oauth2;;" + prov + ";;" + uid; g.R.Intn(4) == 0 && m.Cfg.Has("lock") && m.W.Store.Users[pid] != nil {
			m.APILock(pid) // a returning OAuth2 user whose account has been locked meanwhile
		}
		args := Args{Prov: prov, OCode: code}
		switch x := g.R.Intn(10); {
		case x < 6:
			args.State = m.W.B(b).Sess["oauth2_state"]
		case x < 8:
			args.State = m.W.B(g.b()).Sess["oauth2_state"]
		case x < 9:
			st := m.W.B(b).Sess["oauth2_state"]
			switch g.R.Intn(4) {
			case 0:
				args.State = "forged"
			case 1:
				if len(st) > 4 {
					args.State = st[:len(st)/2] // a prefix of the right value
				}
			case 2:
				args.State = st + "x"
			default:
				args.State = "" // absent
			}
		}
		if g.R.Intn(8) == 0 {
			args.OErr = "access_denied"
		}
		r = m.HTTP(b, "oend", args, g.fault())
		g.harvest(nil, r)
	case "totpgetsetup", "totpsetup", "smsgetsetup", "regen":
		o := g.owner(b)
		r = m.HTTP(b, kind, Args{}, g.fault())
		g.harvest(o, r)
	case "totpconfirm":
		o := g.owner(b)
		args := Args{}
		if s := m.W.B(b).Sess["totp_secret"]; s != "" && g.R.Intn(4) != 0 {
			args.Code = TOTPCode(s)
		} else {
			args.Code = g.codeFor(a, b)
		}
		r = m.HTTP(b, "totpconfirm", args, g.fault())
		g.harvest(o, r)
	case "totpremove", "totpvalidate":
		o := g.owner(b)
		tgt := o
		if tgt == nil {
			for _, acc := range g.Accts {
				if acc.PID == m.W.B(b).Sess["totp_pending"] {
					tgt = acc
				}
			}
		}
		if tgt == nil {
			tgt = a
		}
		args := Args{}
		if g.R.Intn(5) == 0 {
			args.RCode = g.recCodeFor(tgt)
		} else {
			args.Code = g.codeFor(tgt, b)
		}
		if g.R.Intn(6) == 0 {
			args.Redir = "/after-2fa"
		}
		r = m.HTTP(b, kind, args, g.fault())
		g.harvest(tgt, r)
	case "smssetup":
		args := Args{Phone: pick(g.R, phones)}
		if g.R.Intn(8) == 0 {
			args.Phone = ""
		}
		r = m.HTTP(b, "smssetup", args, g.fault())
	case "smsconfirm", "smsremove", "smsvalidate":
		o := g.owner(b)
		tgt := o
		if tgt == nil {
			for _, acc := range g.Accts {
				if acc.PID == m.W.B(b).Sess["sms_pending"] {
					tgt = acc
				}
			}
		}
		if tgt == nil {
			tgt = a
		}
		args := Args{}
		switch x := g.R.Intn(10); {
		case x < 2: // resend
		case x < 3 && len(tgt.RecCodes)+len(tgt.OldRec) > 0:
			args.RCode = g.recCodeFor(tgt)
		default:
			args.Code = g.smsCodeFor(b)
		}
		r = m.HTTP(b, kind, args, g.fault())
		g.harvest(tgt, r)
	case "vstart", "vend":
		o := g.owner(b)
		args := Args{Kind: pick(g.R, []string{"totp", "sms"})}
		if kind == "vend" {
			switch x := g.R.Intn(10); {
			case x < 6:
				args.Token = m.W.B(b).Sess["twofactor_auth_token"]
			case x < 8 && o != nil:
				args.Token = last(o.Verify)
			case x < 9:
				args.Token = ""
			default:
				args.Token = "Zm9yZ2Vk"
			}
		}
		r = m.HTTP(b, kind, args, g.fault())
		g.harvest(o, r)
	case "prot":
		args := Args{Reqs: g.R.Intn(4), Fail: g.R.Intn(3), MP: g.R.Intn(2), Path: pick(g.R, []string{"/x", "/a/b", "/"})}
		if g.R.Intn(2) == 0 {
			args.RawQuery = pick(g.R, []string{"a=1", "a=1&b=%20c", "q=%2F"})
		}
		r = m.HTTP(b, "prot", args, g.fault())
	case "open", "lockmw", "confirmmw", "rootmw":
		r = m.HTTP(b, kind, Args{}, g.fault())
	case "keepalive":
		// a browser that keeps using the site: every gap is below the idle limit
		E := m.Cfg.ExpireAfter
		for k := 0; k < 2+g.R.Intn(3); k++ {
			gap := E/4 + time.Duration(g.R.Int63n(int64(E*6/10)))
			m.Advance(gap)
			m.HTTP(b, "open", Args{}, nil)
		}
	case "adv":
		if g.R.Intn(3) == 0 {
			// gaps placed on the configured thresholds
			E, W, D := m.Cfg.ExpireAfter, m.Cfg.LockWindow, m.Cfg.LockDuration
			th := []time.Duration{E - 1, E - 500*time.Millisecond, E - 1500*time.Millisecond, E, E + 1, E/2 - time.Second, W - 1, W, W + 1, D - 1, D, D + 1, m.Cfg.RecoverDuration, m.Cfg.RecoverDuration + 1}
			m.Advance(th[g.R.Intn(len(th))])
		} else {
			m.Advance(gaps[g.R.Intn(len(gaps))])
		}
	case "xfactor":
		// cross-account / cross-factor confusion in one browser: start a login for one account, then for
		// another, then answer the second factor with what was obtained for the first
		a2 := g.acct()
		m.HTTP(b, "login", Args{PID: a.PID, PW: a.PW}, nil)
		if g.R.Intn(3) == 0 {
			m.Advance(11 * time.Second) // past the SMS resend limit
		}
		m.HTTP(b, "login", Args{PID: a2.PID, PW: a2.PW}, nil)
		sess := m.W.B(b).Sess
		switch g.R.Intn(4) {
		case 0:
			r = m.HTTP(b, "smsvalidate", Args{Code: sess["sms_secret"]}, nil)
		case 1:
			if u := m.W.Store.Users[a.PID]; u != nil && u.TOTPSecretKey != "" {
				r = m.HTTP(b, "totpvalidate", Args{Code: TOTPCode(u.TOTPSecretKey)}, nil)
			}
		case 2:
			if len(a.RecCodes) > 0 {
				r = m.HTTP(b, pick(g.R, []string{"smsvalidate", "totpvalidate"}), Args{RCode: pick(g.R, a.RecCodes)}, nil)
			}
		default:
			if u := m.W.Store.Users[a2.PID]; u != nil && u.TOTPSecretKey != "" {
				r = m.HTTP(b, "smsvalidate", Args{Code: TOTPCode(u.TOTPSecretKey)}, nil)
			}
		}
	case "enrolchain":
		// behind the e-mail authorisation gate (which random steps rarely get through): a whole
		// enrolment in one session, then the start of a second one in the same session (is the
		// authorisation spent by the first?).  Only in worlds with the gate on: an enrolment
		// bcrypt-hashes ten recovery codes at the default cost, and without the gate the random
		// steps reach it by themselves.
		if !m.Cfg.EmailAuth {
			break
		}
		m.HTTP(b, "login", Args{PID: a.PID, PW: a.PW}, nil)
		knd := pick(g.R, []string{"totp", "sms"})
		g.harvest(a, m.HTTP(b, "vstart", Args{Kind: knd}, nil))
		m.HTTP(b, "vend", Args{Kind: knd, Token: m.W.B(b).Sess["twofactor_auth_token"]}, nil)
		if knd == "sms" {
			m.HTTP(b, "smssetup", Args{Phone: phones[0]}, nil)
			g.harvest(a, m.HTTP(b, "smsconfirm", Args{Code: m.W.B(b).Sess["sms_secret"]}, nil))
			m.Advance(11 * time.Second)
			r = m.HTTP(b, "smssetup", Args{Phone: phones[1]}, nil)
		} else {
			m.HTTP(b, "totpsetup", Args{}, nil)
			g.harvest(a, m.HTTP(b, "totpconfirm", Args{Code: TOTPCode(m.W.B(b).Sess["totp_secret"])}, nil))
			r = m.HTTP(b, "totpsetup", Args{}, nil)
		}
		g.harvest(a, r)
	case "recchain":
		// a recovery code finishes a login; the same code is then offered to switch the factor off
		if len(a.RecCodes) > 0 {
			rc := pick(g.R, a.RecCodes)
			m.HTTP(b, "login", Args{PID: a.PID, PW: a.PW}, nil)
			sess := m.W.B(b).Sess
			switch {
			case sess["totp_pending"] == a.PID:
				m.HTTP(b, "totpvalidate", Args{RCode: rc}, nil)
				r = m.HTTP(b, "totpremove", Args{RCode: rc}, nil)
			case sess["sms_pending"] == a.PID:
				m.HTTP(b, "smsvalidate", Args{RCode: rc}, nil)
				r = m.HTTP(b, "smsremove", Args{RCode: rc}, nil)
			}
		}
	case "apilock":
		pid := a.PID
		if g.R.Intn(3) == 0 {
			// any stored account, including the ones OAuth2 logins created
			var pids []string
			for p := range m.W.Store.Users {
				pids = append(pids, p)
			}
			sortStrings(pids)
			if len(pids) > 0 {
				pid = pids[g.R.Intn(len(pids))]
			}
		}
		if m.W.Store.Users[pid] != nil && m.Cfg.Has("lock") {
			m.APILock(pid)
		}
	case "apiunlock":
		if m.W.Store.Users[a.PID] != nil && m.Cfg.Has("lock") {
			m.APIUnlock(a.PID)
		}
	case "updpw":
		if m.W.Store.Users[a.PID] != nil {
			pw := pick(g.R, goodPWs)
			a.OldPWs = append(a.OldPWs, a.PW)
			a.PW = pw
			m.APIUpdatePassword(a.PID, pw)
		}
	case "setcookie":
		switch x := g.R.Intn(10); {
		case x < 2:
			m.SetCookie(b, "", false)
		case x < 4:
			m.SetCookie(b, "!!!not-base64", true)
		case x < 6:
			m.SetCookie(b, base64.URLEncoding.EncodeToString([]byte("no-separator-here")), true)
		case x < 8:
			m.SetCookie(b, mutateToken(g.R, last(a.Cookies)), true)
		default: // right nonce, other pid prefix
			if raw, err := base64.URLEncoding.DecodeString(last(a.Cookies)); err == nil && len(raw) > 33 {
				other := g.acct().PID
				forged := append([]byte(other+";"), raw[len(raw)-32:]...)
				m.SetCookie(b, base64.URLEncoding.EncodeToString(forged), true)
			} else {
				m.SetCookie(b, "", false)
			}
		}
	case "stealcookie":
		// present a cookie some account was issued (current or rotated-out) from this browser
		if c := pick(g.R, a.Cookies); c != "" {
			m.SetCookie(b, c, true)
		}
	}
	_ = r
	m.Out.Count("op:" + kind)
}

var totpSecrets = []string{"JBSWY3DPEHPK3PXP", "KRSXG5CTMVRXEZLU", "MFRGGZDFMZTWQ2LK"}
var recPool = []string{"abcde-fghij", "kmnop-qrstu", "vwxyz-01234", "56789-abcde"}

// SeedAccounts starts some accounts in deep reachable states (confirmed, with a second
// factor, with one-time passwords, locked, ...) so that short random histories reach the
// interesting interleavings.
func (g *Gen) SeedAccounts() {
	for i, a := range g.Accts {
		if g.R.Intn(10) < 3 {
			continue // this account has to be registered the normal way
		}
		pw := goodPWs[i%len(goodPWs)]
		confirmed := g.R.Intn(5) != 0
		var otps, rec []string
		totpS, sms := "", ""
		if g.R.Intn(2) == 0 {
			for k := 0; k <= g.R.Intn(3); k++ {
				otps = append(otps, fmt.Sprintf("0000000%d-1111111%d-22222222-33333333", i, k))
			}
		}
		switch g.R.Intn(5) {
		case 0, 1:
			totpS = totpSecrets[i%len(totpSecrets)]
		case 2:
			sms = a.Phone
		case 3:
			totpS, sms = totpSecrets[i%len(totpSecrets)], a.Phone
		}
		if totpS != "" || sms != "" {
			rec = []string{recPool[i%len(recPool)], recPool[(i+1)%len(recPool)]}
		}
		attempts, hasLast, hasLocked := 0, false, false
		var lastT, lockedT time.Duration
		switch g.R.Intn(6) {
		case 0: // locked right now
			attempts, hasLast, hasLocked, lockedT = g.M.Cfg.LockAfter, true, true, g.M.Cfg.LockDuration
		case 1: // one failure short of the threshold
			attempts, hasLast = g.M.Cfg.LockAfter-1, true
		}
		email := a.PID
		if g.R.Intn(3) == 0 {
			// the contact address is not the login identifier (changed after sign-up)
			a.Email = "contact." + a.PID
			email = a.Email
		}
		if g.R.Intn(8) == 0 {
			pw = "" // an account without a password (created through OAuth2 / by an administrator)
		}
		g.M.SeedUserE(a.PID, email, pw, confirmed, attempts, lastT, lockedT, hasLast, hasLocked, otps, totpS, sms, rec)
		a.Exists, a.PW, a.OTPs, a.RecCodes = true, pw, append([]string{}, otps...), append([]string{}, rec...)
	}
}

// RandomCfg draws a configuration: module subset in random order, thresholds, modes.
func RandomCfg(r *rand.Rand) world.Cfg {
	c := world.DefaultCfg()
	all := []string{"auth", "otp", "lock", "confirm", "remember", "recover", "register", "logout", "oauth2", "totp", "sms", "recovery", "expire"}
	var units []string
	for _, u := range all {
		keep := 88
		switch u {
		case "confirm", "lock":
			keep = 65
		case "expire", "totp", "sms":
			keep = 70
		}
		if r.Intn(100) < keep {
			units = append(units, u)
		}
	}
	r.Shuffle(len(units), func(i, j int) { units[i], units[j] = units[j], units[i] })
	c.Units = units
	c.JSON = r.Intn(3) == 0
	c.LockAfter = 1 + r.Intn(4)
	c.LockWindow = []time.Duration{time.Minute, 5 * time.Minute, time.Hour}[r.Intn(3)]
	c.LockDuration = []time.Duration{time.Minute, time.Hour, 12 * time.Hour}[r.Intn(3)]
	c.RecoverLogin = r.Intn(2) == 0
	c.RecoverDuration = []time.Duration{time.Hour, 24 * time.Hour}[r.Intn(2)]
	c.EmailAuth = r.Intn(4) == 0
	c.OneTime = r.Intn(3) == 0
	c.RememberMW = r.Intn(5) != 0
	c.ExpireMW = r.Intn(4) == 0
	c.ExpireAfter = []time.Duration{time.Minute, time.Hour}[r.Intn(2)]
	c.Err500 = r.Intn(4) == 0
	switch r.Intn(4) {
	case 0:
		c.Whitelist = []string{"app_pref"}
	case 1:
		c.Whitelist = []string{"app_pref", "flash_success"}
	}
	c.LogoutMethod = []string{"DELETE", "POST", "GET"}[r.Intn(3)]
	return c
}

// RunRandom runs `cases` worlds of `steps` ops each.
func RunRandom(name string, seed int64, cases, steps int, tune func(*Gen)) *wire.Out {
	r := rand.New(rand.NewSource(seed))
	out := wire.NewOut(name, seed)
	out.Meta.Rule = "random op sequences (register/confirm/login/otp/recover/oauth2/2fa/remember/logout/protected/clock/api) over 3-4 accounts x 2-3 browsers with adversarial secret pools (other accounts' secrets, stale, spliced, stored-hash-replayed, empty), random module subsets and load orders; non-trivial = op line whose observation changes storage or a jar; distinct by (op,obs) line"
	seen := map[string]bool{}
	for c := 0; c < cases; c++ {
		cfg := RandomCfg(r)
		m, err := New(cfg, out)
		if err != nil {
			out.Meta.Notes = append(out.Meta.Notes, "world construction failed: "+err.Error())
			continue
		}
		g := NewGen(m, r, 3+r.Intn(2), 2+r.Intn(2))
		if tune != nil {
			tune(g)
		}
		g.SeedAccounts()
		prev := ""
		for i := 0; i < steps; i++ {
			n0 := len(out.Ops)
			g.Step()
			for j := n0; j < len(out.Ops); j++ {
				key := out.Ops[j] + "|" + out.Obs[j]
				state := out.Obs[j]
				if k := strings.Index(state, " sess="); k >= 0 {
					state = state[k:]
				}
				if state != prev && !seen[key] {
					seen[key] = true
					out.Meta.Distinct++
				}
				prev = state
			}
		}
	}
	return out
}
