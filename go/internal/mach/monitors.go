package mach

// Monitors: the properties stated directly on the real traces, with the harness' own
// ground truth (what it typed, was mailed, was shown), independent of the Lean model.
// They are the search oracle of bin/check: a hit is a concrete failing input.

import (
	"net/url"
	"path"
	"regexp"
	"unicode"
	"crypto/sha512"
	"encoding/base64"
	"fmt"
	"strings"
	"time"

	"github.com/pquerna/otp/totp"
	"github.com/volatiletech/authboss/v3"
	"golang.org/x/crypto/bcrypt"

	"verif/internal/urlspec"
	"verif/internal/wire"
	"verif/internal/world"
)

type snapshot struct {
	users  map[string]*world.User
	tokens map[string][]string
	sess   map[string]string
	cook   map[string]string
	now    time.Time
	nSMS   int
}

func (m *M) snap(b string) *snapshot {
	s := &snapshot{users: map[string]*world.User{}, tokens: map[string][]string{}, sess: map[string]string{}, cook: map[string]string{}, now: time.Now(), nSMS: len(m.W.SMSs)}
	for k, u := range m.W.Store.Users {
		c := *u
		s.users[k] = &c
	}
	for k, t := range m.W.Store.Tokens {
		s.tokens[k] = append([]string(nil), t...)
	}
	br := m.W.B(b)
	for k, v := range br.Sess {
		s.sess[k] = v
	}
	for k, v := range br.Cook {
		s.cook[k] = v
	}
	return s
}

func sha64(x string) string {
	s := sha512.Sum512([]byte(x))
	return base64.StdEncoding.EncodeToString(s[:])
}

func recCodeValid(u *world.User, code string) bool {
	if u == nil || code == "" || u.RecoveryCodes == "" {
		return false
	}
	for _, h := range strings.Split(u.RecoveryCodes, ",") {
		if bcrypt.CompareHashAndPassword([]byte(h), []byte(code)) == nil {
			return true
		}
	}
	return false
}

// rememberLicence: does the cookie the browser held before the request name a stored token of U?
func rememberLicence(pre *snapshot, U string) bool {
	v, ok := pre.cook["rm"]
	if !ok {
		return false
	}
	raw, err := base64.URLEncoding.DecodeString(v)
	if err != nil || len(raw) < 33 {
		return false
	}
	if string(raw[:len(raw)-33]) != U || raw[len(raw)-33] != ';' {
		return false
	}
	h := sha64(string(raw))
	for _, t := range pre.tokens[U] {
		if t == h {
			return true
		}
	}
	return false
}

func (m *M) violate(prop, site, what string, b string) {
	// replay: the op lines of the current world up to and including this one
	start := len(m.Out.Ops) - 1
	for start > 0 && !strings.HasPrefix(m.Out.Ops[start], "mcfg") {
		start--
	}
	rep := append([]string{}, m.Out.Ops[start:]...)
	if len(rep) > 400 {
		rep = append(rep[:1], rep[len(rep)-399:]...)
	}
	m.Out.Violate(wire.Violation{Property: prop, What: what, Site: site, Replay: rep})
}

// check runs every monitor for one HTTP op. `route`/`a` are what was submitted.
func (m *M) check(b, route string, a Args, pre *snapshot, r *world.Result) {
	post := m.W.B(b)
	oldU, newU := pre.sess["uid"], post.Sess["uid"]
	cfg := m.Cfg
	pu := func(pid string) *world.User { return pre.users[pid] }

	// did the remember middleware authenticate this request (whatever the route did afterwards)?
	cookiePID0 := cookiePIDOf(pre)
	mwAuth0 := cfg.RememberMW && cfg.Has("remember") && oldU == "" && cookiePID0 != "" && rememberLicence(pre, cookiePID0)

	// ---------------- C01: a new session identity needs a licence ----------------------
	if newU != "" && newU != oldU {
		U := newU
		lic := m.licenceOf(route, a, pre, U)
		u := pu(U)
		// the identity came from the remember cookie and the interactive flow did not complete
		// (a completed full login deletes the half-auth mark)
		if mwAuth0 && U == cookiePID0 && post.Sess["halfauth"] == "true" {
			lic = "remember"
		}
		// one-time credentials: the harness' own count of successful uses (C01 "unconsumed", C12)
		once := ""
		switch lic {
		case "otp":
			once = "otp|" + U + "|" + a.PW
		case "remember":
			once = "rm|" + pre.cook["rm"]
		case "recover":
			once = "recover|" + a.Token
		case "totp", "sms":
			if a.RCode != "" {
				once = "reccode|" + U + "|" + a.RCode
			} else if lic == "sms" {
				once = fmt.Sprintf("smscode|%s|%d", a.Code, m.smsIssue[a.Code])
			}
		}
		if once != "" {
			if m.used == nil {
				m.used = map[string]int{}
			}
			m.used[once]++
			if m.used[once] > m.issued(once) {
				what := fmt.Sprintf("one-time credential (%s) enabled a second successful login as %q", strings.SplitN(once, "|", 2)[0], U)
				kind := strings.SplitN(once, "|", 2)[0]
				m.violate("C12", "reuse:"+kind, what, b)
				m.violate("C01", "reuse:"+kind, what, b)
				if kind == "reccode" || kind == "smscode" {
					m.violate("C02", "reuse:"+kind, what, b)
				}
				if kind == "rm" {
					m.violate("C07", "reuse:rm", what, b)
				}
			}
		}
		if lic == "" {
			m.violate("C01", "route:"+route, fmt.Sprintf("browser %s became logged in as %q by a %s request that proved no valid credential of that user", b, U, route), b)
		}
		m.Out.Count("c01-licence:" + lic)

		// ------------- C09: login itself starts the idle clock -------------------------------
		if cfg.Has("expire") && r.Wrote && post.Sess["last_action"] == "" {
			how := lic
			if how == "" {
				how = route
			}
			m.violate("C09", "login-unstamped:"+how, fmt.Sprintf("a %s login of %q left the session without a last-activity stamp: its idle clock only starts at the next request", how, U), b)
		}

		// ------------- C02: with a second factor, primary credentials only park ---------
		// (an identity restored by the remember middleware during such a request is not the request's doing)
		if u != nil && (route == "login" || route == "otplogin" || route == "recend") && lic != "remember" {
			if (u.TOTPSecretKey != "" && cfg.Has("totp")) || (u.SMSPhoneNumber != "" && cfg.Has("sms")) {
				m.violate("C02", "route:"+route, fmt.Sprintf("account %q has a second factor but a %s request alone produced a session", U, route), b)
			}
		}
		// C02: an SMS code completes the login only if it was sent to that account's number
		if route == "smsvalidate" && lic == "sms" && a.RCode == "" && u != nil {
			sentTo := ""
			for i := len(m.W.SMSs) - 1; i >= 0; i-- {
				if m.W.SMSs[i].Code == a.Code {
					sentTo = m.W.SMSs[i].Number
					break
				}
			}
			if sentTo != u.SMSPhoneNumber {
				mech := "other:" + m.smsOrigin[a.Code]
				if m.staleSecret[b] {
					mech = "rate-limited-hijack"
				}
				m.violate("C02", "sms_secret-unbound:"+mech, fmt.Sprintf("pending login of %q completed with an SMS code that was sent to %q, not to its number %q", U, sentTo, u.SMSPhoneNumber), b)
			}
		}

		// ------------- C03: locked / unconfirmed accounts never complete a login ---------
		// (the remember cookie is not an interactive login flow; C03 does not speak about it)
		if u != nil && route != "register" && lic != "remember" {
			locked := cfg.Has("lock") && u.Locked.After(pre.now)
			unconf := cfg.Has("confirm") && !u.Confirmed
			if locked || unconf {
				why := "locked"
				if !locked {
					why = "unconfirmed"
				}
				site := "route:" + route
				m.violate("C03", site+":"+why, fmt.Sprintf("%s account %q completed a login via %s", why, U, route), b)
			}
		}
	}

	// ---------------- C05: confirm / recover links ---------------------------------------------
	if (route == "recend" || route == "confirm") && r.Panic == "" && !r.Injected {
		raw, derr := base64.URLEncoding.DecodeString(a.Token)
		for pid, u0 := range pre.users {
			u1 := m.W.Store.Users[pid]
			if u1 == nil {
				continue
			}
			if route == "recend" {
				genuine := derr == nil && len(raw) == 64 && u0.RecoverSelector != "" && u0.RecoverSelector == sha64(string(raw[:32])) &&
					u0.RecoverVerifier == sha64(string(raw[32:])) && !pre.now.After(u0.RecoverExpiry)
				changed := u1.Password != u0.Password || u1.RecoverSelector != u0.RecoverSelector || u1.RecoverVerifier != u0.RecoverVerifier
				if changed && !genuine {
					m.violate("C05", "recover-accepted-bad-token", fmt.Sprintf("a recovery submission that is not the genuine unexpired token of %q changed that account", pid), b)
				}
				if genuine && u1.Password != u0.Password && (u1.RecoverSelector != "" || u1.RecoverVerifier != "") {
					m.violate("C05", "recover-not-spent", "an accepted recovery token is still outstanding", b)
				}
			} else {
				genuine := derr == nil && len(raw) == 64 && u0.ConfirmSelector != "" && u0.ConfirmSelector == sha64(string(raw[:32])) &&
					u0.ConfirmVerifier == sha64(string(raw[32:]))
				changed := u1.Confirmed != u0.Confirmed || u1.ConfirmSelector != u0.ConfirmSelector || u1.ConfirmVerifier != u0.ConfirmVerifier
				if changed && !genuine && cfg.Has("confirm") {
					m.violate("C05", "confirm-accepted-bad-token", fmt.Sprintf("a confirmation submission that is not the genuine token of %q changed that account", pid), b)
				}
				if genuine && cfg.Has("confirm") && m.validOracle("confirm", map[string]string{"cnf": a.Token}) && (!u1.Confirmed || u1.ConfirmSelector != "") {
					m.violate("C05", "confirm-rejected-genuine", fmt.Sprintf("the genuine confirmation token of %q was not accepted (or not spent)", pid), b)
				}
			}
		}
	}

	// ---------------- C12: accepted one-time values are removed durably ---------------------
	if route == "otplogin" && r.Panic == "" && !r.Injected {
		if u := pu(a.PID); u != nil && u.OTPs != "" {
			h := sha64(a.PW)
			preN, postN := 0, 0
			for _, x := range strings.Split(u.OTPs, ",") {
				if x == h {
					preN++
				}
			}
			if u1 := m.W.Store.Users[a.PID]; u1 != nil && u1.OTPs != "" {
				for _, x := range strings.Split(u1.OTPs, ",") {
					if x == h {
						postN++
					}
				}
			}
			accepted := newU == a.PID && newU != oldU || post.Sess["totp_pending"] == a.PID && pre.sess["totp_pending"] != a.PID ||
				post.Sess["sms_pending"] == a.PID && pre.sess["sms_pending"] != a.PID
			if preN > 0 && accepted && postN != preN-1 {
				m.violate("C12", "otp-not-removed", fmt.Sprintf("a one-time password of %q was accepted (login issued or parked for 2FA) but is still in storage", a.PID), b)
			}
		}
	}
	if cfg.OneTime && a.Code != "" && a.RCode == "" && r.Panic == "" && !r.Injected {
		if route == "totpconfirm" && oldU != "" {
			if u0, u1 := pu(oldU), m.W.Store.Users[oldU]; u0 != nil && u1 != nil && u0.TOTPSecretKey == "" && u1.TOTPSecretKey != "" && u1.TOTPLastCode != a.Code {
				m.violate("C12", "totp-lastcode-confirm", "with replay protection the code that confirmed TOTP enrolment was not stored as the last used code", b)
			}
		}
		if route == "totpvalidate" && newU != "" && newU != oldU && !(mwAuth0 && post.Sess["halfauth"] == "true") {
			if u1 := m.W.Store.Users[newU]; u1 != nil && u1.TOTPLastCode != a.Code {
				m.violate("C12", "totp-lastcode-validate", "with replay protection an accepted TOTP code was not stored as the last used code", b)
			}
		}
	}
	if (route == "totpvalidate" || route == "smsvalidate" || route == "totpremove" || route == "smsremove") && a.RCode != "" && r.Panic == "" && !r.Injected {
		who := newU
		if who == "" || who == oldU {
			who = oldU
		}
		if u0, u1 := pu(who), m.W.Store.Users[who]; u0 != nil && u1 != nil && recCodeValid(u0, a.RCode) {
			acceptedRec := (route == "totpvalidate" || route == "smsvalidate") && newU != "" && newU != oldU && !(mwAuth0 && post.Sess["halfauth"] == "true") ||
				route == "totpremove" && u0.TOTPSecretKey != "" && u1.TOTPSecretKey == "" || route == "smsremove" && u0.SMSPhoneNumber != "" && u1.SMSPhoneNumber == ""
			if acceptedRec && recCodeValid(u1, a.RCode) && strings.Count(u1.RecoveryCodes, ",") >= strings.Count(u0.RecoveryCodes, ",") && u0.RecoveryCodes != "" {
				m.violate("C12", "reccode-not-removed", fmt.Sprintf("a recovery code of %q was accepted but is still in storage", who), b)
			}
		}
	}

	// ---------------- C06: a password change revokes the old credentials -------------------
	for pid, u0 := range pre.users {
		u1 := m.W.Store.Users[pid]
		if u1 == nil || u1.Password == u0.Password {
			continue
		}
		// pid's password changed in this request: every cookie issued to pid so far is revoked
		for ck, owner := range m.cookieOwner {
			if owner == pid {
				m.revoked[ck] = true
			}
		}
		if cfg.Has("remember") && len(m.W.Store.Tokens[pid]) != 0 && r.Panic == "" && !r.Injected {
			m.violate("C06", "tokens-kept", fmt.Sprintf("the password of %q was changed but its remember tokens still work", pid), b)
		}
		if u1.RecoverSelector != "" || u1.RecoverVerifier != "" {
			m.violate("C06", "token-not-spent", fmt.Sprintf("the password of %q was changed but the recovery token is still outstanding", pid), b)
		}
		if a.PW != "" && bcrypt.CompareHashAndPassword([]byte(u1.Password), []byte(a.PW)) != nil {
			m.violate("C06", "hash-mismatch", "the stored hash does not verify the new password", b)
		}
		for other, toks := range pre.tokens {
			if other != pid && other != cookiePIDOf(pre) && len(m.W.Store.Tokens[other]) != len(toks) {
				m.violate("C06", "other-account", fmt.Sprintf("changing the password of %q changed the remember tokens of %q", pid, other), b)
			}
		}
		for other, o0 := range pre.users {
			if o1 := m.W.Store.Users[other]; other != pid && o1 != nil && o1.Password != o0.Password {
				m.violate("C06", "other-account", fmt.Sprintf("changing the password of %q changed the password of %q", pid, other), b)
			}
		}
	}

	// F9 bookkeeping: a login parked for a new account while the SMS send was suppressed leaves
	// the previous code in the session
	if len(r.NewSMS) > 0 {
		m.staleSecret[b] = false
	} else if post.Sess["sms_pending"] != "" && post.Sess["sms_pending"] != pre.sess["sms_pending"] && pre.sess["sms_secret"] != "" {
		m.staleSecret[b] = true
	}

	// ---------------- C07: remember cookie -------------------------------------------------
	rememberOn := cfg.RememberMW && cfg.Has("remember")
	issued := 0
	for _, e := range r.CookEv {
		if e.K == int(authboss.ClientStateEventPut) && e.Key == "rm" {
			issued++
		}
	}
	// the pid the presented cookie names (whatever identity the request ends with)
	cookiePID := ""
	if raw, err := base64.URLEncoding.DecodeString(pre.cook["rm"]); err == nil && len(raw) >= 33 {
		cookiePID = string(raw[:len(raw)-33])
	}
	mwAuth := rememberOn && oldU == "" && cookiePID != "" && rememberLicence(pre, cookiePID)
	if mwAuth && newU == cookiePID && m.revoked[pre.cook["rm"]] {
		m.violate("C07", "revoked-cookie", fmt.Sprintf("a remember cookie of %q issued before its password was changed still authenticated", cookiePID), b)
	}
	for _, e := range r.CookEv {
		if e.K == int(authboss.ClientStateEventPut) && e.Key == "rm" {
			if raw, err := base64.URLEncoding.DecodeString(e.Val); err == nil && len(raw) >= 33 {
				m.cookieOwner[e.Val] = string(raw[:len(raw)-33])
			}
		}
	}
	if r.Wrote && r.Panic == "" {
		asked := a.RM
		if route == "oend" {
			asked = strings.Contains(pre.sess["oauth2_params"], `"rm":"true"`)
		}
		if issued > 0 && !mwAuth && !asked {
			m.violate("C07", "issue-unasked", fmt.Sprintf("a remember cookie was issued by a %s request that did not ask to be remembered", route), b)
		}
		if mwAuth {
			if post.Sess["halfauth"] != "true" && newU == cookiePID && !(route == "login" || route == "otplogin" || route == "oend" || route == "totpvalidate" || route == "smsvalidate" || route == "logout") {
				m.violate("C07", "no-halfauth", "a remember-cookie login did not mark the session half-authenticated", b)
			}
			if post.Cook["rm"] == pre.cook["rm"] && route != "logout" {
				m.violate("C07", "no-rotation", "a used remember cookie was not rotated", b)
			}
		}
		if rememberOn && oldU == "" && pre.cook["rm"] != "" && !mwAuth && issued == 0 && post.Cook["rm"] == pre.cook["rm"] {
			m.violate("C07", "bad-cookie-kept", "an unknown / malformed / used remember cookie was neither accepted nor deleted from the client", b)
		}
		if newU != "" && newU != oldU && !mwAuth && post.Sess["halfauth"] != "" &&
			(route == "login" || route == "otplogin" || route == "oend" || route == "totpvalidate" || route == "smsvalidate") {
			m.violate("C07", "halfauth-kept", "a full login left the half-auth mark in the session", b)
		}
	}

	// ---------------- C10: logout ------------------------------------------------------------
	if route == "logout" && cfg.Has("logout") && (a.Method == "" || a.Method == cfg.LogoutMethod) && r.Wrote && r.Panic == "" {
		wl := map[string]bool{"flash_success": true}
		for _, k := range cfg.Whitelist {
			wl[k] = true
		}
		for k := range post.Sess {
			if !wl[k] || k == "uid" || k == "halfauth" || k == "last_action" {
				m.violate("C10", "left:"+k, fmt.Sprintf("after logout the session still holds %q", k), b)
			}
		}
		for _, k := range cfg.Whitelist {
			if v, ok := pre.sess[k]; ok && k != "uid" && k != "halfauth" && k != "last_action" && k != "flash_success" && post.Sess[k] != v {
				m.violate("C10", "whitelist-lost", fmt.Sprintf("logout dropped or changed the whitelisted key %q", k), b)
			}
		}
		if _, ok := post.Cook["rm"]; ok {
			m.violate("C10", "cookie-kept", "after logout the remember cookie is still set", b)
		}
	}
	if route == "logout" && cfg.Has("logout") && a.Method != "" && a.Method != cfg.LogoutMethod && oldU != "" && newU == "" && !cfg.ExpireMW {
		m.violate("C10", "wrong-method", "logout reacted to an HTTP method other than the configured one", b)
	}

	// ---------------- C09: idle expiry (harness' own record of the last activity) ---------------
	if m.lastAct == nil {
		m.lastAct = map[string]time.Time{}
	}
	if cfg.ExpireMW && oldU != "" && (route == "open") && r.Panic == "" && r.Probe != nil && r.Probe.Ran {
		if t0, ok := m.lastAct[b]; ok && m.lastActU[b] == oldU && pre.now.Sub(t0) < cfg.ExpireAfter-time.Second && pre.sess["last_action"] != "" {
			if r.Probe.PID != oldU {
				m.violate("C09", "early-expiry", fmt.Sprintf("the session was idle for %v (< ExpireAfter %v) but was served as unauthenticated", pre.now.Sub(t0), cfg.ExpireAfter), b)
			}
		}
		// K1: the stamp is stored with one-second resolution, so up to a second of the idle time can be lost
		if t0, ok := m.lastAct[b]; ok && m.lastActU[b] == oldU && pre.now.Sub(t0) < cfg.ExpireAfter && pre.now.Sub(t0) >= cfg.ExpireAfter-time.Second &&
			pre.sess["last_action"] != "" && r.Probe.PID != oldU {
			m.violate("C09", "stamp-truncation", fmt.Sprintf("the session was idle for %v (< ExpireAfter %v, within the last second) but was served as unauthenticated", pre.now.Sub(t0), cfg.ExpireAfter), b)
		}
	}
	if !r.Wrote || r.Panic != "" {
		// nothing was flushed: the stamp in the jar is the one of the previous request, so is the harness' record
	} else if post.Sess["uid"] != "" && post.Sess["last_action"] != "" {
		if m.lastActU == nil {
			m.lastActU = map[string]string{}
		}
		m.lastAct[b], m.lastActU[b] = pre.now, post.Sess["uid"]
	} else {
		delete(m.lastAct, b)
	}

	// ---------------- C09: idle expiry ---------------------------------------------------------
	if cfg.ExpireMW && oldU != "" && pre.sess["last_action"] != "" && (route == "prot" || route == "open") && r.Panic == "" {
		if st, err := time.Parse(time.RFC3339, pre.sess["last_action"]); err == nil {
			idle := pre.now.Sub(st)
			wl := map[string]bool{}
			for _, k := range cfg.Whitelist {
				wl[k] = true
			}
			if idle >= cfg.ExpireAfter+time.Second {
				if r.Probe != nil && r.Probe.Ran {
					if r.Probe.PID != "" && !wl["uid"] {
						m.violate("C09", "user-visible", "a request arriving after the idle deadline was served with a current user", b)
					}
					for k := range r.Probe.Seen {
						if !wl[k] {
							m.violate("C09", "state-visible:"+k, fmt.Sprintf("downstream handler could read non-whitelisted session value %q of an expired session", k), b)
						}
					}
				}
				if r.Wrote {
					for k := range post.Sess {
						if (!wl[k] || k == "uid" || k == "last_action") && k != "flash_error" && k != "flash_success" {
							m.violate("C09", "jar-left:"+k, fmt.Sprintf("the response to an expired session left %q in the session", k), b)
						}
					}
					for _, k := range cfg.Whitelist {
						if v, ok := pre.sess[k]; ok && k != "uid" && k != "last_action" && post.Sess[k] != v {
							m.violate("C09", "whitelist-lost", fmt.Sprintf("expiry dropped the whitelisted key %q", k), b)
						}
					}
				}
			} else if idle < cfg.ExpireAfter {
				if route == "open" && r.Probe != nil && r.Probe.Ran && r.Probe.PID != oldU {
					m.violate("C09", "early-expiry", "a request arriving before the idle deadline was not served as the session's user", b)
				}
			}
		}
	}

	// ---------------- C14 -----------------------------------------------------------------------------
	if route == "oend" {
		if newU != "" && newU != oldU && !(a.State != "" && pre.sess["oauth2_state"] == a.State) && !mwAuth {
			m.violate("C14", "state-mismatch", fmt.Sprintf("a callback whose state %q is not the session's own state %q logged the browser in", a.State, pre.sess["oauth2_state"]), b)
		}
		if a.State != "" && pre.sess["oauth2_state"] == a.State && r.Wrote && r.Panic == "" && post.Sess["oauth2_state"] == a.State {
			m.violate("C14", "state-kept", "the OAuth2 state survived a callback that matched it", b)
		}
		if d, ok := m.W.OAuth[a.OCode]; ok && newU != "" && newU != oldU && !mwAuth {
			if want := "oauth2;;" + a.Prov + ";;" + d["uid"]; newU != want {
				m.violate("C14", "identity-mismatch", fmt.Sprintf("the provider reported (%s, %q) but the session identifies %q", a.Prov, d["uid"], newU), b)
			}
			pair := a.Prov + "\x00" + d["uid"]
			if m.pidOwner == nil {
				m.pidOwner = map[string]string{}
			}
			if prev, seen := m.pidOwner[newU]; seen && prev != pair {
				m.violate("C14", "pid-collision", fmt.Sprintf("two distinct (provider, uid) pairs %q and %q were given the same account identifier %q", prev, pair, newU), b)
			}
			m.pidOwner[newU] = pair
			if a.OErr != "" {
				m.violate("C14", "error-logs-in", "a provider-reported error still logged the browser in", b)
			}
		}
	}
	if route == "oend" && newU != "" && newU != oldU && a.State != "" {
		key := "oauthstate|" + a.State
		m.used[key]++
		if m.used[key] > 1 {
			m.violate("C14", "state-reuse", "an OAuth2 state value completed a second callback", b)
		}
		if post.Sess["oauth2_state"] == a.State {
			m.violate("C14", "state-kept", "the OAuth2 state survived the callback that matched it", b)
		}
	}

	// ---------------- C08: the access middleware -------------------------------------------------
	if route == "prot" && r.Panic == "" && !cfg.ExpireMW { // (with the expiry middleware in front, what the access middleware sees is C09's subject)
		_, half := pre.sess["halfauth"]
		_, twofa := pre.sess["twofactor"]
		pid := oldU
		if mwAuth0 {
			pid = cookiePID0
			// the remember middleware authenticated this very request: it is half-authenticated from here on
			half = true
		}
		reqOK := !(a.Reqs&1 == 1 && half) && !(a.Reqs&2 == 2 && !twofa)
		_, known := pre.users[pid]
		storageErr := r.Injected
		ran := r.Probe != nil && r.Probe.Ran
		want := reqOK && pid != "" && known && !storageErr
		full := fmt.Sprintf("/p/%d/%d/%d%s", a.Reqs, a.Fail, a.MP, a.Path)
		if u, err := url.Parse(full); err == nil {
			full = u.Path
		}
		if ran != want && !storageErr {
			m.violate("C08", "admission", fmt.Sprintf("middleware reqs=%d fail=%d: handler ran=%v but requirements met=%v user known=%v (pid %q)", a.Reqs, a.Fail, ran, reqOK, known, pid), b)
		}
		if ran && r.Probe.PID != pid {
			m.violate("C08", "wrong-user", "the wrapped handler ran with a user other than the session's", b)
		}
		if !ran && !storageErr && !want {
			switch a.Fail {
			case 0:
				if r.Status != 404 {
					m.violate("C08", "refusal-404", fmt.Sprintf("refusal mode 404 answered %d", r.Status), b)
				}
			case 2:
				if r.Status != 401 {
					m.violate("C08", "refusal-401", fmt.Sprintf("refusal mode 401 answered %d", r.Status), b)
				}
			case 1:
				loc := r.Location
				if r.JSON != nil {
					if l, ok := r.JSON["location"].(string); ok {
						loc = l
					}
				}
				target := full
				if a.MP == 1 {
					target = path.Join("/auth", full)
				}
				if a.RawQuery != "" {
					target += "?" + a.RawQuery
				}
				u, err := url.Parse(loc)
				if err != nil || u.Path != "/auth/login" || u.Query().Get("redir") != target {
					m.violate("C08", "refusal-redirect", fmt.Sprintf("redirect refusal went to %q, expected the login page carrying %q", loc, target), b)
				}
			}
		}
		if storageErr && !ran && reqOK && pid != "" && r.Status != 500 && r.Wrote {
			m.violate("C08", "storage-error", fmt.Sprintf("a storage error answered %d instead of 500", r.Status), b)
		}
		if storageErr && ran {
			m.violate("C08", "storage-error-ran", "the handler ran although loading the user failed", b)
		}
	}

	// ---------------- C13: changes of 2FA settings -------------------------------------------
	if (route == "totpvalidate" || route == "smsvalidate") && a.RCode != "" && newU != "" && newU != oldU {
		m.usedRec[newU+"|"+a.RCode] = true // this recovery code has completed a login: it is used, whatever storage says
	}
	if r.Panic == "" && !r.Injected {
		_, half := pre.sess["halfauth"]
		for pid, u0 := range pre.users {
			u1 := m.W.Store.Users[pid]
			if u1 == nil {
				continue
			}
			totpChg := u1.TOTPSecretKey != u0.TOTPSecretKey
			smsChg := u1.SMSPhoneNumber != u0.SMSPhoneNumber
			recChg := u1.RecoveryCodes != u0.RecoveryCodes
			if !totpChg && !smsChg && !recChg {
				continue
			}
			owner := oldU == pid && !half
			emailOK := !cfg.EmailAuth || pre.sess["twofactor_authed"] == "true"
			why := ""
			switch route {
			case "totpconfirm":
				sec := pre.sess["totp_secret"]
				switch {
				case !owner:
					why = "not the fully authenticated owner"
				case !emailOK:
					why = "e-mail authorisation missing"
				case sec == "" || !totp.Validate(a.Code, sec):
					why = "no valid code for the secret being enrolled"
				case totpChg && u1.TOTPSecretKey != sec:
					why = "stored secret is not the one the code proved"
				case smsChg:
					why = "changed the SMS number"
				}
			case "smsconfirm":
				num := pre.sess["sms_number"]
				sentTo := ""
				for i := len(m.W.SMSs) - 1; i >= 0; i-- {
					if m.W.SMSs[i].Code == a.Code {
						sentTo = m.W.SMSs[i].Number
						break
					}
				}
				switch {
				case !owner:
					why = "not the fully authenticated owner"
				case !emailOK:
					why = "e-mail authorisation missing"
				case a.Code == "" || a.Code != pre.sess["sms_secret"]:
					why = "no valid code"
				case smsChg && u1.SMSPhoneNumber != num:
					why = "stored number is not the one in the session"
				case sentTo != num:
					why = "F9:the code was sent to " + sentTo + ", not to the number being enrolled " + num
				case totpChg:
					why = "changed the TOTP secret"
				}
			case "totpremove", "smsremove":
				valid := false
				if a.RCode != "" {
					valid = recCodeValid(u0, a.RCode) && !m.usedRec[pid+"|"+a.RCode]
				} else if route == "totpremove" {
					valid = u0.TOTPSecretKey != "" && totp.Validate(a.Code, u0.TOTPSecretKey)
				} else {
					valid = a.Code != "" && a.Code == pre.sess["sms_secret"]
				}
				if !owner {
					why = "not the fully authenticated owner"
				} else if !valid {
					why = "no current code or unused recovery code"
				}
			case "regen":
				if !owner {
					why = "not the fully authenticated owner"
				} else if totpChg || smsChg {
					why = "regenerate changed more than the recovery codes"
				}
			case "totpvalidate", "smsvalidate":
				// only the consumption of one valid recovery code
				if totpChg || smsChg || a.RCode == "" || !recCodeValid(u0, a.RCode) {
					why = "a login step changed 2FA settings other than consuming a valid recovery code"
				}
			default:
				why = "route " + route + " is not a 2FA settings route"
			}
			if why != "" {
				site := "settings:" + route
				if strings.HasPrefix(why, "F9:") {
					site = "sms-enrol-unbound"
				}
				m.violate("C13", site, fmt.Sprintf("2FA settings of %q changed by a %s request: %s", pid, route, why), b)
			}
		}
		// e-mail authorisation mark
		if post.Sess["twofactor_authed"] == "true" && pre.sess["twofactor_authed"] != "true" {
			tok := pre.sess["twofactor_auth_token"]
			if route != "vend" || tok == "" || a.Token != tok || m.Secrets[tok] != "mailtoken:verify" {
				m.violate("C13", "email-mark", "the e-mail authorisation mark was set without presenting the token mailed for this session", b)
			}
		}
		if (route == "totpconfirm" || route == "smsconfirm") && cfg.EmailAuth && pre.sess["twofactor_authed"] == "true" && post.Sess["twofactor_authed"] == "true" {
			if u0, u1 := pu(oldU), m.W.Store.Users[oldU]; u0 != nil && u1 != nil && (u0.TOTPSecretKey != u1.TOTPSecretKey || u0.SMSPhoneNumber != u1.SMSPhoneNumber) {
				m.violate("C13", "email-mark-not-spent", "a completed enrolment did not spend the e-mail authorisation", b)
			}
		}
	}

	// ---------------- C17: no secret in storage or logs ------------------------------------------
	if len(m.Secrets) > 0 {
		m.scanLogs(r, b)
		for pid, u := range m.W.Store.Users {
			if p0 := pre.users[pid]; p0 != nil && p0.Password == u.Password && p0.ConfirmSelector == u.ConfirmSelector && p0.RecoverSelector == u.RecoverSelector &&
				p0.OTPs == u.OTPs && p0.RecoveryCodes == u.RecoveryCodes && len(u.Arbitrary) == len(p0.Arbitrary) {
				continue // unchanged since the last scan
			}
			fields := []string{u.Password, u.ConfirmSelector, u.ConfirmVerifier, u.RecoverSelector, u.RecoverVerifier, u.OTPs, u.RecoveryCodes}
			for _, v := range u.Arbitrary {
				fields = append(fields, v)
			}
			for sec, kind := range m.Secrets {
				if kind == "sms-code" || len(sec) < 6 {
					continue
				}
				for _, f := range fields {
					if strings.Contains(f, sec) {
						m.violate("C17", "store:"+kind, fmt.Sprintf("storage holds a %s of %q in recoverable form", kind, pid), b)
					}
				}
			}
		}
		for tpid, toks := range m.W.Store.Tokens {
			for _, t := range toks {
				for sec, kind := range m.Secrets {
					if kind == "remember-cookie" && strings.Contains(t, sec) {
						m.violate("C17", "store:remember", fmt.Sprintf("a remember cookie value of %q is stored unhashed", tpid), b)
					}
				}
			}
		}
		m.checkMailRecipients(r, b)
	}

	// ---------------- C15: wherever a response sends the browser, it is on this site ----------------
	if r.Panic == "" && route != "ostart" {
		loc := r.Location
		if r.JSON != nil {
			if l, ok := r.JSON["location"].(string); ok && l != "" {
				loc = l
			}
		}
		if loc != "" && urlspec.OffSite(loc) {
			m.violate("C15", "flow:"+route, fmt.Sprintf("a %s response sends the browser to %q", route, loc), b)
		}
	}

	// ---------------- C04: every authentication failure is counted ---------------------------------
	if cfg.Has("lock") && r.Panic == "" && !mwAuth0 && !cfg.ExpireMW { // (an expired session hides the pending login: C09's subject)
		m.checkFailureCounted(b, route, a, pre)
	}

	// ---------------- C19: registration ---------------------------------------------------------
	if route == "register" && cfg.Has("register") && r.Panic == "" {
		m.checkRegister(b, a, pre, r)
	}

	// ---------------- C03: lock / confirm middlewares ----------------------------------
	if (route == "lockmw" || route == "confirmmw" || route == "rootmw") && r.Probe != nil && r.Probe.Ran {
		if u := pu(r.Probe.PID); u != nil {
			if route == "rootmw" && (u.Locked.After(pre.now) || !u.Confirmed) {
				m.violate("C03", "root.Middleware", "lock/confirm middlewares on the site root passed a locked or unconfirmed user to the wrapped handler", b)
			}
			if route == "lockmw" && u.Locked.After(pre.now) {
				m.violate("C03", "lock.Middleware", "lock middleware passed a locked user to the wrapped handler", b)
			}
			if route == "confirmmw" && !u.Confirmed {
				m.violate("C03", "confirm.Middleware", "confirm middleware passed an unconfirmed user to the wrapped handler", b)
			}
		}
	}
}

// issued: how many times the harness saw this exact one-time value issued (a recovery code or
// OTP value may legitimately be issued again by a later generate / seed).
func (m *M) issued(key string) int {
	if n, ok := m.issuedN[key]; ok && n > 0 {
		return n
	}
	return 1
}

func cookiePIDOf(pre *snapshot) string {
	if raw, err := base64.URLEncoding.DecodeString(pre.cook["rm"]); err == nil && len(raw) >= 33 {
		return string(raw[:len(raw)-33])
	}
	return ""
}

// credHashes: every stored credential hash of a snapshot / the live store, keyed by kind.
func credHashesOf(users map[string]*world.User, tokens map[string][]string) map[string]string {
	out := map[string]string{}
	for pid, u := range users {
		for _, h := range strings.Split(u.OTPs, ",") {
			if h != "" {
				out["otp|"+pid+"|"+h] = "one-time password"
			}
		}
		for _, h := range strings.Split(u.RecoveryCodes, ",") {
			if h != "" {
				out["rec|"+pid+"|"+h] = "recovery code"
			}
		}
		if u.RecoverSelector != "" {
			out["rsel|"+pid+"|"+u.RecoverSelector+"|"+u.RecoverVerifier] = "recovery token"
		}
		if u.ConfirmSelector != "" {
			out["csel|"+pid+"|"+u.ConfirmSelector+"|"+u.ConfirmVerifier] = "confirmation token"
		}
	}
	for pid, ts := range tokens {
		for _, t := range ts {
			out["rm|"+pid+"|"+t] = "remember token"
		}
	}
	return out
}

// trackSpent records credentials that left storage, and (C18) flags one that comes back in a
// request in which a backend call failed.
func (m *M) trackSpent(pre *snapshot, injected bool, route, b string) {
	before := credHashesOf(pre.users, pre.tokens)
	after := credHashesOf(m.W.Store.Users, m.W.Store.Tokens)
	for k, kind := range after {
		if _, ok := before[k]; !ok && m.spent[k] && injected {
			m.violate("C18", "resurrect:"+strings.SplitN(k, "|", 2)[0], fmt.Sprintf("a spent %s is back in storage after a %s request in which a backend call failed", kind, route), b)
		}
	}
	for k := range before {
		if _, ok := after[k]; !ok {
			m.spent[k] = true
		}
	}
}

// checkFault: the C18 monitors, for a request in which an injected backend failure was hit.
func (m *M) checkFault(b, route string, a Args, pre *snapshot, r *world.Result, f *world.Fault) {
	post := m.W.B(b)
	oldU, newU := pre.sess["uid"], post.Sess["uid"]
	cfg := m.Cfg
	call := "?"
	if f.At >= 0 && f.At < len(r.Calls) {
		call = r.Calls[f.At]
	}
	if r.Panic != "" {
		site := "panic:" + route + ":" + call
		if (route == "lockmw" || route == "confirmmw" || route == "rootmw") &&
			(strings.HasPrefix(r.Panic, "user not found") || strings.HasPrefix(r.Panic, "injected Load failure")) {
			// lock.Middleware / confirm.Middleware could not load the current user (whatever made the load fail)
			site = "panic:" + route + ":Load"
		}
		m.violate("C18", site, fmt.Sprintf("panic when backend call %d (%s) of a %s request fails (%s): %s", f.At, call, route, f.Kind, strings.SplitN(r.Panic, "\n", 2)[0]), b)
		return
	}
	cookiePID0 := cookiePIDOf(pre)
	mwAuth0 := cfg.RememberMW && cfg.Has("remember") && oldU == "" && cookiePID0 != "" && rememberLicence(pre, cookiePID0)
	issued := newU != "" && newU != oldU
	// one-time password accepted (session or 2FA parking) while it is still stored
	if route == "otplogin" {
		if u := pre.users[a.PID]; u != nil && u.OTPs != "" {
			h := sha64(a.PW)
			preN, postN := strings.Count(","+u.OTPs+",", ","+h+","), 0
			if u1 := m.W.Store.Users[a.PID]; u1 != nil {
				postN = strings.Count(","+u1.OTPs+",", ","+h+",")
			}
			accepted := issued && newU == a.PID || post.Sess["totp_pending"] == a.PID && pre.sess["totp_pending"] != a.PID ||
				post.Sess["sms_pending"] == a.PID && pre.sess["sms_pending"] != a.PID
			if preN > 0 && accepted && postN >= preN {
				m.violate("C18", "unconsumed:otp", fmt.Sprintf("backend call %d (%s) failed, yet the one-time password of %q was accepted while it is still in storage", f.At, call, a.PID), b)
			}
		}
	}
	// remember cookie accepted while its token is still stored
	if issued && mwAuth0 && newU == cookiePID0 && rememberLicenceLive(m, pre, cookiePID0) {
		m.violate("C18", "unconsumed:remember", fmt.Sprintf("backend call %d (%s) failed, yet the remember cookie of %q logged in while its token is still in storage", f.At, call, newU), b)
	}
	// (C07 under faults) a remember-cookie login is never more than half-authenticated
	if issued && mwAuth0 && newU == cookiePID0 && post.Sess["halfauth"] != "true" && r.Wrote &&
		!(route == "login" || route == "otplogin" || route == "oend" || route == "totpvalidate" || route == "smsvalidate" || route == "logout") {
		m.violate("C07", "no-halfauth", fmt.Sprintf("backend call %d (%s) failed, and the remember-cookie login of %q is not marked half-authenticated", f.At, call, newU), b)
	}
	// (C01 under faults) a new session identity still needs a valid credential of that user
	if issued && r.Wrote {
		lic := m.licenceOf(route, a, pre, newU)
		if mwAuth0 && newU == cookiePID0 {
			lic = "remember"
		}
		if lic == "" {
			m.violate("C01", "route:"+route, fmt.Sprintf("backend call %d (%s) failed, and browser %s became logged in as %q by a %s request that proved no valid credential of that user", f.At, call, b, newU, route), b)
		}
	}
	// (C08 under faults) a storage error while loading the user: 500, and the wrapped handler does not run
	if route == "prot" && call == "Load" && f.Kind == "generic" && !cfg.ExpireMW {
		if r.Probe != nil && r.Probe.Ran {
			m.violate("C08", "storage-error-ran", "the user could not be loaded (storage error), yet the wrapped handler ran", b)
		}
		if r.Status != 500 {
			m.violate("C08", "storage-error-status", fmt.Sprintf("the user could not be loaded (storage error): status %d instead of 500", r.Status), b)
		}
	}
	// the SMS sender failed: every caller of SendCodeToUser hands the error on, so the request
	// ends with the error handler's outcome (500, or with the silent default handler: nothing at all)
	errOutcome := r.Status == 500 || (!cfg.Err500 && r.Location == "" && len(r.Pages) == 0 && strings.TrimSpace(r.Body) == "")
	// the tokens of the remember cookies could not be deleted after a password reset: the old
	// cookies still log in, so the request must not report the reset as done
	if route == "recend" && call == "DelRememberTokens" && !errOutcome {
		for pid, u0 := range pre.users {
			if u1 := m.W.Store.Users[pid]; u1 != nil && u1.Password != u0.Password && len(m.W.Store.Tokens[pid]) >= len(pre.tokens[pid]) {
				m.violate("C18", "fake-success:reset-tokens", fmt.Sprintf("deleting the remember tokens of %q failed (backend call %d) after its password was reset, yet the response is not an error outcome: status %d location %q", pid, f.At, r.Status, r.Location), b)
			}
		}
	}
	if call == "SMS" {
		if !errOutcome {
			m.violate("C18", "fake-success:sms", fmt.Sprintf("the SMS sender failed (backend call %d) in a %s request, yet the response is not an error outcome: status %d location %q pages %v", f.At, route, r.Status, r.Location, r.Pages), b)
		}
	}
	// (C17 under faults) nothing the harness typed or was shown may turn up in a log line
	m.scanLogs(r, b)
	m.checkMailRecipients(r, b)
	// recovery code accepted while still stored
	if (route == "totpvalidate" || route == "smsvalidate") && a.RCode != "" && issued && !(mwAuth0 && post.Sess["halfauth"] == "true") {
		if u0, u1 := pre.users[newU], m.W.Store.Users[newU]; u0 != nil && u1 != nil && recCodeValid(u0, a.RCode) && recCodeValid(u1, a.RCode) &&
			strings.Count(u1.RecoveryCodes, ",") >= strings.Count(u0.RecoveryCodes, ",") {
			m.violate("C18", "unconsumed:reccode", fmt.Sprintf("backend call %d (%s) failed, yet a recovery code of %q completed the login while it is still in storage", f.At, call, newU), b)
		}
	}
	// security state never gets weaker by a failing request
	for pid, u0 := range pre.users {
		u1 := m.W.Store.Users[pid]
		if u1 == nil {
			m.violate("C18", "weaken:account-gone", fmt.Sprintf("account %q disappeared in a failing %s request", pid, route), b)
			continue
		}
		if u1.Confirmed && !u0.Confirmed && route != "confirm" {
			m.violate("C18", "weaken:confirmed", fmt.Sprintf("account %q became confirmed in a failing %s request", pid, route), b)
		}
		if u0.Locked.After(pre.now) && u1.Locked.Before(u0.Locked) {
			m.violate("C18", "weaken:lock", fmt.Sprintf("the lock of %q was shortened in a failing %s request", pid, route), b)
		}
		if u0.TOTPSecretKey != "" && u1.TOTPSecretKey == "" && route != "totpremove" {
			m.violate("C18", "weaken:totp", fmt.Sprintf("TOTP of %q was switched off in a failing %s request", pid, route), b)
		}
		if u0.SMSPhoneNumber != "" && u1.SMSPhoneNumber == "" && route != "smsremove" {
			m.violate("C18", "weaken:sms", fmt.Sprintf("SMS 2FA of %q was switched off in a failing %s request", pid, route), b)
		}
		if u1.Password != u0.Password && route != "recend" {
			m.violate("C18", "weaken:password", fmt.Sprintf("the password of %q changed in a failing %s request", pid, route), b)
		}
	}
}

// rememberLicenceLive: the token of the cookie held before the request is still stored now.
func rememberLicenceLive(m *M, pre *snapshot, U string) bool {
	raw, err := base64.URLEncoding.DecodeString(pre.cook["rm"])
	if err != nil {
		return false
	}
	h := sha64(string(raw))
	for _, t := range m.W.Store.Tokens[U] {
		if t == h {
			return true
		}
	}
	return false
}

// checkMailRecipients (C17): a mailed token goes only to the address (or declared secondary
// addresses) of the account it belongs to.
func (m *M) checkMailRecipients(r *world.Result, b string) {
	for _, ml := range r.NewMail {
		if ml.Token == "" {
			continue
		}
		// whose token is it?
		var owner *world.User
		if raw, err := base64.URLEncoding.DecodeString(ml.Token); err == nil && len(raw) == 64 {
			sel := sha64(string(raw[:32]))
			for _, u := range m.W.Store.Users {
				if ml.Kind == "confirm" && u.ConfirmSelector == sel || ml.Kind == "recover" && u.RecoverSelector == sel {
					owner = u
				}
			}
		}
		for _, to := range ml.To {
			okTo := false
			for _, u := range m.W.Store.Users {
				if owner != nil && u != owner {
					continue
				}
				if u.Email == to {
					okTo = true
				}
				for _, sec := range u.Secondary {
					if sec == to {
						okTo = true
					}
				}
			}
			if !okTo {
				who := "no account's address"
				if owner != nil {
					who = fmt.Sprintf("not the address of %q (%q), whose token it is", owner.PID, owner.Email)
				}
				m.violate("C17", "mail-recipient", fmt.Sprintf("a mailed %s token went to %q: %s", ml.Kind, to, who), b)
			}
		}
	}
}

// shippedPolicy: the password rule the shipped body reader configures (8+ bytes, an upper, a lower,
// a digit, a symbol, no white space), restated with the unicode package.
func shippedPolicy(pw string) bool {
	var up, lo, dg, sy, ws int
	for _, c := range pw {
		switch {
		case unicode.IsLetter(c):
			if unicode.IsUpper(c) {
				up++
			} else {
				lo++
			}
		case unicode.IsDigit(c):
			dg++
		case unicode.IsSpace(c):
			ws++
		default:
			sy++
		}
	}
	return len(pw) >= 8 && up >= 1 && lo >= 1 && dg >= 1 && sy >= 1 && ws == 0
}

var shippedEmail = regexp.MustCompile(`.*@.*\.[a-z]+`)

// checkRegister (C19): the harness' own statement of what a registration request may do.
func (m *M) checkRegister(b string, a Args, pre *snapshot, r *world.Result) {
	post := m.W.B(b)
	oldU, newU := pre.sess["uid"], post.Sess["uid"]
	var created []string
	for pid := range m.W.Store.Users {
		if pre.users[pid] == nil {
			created = append(created, pid)
		}
	}
	// what was actually submitted (extra fields may override the standard ones)
	_, _, form := m.spec("register", a)
	subPW, hasPW := form["password"]
	subPW2, hasPW2 := form["confirm_password"]
	pw2ok := hasPW2 && subPW2 == subPW
	expected := hasPW && shippedPolicy(subPW) && pw2ok && a.PID != "" && shippedEmail.MatchString(a.PID)
	existed := pre.users[a.PID] != nil
	if len(created) > 1 || len(created) == 1 && created[0] != a.PID {
		m.violate("C19", "created-wrong", fmt.Sprintf("a registration for %q created %v", a.PID, created), b)
	}
	if !expected && len(created) > 0 {
		m.violate("C19", "invalid-created", fmt.Sprintf("a registration that fails validation (password sent=%v, meets the policy=%v, confirmation matches=%v, identifier valid=%v) created %v", hasPW, shippedPolicy(subPW), pw2ok, shippedEmail.MatchString(a.PID), created), b)
	}
	if expected && !existed && len(created) == 0 && r.Wrote {
		m.violate("C19", "valid-rejected", fmt.Sprintf("a valid registration for the new identifier %q created nothing", a.PID), b)
	}
	for pid, u0 := range pre.users {
		u1 := m.W.Store.Users[pid]
		if u1 == nil {
			m.violate("C19", "existing-touched", fmt.Sprintf("a registration request removed the account %q", pid), b)
			continue
		}
		if m.userLine(u0) != m.userLine(u1) {
			m.violate("C19", "existing-touched", fmt.Sprintf("a registration request for %q changed the existing account %q", a.PID, pid), b)
		}
	}
	byCookie := m.Cfg.RememberMW && m.Cfg.Has("remember") && oldU == "" && rememberLicence(pre, newU) // the remember middleware, not the registration
	if existed && newU != oldU && newU != "" && !byCookie {
		m.violate("C19", "existing-login", fmt.Sprintf("registering the existing identifier %q changed the session identity to %q", a.PID, newU), b)
	}
	if len(created) == 1 {
		u := m.W.Store.Users[created[0]]
		if bcrypt.CompareHashAndPassword([]byte(u.Password), []byte(subPW)) != nil {
			m.violate("C19", "hash-mismatch", "the stored hash of the new account does not verify the submitted password", b)
		}
		for k := range u.Arbitrary {
			if k != "email" {
				m.violate("C19", "extra-field", fmt.Sprintf("the non-whitelisted field %q was stored with the new account", k), b)
			}
		}
	}
}

// scanLogs (C17): no log line of this request contains a secret the harness typed or was shown
// (or a live token the server generated in a request whose mail then failed).
func (m *M) scanLogs(r *world.Result, b string) {
	for _, l := range r.LogLines {
		for sec, kind := range m.Secrets {
			if len(sec) < 6 {
				continue
			}
			// in the clear, URL-escaped (as in a mailed link), or without its base64 padding
			core := strings.TrimRight(sec, "=")
			if strings.Contains(l, sec) || strings.Contains(l, url.QueryEscape(sec)) || len(core) >= 20 && strings.Contains(l, core) {
				line := l
				if len(line) > 200 {
					line = line[:200] + "…"
				}
				m.violate("C17", "log:"+kind, fmt.Sprintf("a log line contains a %s in the clear: %q", kind, line), b)
			}
		}
	}
}

// licenceOf: which valid credential of U, if any, the request presented (the harness' own
// ground truth; "" = none).
func (m *M) licenceOf(route string, a Args, pre *snapshot, U string) string {
	cfg := m.Cfg
	oldU := pre.sess["uid"]
	pu := func(pid string) *world.User { return pre.users[pid] }
	lic := ""
	if cfg.RememberMW && cfg.Has("remember") && oldU == "" && rememberLicence(pre, U) {
		lic = "remember"
	}
	u := pu(U)
	switch route {
	case "login":
		if u != nil && a.PID == U && u.Password != "" && bcrypt.CompareHashAndPassword([]byte(u.Password), []byte(a.PW)) == nil {
		lic = "password"
		}
	case "otplogin":
		if u != nil && a.PID == U && u.OTPs != "" {
		for _, h := range strings.Split(u.OTPs, ",") {
			if h == sha64(a.PW) {
			lic = "otp"
			}
		}
		}
	case "register":
		if u == nil && a.PID == U {
		lic = "register"
		}
	case "recend":
		if u != nil && cfg.RecoverLogin {
		if raw, err := base64.URLEncoding.DecodeString(a.Token); err == nil && len(raw) == 64 &&
			u.RecoverSelector == sha64(string(raw[:32])) && u.RecoverVerifier == sha64(string(raw[32:])) && !pre.now.After(u.RecoverExpiry) {
			lic = "recover"
		}
		}
	case "oend":
		// (the identifier format is restated here on purpose, not taken from the library)
		if d, ok := m.W.OAuth[a.OCode]; ok && a.OErr == "" && a.State != "" && pre.sess["oauth2_state"] == a.State &&
		U == "oauth2;;"+a.Prov+";;"+d["uid"] {
		lic = "oauth2"
		}
	case "totpvalidate":
		started := pre.sess["totp_pending"] == U || oldU == U || (lic == "remember")
		if u != nil && started && ((a.RCode == "" && u.TOTPSecretKey != "" && totp.Validate(a.Code, u.TOTPSecretKey)) || (a.RCode != "" && recCodeValid(u, a.RCode))) {
		lic = "totp"
		}
	case "smsvalidate":
		started := pre.sess["sms_pending"] == U || oldU == U || (lic == "remember")
		if u != nil && started && ((a.RCode == "" && a.Code != "" && a.Code == pre.sess["sms_secret"]) || (a.RCode != "" && recCodeValid(u, a.RCode))) {
		lic = "sms"
		}
	}
	return lic
}

// checkFailureCounted (C04): a failed authentication attempt on any path (password, one-time
// password, TOTP code, SMS code, recovery code) against an existing account moves that account's
// counter exactly as the property says: to 1 after a pause longer than the window, else +1.
func (m *M) checkFailureCounted(b, route string, a Args, pre *snapshot) {
	cfg := m.Cfg
	oldU := pre.sess["uid"]
	var who string
	failed := false
	switch route {
	case "login":
		who = a.PID
		if u := pre.users[who]; u != nil && cfg.Has("auth") {
			failed = u.Password == "" || bcrypt.CompareHashAndPassword([]byte(u.Password), []byte(a.PW)) != nil
		}
	case "otplogin":
		who = a.PID
		if u := pre.users[who]; u != nil && cfg.Has("otp") {
			failed = !strings.Contains(","+u.OTPs+",", ","+sha64(a.PW)+",") || u.OTPs == ""
		}
	case "totpvalidate":
		who = oldU
		if who == "" {
			who = pre.sess["totp_pending"]
		}
		if u := pre.users[who]; u != nil && u.TOTPSecretKey != "" && cfg.Has("totp") {
			if a.RCode != "" {
				failed = !recCodeValid(u, a.RCode)
			} else {
				failed = !totp.Validate(a.Code, u.TOTPSecretKey) || (cfg.OneTime && u.TOTPLastCode == a.Code)
			}
		}
	case "smsvalidate":
		who = oldU
		if who == "" {
			who = pre.sess["sms_pending"]
		}
		if u := pre.users[who]; u != nil && cfg.Has("sms") {
			if a.RCode != "" {
				failed = !recCodeValid(u, a.RCode)
			} else if a.Code != "" && pre.sess["sms_secret"] != "" {
				failed = a.Code != pre.sess["sms_secret"]
			}
		}
	}
	if !failed {
		return
	}
	u0, u1 := pre.users[who], m.W.Store.Users[who]
	if u0 == nil || u1 == nil {
		return
	}
	want := u0.AttemptCount + 1
	if pre.now.Sub(u0.LastAttempt) > cfg.LockWindow {
		want = 1
	}
	if u1.AttemptCount != want {
		m.violate("C04", "failure-not-counted:"+route, fmt.Sprintf("a failed %s attempt against %q left the failure count at %d (was %d, expected %d)", route, who, u1.AttemptCount, u0.AttemptCount, want), b)
	}
}
