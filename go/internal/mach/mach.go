// Package mach runs operation sequences against the real instance (package world) and
// renders, for every operation, (a) the op line for the Lean machine — including the
// oracle data the model takes as parameters: randomness drawn by the real code, TOTP
// validity, field validation — and (b) the canonical observation of what the real code did.
package mach

import (
	"crypto/sha512"
	"encoding/base64"
	"encoding/json"
	"fmt"
	"net/http/httptest"
	"net/url"
	"sort"
	"strconv"
	"strings"
	"time"

	"github.com/pquerna/otp/totp"
	"github.com/volatiletech/authboss/v3"
	"golang.org/x/crypto/bcrypt"

	"verif/internal/wire"
	"verif/internal/world"
)

type Args struct {
	PID, PW, PW2   string
	NoPW2          bool
	NoPW           bool // register: the password field is not sent at all
	RM             bool
	RMVal          string // literal value of the rm parameter when it is present but not "true"
	Redir          string
	RedirFirst     string // ostart only: a decoy first value of a repeated redir parameter (the library keeps the last)
	Token          string
	Code, RCode    string
	Phone          string
	State, OErr    string
	OCode, Prov    string
	Extra          map[string]string
	RawQuery       string
	Path           string
	Reqs, Fail, MP int
	Method         string
	Kind           string // totp | sms for vstart/vend
}

type M struct {
	W   *world.World
	Cfg world.Cfg
	Out *wire.Out

	sha     map[string]string // base64(sha512(x)) -> x
	pwCands []string
	bc      map[string]string // bcrypt hash -> preimage ("" = unknown)
	recSets [][]string
	Secrets map[string]string // every secret the harness typed or was shown -> kind
	used     map[string]int
	issuedN  map[string]int
	smsIssue map[string]int // code -> how many times that code value has been sent
	pidOwner map[string]string
	smsOrigin   map[string]string
	cookieOwner map[string]string
	revoked     map[string]bool
	staleSecret map[string]bool
	spent       map[string]bool // stored credential hashes that have been removed from storage
	usedRec     map[string]bool // pid|recovery code that has completed a login (the harness' own record, not storage's)
	lastAct  map[string]time.Time
	lastActU map[string]string
	Last    *world.Result
	LastObs string
	LastOp  string
}

var txtNames map[string]string

func init() {
	txtNames = map[string]string{}
	add := func(k authboss.LocalizationKey, n string) { txtNames[k.Default] = n }
	add(authboss.TxtInvalidCredentials, "InvalidCredentials")
	add(authboss.TxtAuthFailed, "AuthFailed")
	add(authboss.TxtUserAlreadyExists, "UserAlreadyExists")
	add(authboss.TxtRegisteredAndLoggedIn, "RegisteredAndLoggedIn")
	add(authboss.TxtConfirmYourAccount, "ConfirmYourAccount")
	add(authboss.TxtAccountNotConfirmed, "AccountNotConfirmed")
	add(authboss.TxtInvalidConfirmToken, "InvalidConfirmToken")
	add(authboss.TxtConfrimationSuccess, "ConfrimationSuccess")
	add(authboss.TxtLocked, "Locked")
	add(authboss.TxtLoggedOut, "LoggedOut")
	add(authboss.TxtRecoverInitiateSuccessFlash, "RecoverInitiateSuccessFlash")
	add(authboss.TxtRecoverSuccessMsg, "RecoverSuccessMsg")
	add(authboss.TxtRecoverAndLoginSuccessMsg, "RecoverAndLoginSuccessMsg")
	add(authboss.TxtEmailVerifyTriggered, "EmailVerifyTriggered")
	add(authboss.TxtInvalid2FAVerificationToken, "Invalid2FAVerificationToken")
	add(authboss.Txt2FAAuthorizationRequired, "2FAAuthorizationRequired")
	add(authboss.TxtInvalid2FACode, "Invalid2FACode")
	add(authboss.TxtRepeated2FACode, "Repeated2FACode")
	add(authboss.TxtTOTP2FANotActive, "TOTP2FANotActive")
	add(authboss.TxtSMSNumberRequired, "SMSNumberRequired")
	add(authboss.TxtSMSWaitToResend, "SMSWaitToResend")
	txtNames["recovery token is invalid"] = "RecoveryTokenInvalid"
	txtNames["You cannot have more than 5 one time passwords"] = "TooManyOTPs"
	for _, p := range []string{"stub", "other"} {
		txtNames[fmt.Sprintf(authboss.TxtOAuth2LoginOK.Default, p)] = "OAuth2LoginOK"
		txtNames[fmt.Sprintf(authboss.TxtOAuth2LoginNotOK.Default, p)] = "OAuth2LoginNotOK"
	}
}

func TxtName(s string) string {
	if n, ok := txtNames[s]; ok {
		return n
	}
	return "?" + s
}

func dur(d time.Duration) string { return strconv.FormatInt(int64(d), 10) }

func keyName(k string) string {
	for _, n := range world.AllSessionKeys {
		if n == k {
			return k
		}
	}
	return "x" + wire.Hex(k)
}

// CfgLine renders the configuration for the Lean machine.
func CfgLine(c world.Cfg) string {
	wl := make([]string, len(c.Whitelist))
	for i, k := range c.Whitelist {
		wl[i] = keyName(k)
	}
	return fmt.Sprintf("mcfg units=%s json=%s la=%d lw=%s ld=%s ea=%s rd=%s rl=%s em=%s wl=%s ot=%s rmw=%s emw=%s e500=%s",
		strings.Join(c.Units, ","), wire.Bool(c.JSON), c.LockAfter, dur(c.LockWindow), dur(c.LockDuration), dur(c.ExpireAfter),
		dur(c.RecoverDuration), wire.Bool(c.RecoverLogin), wire.Bool(c.EmailAuth), strings.Join(wl, ","), wire.Bool(c.OneTime),
		wire.Bool(c.RememberMW && c.Has("remember")), wire.Bool(c.ExpireMW), wire.Bool(c.Err500))
}

func New(cfg world.Cfg, out *wire.Out) (*M, error) {
	w, err := world.New(cfg)
	if err != nil {
		return nil, err
	}
	m := &M{W: w, Cfg: cfg, Out: out, sha: map[string]string{}, bc: map[string]string{}, Secrets: map[string]string{},
		used: map[string]int{}, issuedN: map[string]int{}, smsIssue: map[string]int{},
		smsOrigin: map[string]string{}, cookieOwner: map[string]string{}, revoked: map[string]bool{}, staleSecret: map[string]bool{}, spent: map[string]bool{}, usedRec: map[string]bool{}}
	out.Add(CfgLine(cfg), "cfg-ok")
	return m, nil
}

func shaB64(x string) string {
	s := sha512.Sum512([]byte(x))
	return base64.StdEncoding.EncodeToString(s[:])
}

func (m *M) learn(x, kind string) {
	m.sha[shaB64(x)] = x
	if kind != "" {
		m.Secrets[x] = kind
	}
}

func (m *M) learnPW(p string) {
	for _, c := range m.pwCands {
		if c == p {
			return
		}
	}
	m.pwCands = append(m.pwCands, p)
	// (a stored hash replayed as a password is not a secret the user holds)
	if p != "" && !strings.HasPrefix(p, "$2a$") {
		m.Secrets[p] = "password"
	}
}

// ---- canonicalisation of stored values ------------------------------------------

func (m *M) unsha(h string) string {
	if h == "" {
		return "~"
	}
	if x, ok := m.sha[h]; ok {
		return wire.Hex(x)
	}
	return "?" + wire.Hex(h)
}

func (m *M) unbcrypt(h string, cands []string) string {
	if h == "" {
		return "-"
	}
	if x, ok := m.bc[h]; ok {
		return x
	}
	for i := len(cands) - 1; i >= 0; i-- {
		if bcrypt.CompareHashAndPassword([]byte(h), []byte(cands[i])) == nil {
			m.bc[h] = wire.Hex(cands[i])
			return m.bc[h]
		}
	}
	return "?" + wire.Hex(h)
}

func (m *M) recCodes(s string) string {
	if s == "" {
		return "[]"
	}
	hs := strings.Split(s, ",")
	out := make([]string, len(hs))
	for i, h := range hs {
		if x, ok := m.bc[h]; ok {
			out[i] = x
			continue
		}
		// generated sets keep their order: try the same index of the latest sets first
		found := ""
		for k := len(m.recSets) - 1; k >= 0 && found == ""; k-- {
			set := m.recSets[k]
			if len(set) == len(hs) && bcrypt.CompareHashAndPassword([]byte(h), []byte(set[i])) == nil {
				found = set[i]
			}
		}
		for k := len(m.recSets) - 1; k >= 0 && found == ""; k-- {
			for _, c := range m.recSets[k] {
				if bcrypt.CompareHashAndPassword([]byte(h), []byte(c)) == nil {
					found = c
					break
				}
			}
		}
		if found == "" {
			out[i] = "?" + wire.Hex(h)
		} else {
			m.bc[h] = wire.Hex(found)
			out[i] = m.bc[h]
		}
	}
	return "[" + strings.Join(out, ",") + "]"
}

func (m *M) tm(t time.Time) string {
	if t.IsZero() {
		return "z"
	}
	return strconv.FormatInt(int64(t.Sub(m.W.Epoch)), 10)
}

func (m *M) otps(s string) string {
	if s == "" {
		return "[]"
	}
	parts := strings.Split(s, ",")
	for i, p := range parts {
		parts[i] = m.unsha(p)
	}
	return "[" + strings.Join(parts, ",") + "]"
}

func (m *M) userLine(u *world.User) string {
	arb := []string{}
	for k, v := range u.Arbitrary {
		arb = append(arb, wire.Hex(k)+"~"+wire.Hex(v))
	}
	sort.Strings(arb)
	return strings.Join([]string{
		wire.Hex(u.PID), wire.Hex(u.Email), m.unbcrypt(u.Password, m.pwCands), wire.Bool(u.Confirmed),
		m.unsha(u.ConfirmSelector), m.unsha(u.ConfirmVerifier),
		strconv.Itoa(u.AttemptCount), m.tm(u.LastAttempt), m.tm(u.Locked),
		m.unsha(u.RecoverSelector), m.unsha(u.RecoverVerifier), m.tm(u.RecoverExpiry),
		m.otps(u.OTPs), wire.Hex(u.TOTPSecretKey), wire.Hex(u.TOTPLastCode), wire.Hex(u.SMSPhoneNumber),
		m.recCodes(u.RecoveryCodes), wire.Hex(u.OAuth2UID), wire.Hex(u.OAuth2Provider),
		"{" + strings.Join(arb, ",") + "}",
	}, "|")
}

func (m *M) StoreLine() string {
	var us []string
	for _, u := range m.W.Store.Users {
		us = append(us, m.userLine(u))
	}
	sort.Strings(us)
	var ts []string
	for pid, toks := range m.W.Store.Tokens {
		for _, t := range toks {
			h := m.unsha(t)
			if strings.HasPrefix(h, "?") {
				h = "?" // issued in a request whose response was never written: the nonce never left the server
			}
			ts = append(ts, wire.Hex(pid)+"~"+h)
		}
	}
	sort.Strings(ts)
	return "users=" + strings.Join(us, ";") + " tokens=" + strings.Join(ts, ";")
}

func (m *M) sessVal(k, v string) string {
	switch k {
	case authboss.SessionLastAction:
		t, err := time.Parse(time.RFC3339, v)
		if err != nil {
			return "?" + wire.Hex(v)
		}
		return wire.Hex(strconv.FormatInt(int64(t.Sub(m.W.Epoch)/time.Second), 10))
	case "sms_last":
		n, err := strconv.ParseInt(v, 10, 64)
		if err != nil {
			return "?" + wire.Hex(v)
		}
		return wire.Hex(strconv.FormatInt(n-m.W.Epoch.Unix(), 10))
	case authboss.FlashSuccessKey, authboss.FlashErrorKey:
		return wire.Hex(TxtName(v))
	case authboss.SessionOAuth2Params:
		var p map[string]string
		if json.Unmarshal([]byte(v), &p) != nil {
			return "?" + wire.Hex(v)
		}
		s := ""
		if p["rm"] == "true" {
			s += "rm=true;"
		}
		if p["redir"] != "" {
			s += "redir=" + p["redir"]
		}
		return wire.Hex(s)
	}
	return wire.Hex(v)
}

func (m *M) JarLine(b *world.Browser) string {
	var kv []string
	for k, v := range b.Sess {
		kv = append(kv, keyName(k)+"="+m.sessVal(k, v))
	}
	sort.Strings(kv)
	return strings.Join(kv, ",")
}

func cookieTok(b *world.Browser) string {
	v, ok := b.Cook["rm"]
	if !ok {
		return "none"
	}
	raw, err := base64.URLEncoding.DecodeString(v)
	if err != nil {
		return "garbage"
	}
	return "raw:" + wire.Hex(string(raw))
}

// ---- responses --------------------------------------------------------------------

func collectStrings(v interface{}, out *[]string) {
	switch x := v.(type) {
	case string:
		*out = append(*out, x)
	case []string:
		*out = append(*out, x...)
	case []interface{}:
		for _, e := range x {
			collectStrings(e, out)
		}
	case map[string][]string:
		for _, e := range x {
			*out = append(*out, e...)
		}
	case authboss.ErrorList:
		for _, e := range x {
			*out = append(*out, e.Error())
		}
	case map[string]interface{}:
		for _, e := range x {
			collectStrings(e, out)
		}
	default:
		b, _ := json.Marshal(v)
		var y interface{}
		if json.Unmarshal(b, &y) == nil {
			switch y.(type) {
			case string, []interface{}, map[string]interface{}:
				collectStrings(y, out)
			}
		}
	}
}

func tagFor(key string, v interface{}) string {
	if key != "error" && key != "errors" {
		return key
	}
	var ss []string
	collectStrings(v, &ss)
	sort.Strings(ss)
	for _, s := range ss {
		if n, ok := txtNames[s]; ok {
			return key + ":" + n
		}
	}
	return key + ":validation"
}

func canonLoc(loc string) string {
	if strings.HasPrefix(loc, "https://provider.test/auth") {
		return "provider"
	}
	return loc
}

func (m *M) respTok(r *world.Result) string {
	if r.Probe != nil && r.Probe.Ran {
		return "probe"
	}
	if !r.Wrote {
		return "none"
	}
	flash := func() (string, string) {
		ok, fl := "-", "-"
		for _, e := range r.SessEv {
			if e.K == int(authboss.ClientStateEventPut) {
				if e.Key == authboss.FlashSuccessKey {
					ok = TxtName(e.Val)
				}
				if e.Key == authboss.FlashErrorKey {
					fl = TxtName(e.Val)
				}
			}
		}
		return ok, fl
	}
	if r.JSON != nil {
		if loc, ok := r.JSON["location"].(string); ok && len(r.Pages) > 0 && r.Pages[0] == "redirect" {
			okT, flT := "-", "-"
			if msg, ok := r.JSON["message"].(string); ok {
				if r.JSON["status"] == "failure" {
					flT = TxtName(msg)
				} else {
					okT = TxtName(msg)
				}
			}
			return "redir:" + wire.Hex(canonLoc(loc)) + ":" + okT + ":" + flT
		}
	}
	if r.Status >= 300 && r.Status < 400 && r.Location != "" && len(r.Pages) == 0 {
		okT, flT := flash()
		return "redir:" + wire.Hex(canonLoc(r.Location)) + ":" + okT + ":" + flT
	}
	if len(r.Pages) > 0 {
		var tags []string
		for k, v := range r.Datas[0] {
			if k == "status" {
				continue
			}
			tags = append(tags, tagFor(k, v))
		}
		sort.Strings(tags)
		return "page:" + r.Pages[0] + ":" + strings.Join(tags, "+")
	}
	return fmt.Sprintf("status:%d", r.Status)
}

func stopTok(r *world.Result) string {
	if r.Panic != "" {
		return "panic"
	}
	for _, l := range r.LogLines {
		if strings.Contains(l, "[EROR]: request error") {
			return "err"
		}
	}
	return "?"
}

// ---- executing ops ----------------------------------------------------------------

func nonceOf(cookieVal string) string {
	raw, err := base64.URLEncoding.DecodeString(cookieVal)
	if err != nil || len(raw) < 32 {
		return ""
	}
	return string(raw[len(raw)-32:])
}

type routeSpec struct {
	method, path string
	page         string // body-reader page for the validity oracle ("" = none)
}

func (m *M) spec(route string, a Args) (routeSpec, url.Values, map[string]string) {
	q := url.Values{}
	form := map[string]string{}
	if a.Redir != "" && a.RedirFirst != "" && route == "ostart" {
		q["redir"] = []string{a.RedirFirst, a.Redir}
	} else if a.Redir != "" {
		q.Set("redir", a.Redir)
	}
	cred := func() {
		form["email"] = a.PID
		form["password"] = a.PW
		if a.RM {
			form["rm"] = "true"
		} else if a.RMVal != "" {
			form["rm"] = a.RMVal
		}
	}
	switch route {
	case "login":
		cred()
		return routeSpec{"POST", "/auth/login", ""}, q, form
	case "otplogin":
		cred()
		return routeSpec{"POST", "/auth/otp/login", ""}, q, form
	case "otpadd":
		return routeSpec{"POST", "/auth/otp/add", ""}, q, form
	case "otpclear":
		return routeSpec{"POST", "/auth/otp/clear", ""}, q, form
	case "register":
		form["email"] = a.PID
		if !a.NoPW {
			form["password"] = a.PW
		}
		if !a.NoPW2 {
			form["confirm_password"] = a.PW2
		}
		for k, v := range a.Extra {
			form[k] = v
		}
		return routeSpec{"POST", "/auth/register", "register"}, q, form
	case "confirm":
		form["cnf"] = a.Token
		return routeSpec{m.W.AB.Config.Modules.MailRouteMethod, "/auth/confirm", "confirm"}, q, form
	case "recstart":
		form["email"] = a.PID
		return routeSpec{"POST", "/auth/recover", "recover_start"}, q, form
	case "recend":
		form["token"] = a.Token
		form["password"] = a.PW
		if !a.NoPW2 {
			form["confirm_password"] = a.PW2
		}
		return routeSpec{"POST", "/auth/recover/end", "recover_end"}, q, form
	case "logout":
		meth := a.Method
		if meth == "" {
			meth = m.Cfg.LogoutMethod
		}
		return routeSpec{meth, "/auth/logout", ""}, q, nil
	case "ostart":
		if a.RM {
			q.Set("rm", "true")
		} else if a.RMVal != "" {
			q.Set("rm", a.RMVal)
		}
		return routeSpec{"GET", "/auth/oauth2/" + a.Prov, ""}, q, nil
	case "oend":
		q = url.Values{}
		if a.State != "" {
			q.Set("state", a.State)
		}
		if a.OCode != "" {
			q.Set("code", a.OCode)
		}
		if a.OErr != "" {
			q.Set("error", a.OErr)
		}
		return routeSpec{"GET", "/auth/oauth2/callback/" + a.Prov, ""}, q, nil
	case "totpgetsetup":
		return routeSpec{"GET", "/auth/2fa/totp/setup", ""}, q, nil
	case "totpsetup":
		return routeSpec{"POST", "/auth/2fa/totp/setup", ""}, q, form
	case "totpconfirm", "totpremove", "totpvalidate":
		form["code"] = a.Code
		if a.RCode != "" {
			form["recovery_code"] = a.RCode
		}
		return routeSpec{"POST", "/auth/2fa/totp/" + strings.TrimPrefix(route, "totp"), ""}, q, form
	case "smsgetsetup":
		return routeSpec{"GET", "/auth/2fa/sms/setup", ""}, q, nil
	case "smssetup":
		form["phone_number"] = a.Phone
		return routeSpec{"POST", "/auth/2fa/sms/setup", ""}, q, form
	case "smsconfirm", "smsremove", "smsvalidate":
		if a.Code != "" {
			form["code"] = a.Code
		}
		if a.RCode != "" {
			form["recovery_code"] = a.RCode
		}
		return routeSpec{"POST", "/auth/2fa/sms/" + strings.TrimPrefix(route, "sms"), ""}, q, form
	case "regen":
		return routeSpec{"POST", "/auth/2fa/recovery/regen", ""}, q, form
	case "vstart":
		return routeSpec{"POST", "/auth/2fa/" + a.Kind + "/email/verify", ""}, q, form
	case "vend":
		form["token"] = a.Token
		return routeSpec{m.W.AB.Config.Modules.MailRouteMethod, "/auth/2fa/" + a.Kind + "/email/verify/end", ""}, q, form
	case "prot":
		return routeSpec{"GET", fmt.Sprintf("/p/%d/%d/%d%s", a.Reqs, a.Fail, a.MP, a.Path), ""}, nil, nil
	case "open":
		return routeSpec{"GET", "/open/x", ""}, q, nil
	case "lockmw":
		return routeSpec{"GET", "/lockmw/x", ""}, q, nil
	case "confirmmw":
		return routeSpec{"GET", "/confirmmw/x", ""}, q, nil
	case "rootmw":
		return routeSpec{"GET", "/", ""}, q, nil
	}
	return routeSpec{"GET", "/auth/nope", ""}, q, nil
}

func (m *M) validOracle(page string, form map[string]string) bool {
	if page == "" {
		return true
	}
	var body string
	ct := "application/x-www-form-urlencoded"
	if m.Cfg.JSON {
		b, _ := json.Marshal(form)
		body, ct = string(b), "application/json"
	} else {
		v := url.Values{}
		for k, x := range form {
			v.Set(k, x)
		}
		body = v.Encode()
	}
	req := httptest.NewRequest("POST", "http://site.test/x", strings.NewReader(body))
	req.Header.Set("Content-Type", ct)
	val, err := m.W.AB.Config.Core.BodyReader.Read(page, req)
	if err != nil {
		return false
	}
	return len(val.Validate()) == 0
}

func hexList(l []string) string {
	out := make([]string, len(l))
	for i, s := range l {
		out[i] = wire.Hex(s)
	}
	return strings.Join(out, ",")
}

// HTTP runs one request and records op + observation.
func (m *M) HTTP(b, route string, a Args, fault *world.Fault) *world.Result {
	sp, q, form := m.spec(route, a)
	valid := m.validOracle(sp.page, form)
	if a.PW != "" {
		m.learnPW(a.PW)
	}
	// TOTP oracle is evaluated at request time (before the request: the clock does not move during it)
	var totpOK []string
	if a.Code != "" {
		seen := map[string]bool{}
		var cands []string
		for _, u := range m.W.Store.Users {
			cands = append(cands, u.TOTPSecretKey)
		}
		for _, br := range m.W.Browsers {
			cands = append(cands, br.Sess["totp_secret"])
		}
		sort.Strings(cands)
		for _, s := range cands {
			if s != "" && !seen[s] {
				seen[s] = true
				if totp.Validate(a.Code, s) {
					totpOK = append(totpOK, s)
				}
			}
		}
	}
	f := world.Fault{At: -1}
	if fault != nil {
		f = *fault
	}
	pre := m.snap(b)
	var r *world.Result
	if route == "prot" {
		target := sp.path
		if a.RawQuery != "" {
			target += "?" + a.RawQuery
		}
		ct := ""
		if m.Cfg.JSON {
			ct = "application/json"
		}
		r = m.W.DoRawStr(b, "GET", target, ct, "", f)
	} else {
		r = m.W.Do(b, sp.method, sp.path, q, form, f)
	}
	m.Last = r
	br := m.W.B(b)

	// ---- harvest what the real code drew / showed -------------------------------
	fresh, freshMw := "", ""
	var fresh2 []string
	for _, ml := range r.NewMail {
		m.Secrets[ml.Token] = "mailtoken:" + ml.Kind
		if ml.Kind == "verify" {
			fresh = ml.Token
		} else if raw, err := base64.URLEncoding.DecodeString(ml.Token); err == nil && len(raw) == 64 {
			fresh = string(raw)
			m.learn(string(raw[:32]), "")
			m.learn(string(raw[32:]), "")
		}
	}
	var puts []string
	mwRotated := false
	for _, e := range r.CookEv {
		if e.K == int(authboss.ClientStateEventPut) && e.Key == "rm" {
			puts = append(puts, e.Val)
			if raw, err := base64.URLEncoding.DecodeString(e.Val); err == nil {
				m.learn(string(raw), "")
				m.Secrets[e.Val] = "remember-cookie"
			}
		}
	}
	for _, e := range r.SessEv {
		if e.K != int(authboss.ClientStateEventPut) {
			continue
		}
		switch e.Key {
		case authboss.SessionHalfAuthKey:
			mwRotated = true
		case authboss.SessionOAuth2State, "totp_secret", "sms_secret", authboss.Session2FAAuthToken:
			fresh = e.Val
			if e.Key == "sms_secret" {
				m.Secrets[e.Val] = "sms-code"
			}
		}
	}
	if len(puts) > 0 {
		if mwRotated {
			freshMw = nonceOf(puts[0])
			if len(puts) > 1 {
				fresh = nonceOf(puts[1])
			}
		} else {
			fresh = nonceOf(puts[0])
		}
	}
	for _, d := range r.Datas {
		if o, ok := d["otp"].(string); ok {
			fresh = o
			m.learn(o, "otp")
		}
		if rc, ok := d["recovery_codes"].([]string); ok {
			fresh2 = rc
			m.recSets = append(m.recSets, rc)
			for _, c := range rc {
				m.Secrets[c] = "recovery-code"
			}
		}
	}
	for _, sm := range r.NewSMS {
		m.smsIssue[sm.Code]++
		origin := route
		if route == "login" || route == "otplogin" || route == "recend" {
			origin = "login-hijack"
		}
		m.smsOrigin[sm.Code] = origin
	}
	if fresh == "" && len(r.NewSMS) > 0 {
		fresh = r.NewSMS[len(r.NewSMS)-1].Code
	}
	// values the server drew and stored but which never left it (the render / send failed):
	// the harness leaf saw them in the call that failed
	if r.Injected {
		for _, d := range r.Seen {
			for _, key := range []string{"url", "recover_url"} {
				us, ok := d[key].(string)
				if !ok || fresh != "" {
					continue
				}
				if u, err := url.Parse(us); err == nil {
					tok := u.Query().Get("cnf")
					if tok == "" {
						tok = u.Query().Get("token")
					}
					if tok != "" {
						m.Secrets[tok] = "mailtoken:undelivered"
					}
					if strings.Contains(u.Path, "/email/verify/end") {
						fresh = tok
					} else if raw, err := base64.URLEncoding.DecodeString(tok); err == nil && len(raw) == 64 {
						fresh = string(raw)
						m.learn(string(raw[:32]), "")
						m.learn(string(raw[32:]), "")
					}
				}
			}
			if o, ok := d["otp"].(string); ok && fresh == "" {
				fresh = o
				m.learn(o, "")
			}
			if rc, ok := d["recovery_codes"].([]string); ok && len(fresh2) == 0 {
				fresh2 = rc
				m.recSets = append(m.recSets, rc)
			}
		}
		if fresh == "" && len(r.SeenSMS) > 0 {
			fresh = r.SeenSMS[len(r.SeenSMS)-1]
		}
	}

	// ---- op line ------------------------------------------------------------------
	kv := []string{}
	add := func(k, v string) {
		if v != "" {
			kv = append(kv, k+"="+wire.Hex(v))
		}
	}
	add("pid", a.PID)
	add("pw", a.PW)
	if a.RM {
		kv = append(kv, "rm=1")
	} else if a.RMVal != "" {
		kv = append(kv, "rmo=1")
	}
	add("redir", a.Redir)
	if route == "confirm" || route == "recend" {
		if raw, err := base64.URLEncoding.DecodeString(a.Token); err != nil {
			kv = append(kv, "tok=bad")
		} else {
			kv = append(kv, "tok="+wire.Hex(string(raw)))
		}
	}
	add("tokraw", a.Token)
	add("code", a.Code)
	add("rcode", a.RCode)
	add("phone", a.Phone)
	add("state", a.State)
	add("oerr", a.OErr)
	add("ocode", a.OCode)
	add("prov", a.Prov)
	if len(a.Extra) > 0 || route == "register" {
		var ex []string
		all := map[string]string{"email": a.PID, "password": a.PW}
		for k, v := range a.Extra {
			all[k] = v
		}
		for k, v := range all {
			ex = append(ex, wire.Hex(k)+"~"+wire.Hex(v))
		}
		sort.Strings(ex)
		kv = append(kv, "extra="+strings.Join(ex, ","))
	}
	rq := a.RawQuery
	if route != "prot" && len(q) > 0 {
		rq = q.Encode()
	}
	add("rq", rq)
	if !valid {
		kv = append(kv, "valid=0")
	}
	add("fresh", fresh)
	add("freshmw", freshMw)
	if len(fresh2) > 0 {
		kv = append(kv, "fresh2="+hexList(fresh2))
	}
	if len(totpOK) > 0 {
		kv = append(kv, "totpok="+hexList(totpOK))
	}
	if route == "oend" {
		if d, ok := m.W.OAuth[a.OCode]; ok {
			kv = append(kv, "puid="+wire.Hex(d["uid"]))
		} else {
			kv = append(kv, "puid=none")
		}
	}
	if fault != nil {
		kv = append(kv, fmt.Sprintf("fault=%d:%s", fault.At, fault.Kind))
	}
	rt := route
	switch route {
	case "prot":
		// the middleware sees the decoded path (r.URL.Path)
		dec := fmt.Sprintf("/p/%d/%d/%d%s", a.Reqs, a.Fail, a.MP, a.Path)
		if u, err := url.Parse(dec); err == nil {
			dec = u.Path
		}
		rt = fmt.Sprintf("prot:%d:%d:%d:%s", a.Reqs, a.Fail, a.MP, wire.Hex(dec))
	case "vstart", "vend":
		rt = route + ":" + a.Kind
	case "logout":
		if sp.method != m.Cfg.LogoutMethod {
			rt = "nope"
		}
	}
	op := strings.TrimRight(fmt.Sprintf("m http %s %s %s", b, rt, strings.Join(kv, " ")), " ")

	// ---- observation ----------------------------------------------------------------
	stop := "-"
	resp := m.respTok(r)
	if rt == "nope" && resp == "status:405" {
		// the shipped router answers methods it has no table for with 405 and methods it knows but has
		// no such route for with 404; both are "this request did not reach the logout handler"
		resp = "status:404"
	}
	if s := stopTok(r); s != "?" {
		stop = s
	}
	var mails, smss []string
	for _, ml := range r.NewMail {
		tok := ml.Token
		if ml.Kind != "verify" {
			if raw, err := base64.URLEncoding.DecodeString(ml.Token); err == nil {
				tok = string(raw)
			}
		}
		mails = append(mails, ml.Kind+"~"+hexList(ml.To)+"~"+wire.Hex(tok))
	}
	for _, s := range r.NewSMS {
		smss = append(smss, wire.Hex(s.Number)+"~"+wire.Hex(s.Code))
	}
	obs := fmt.Sprintf("resp=%s stop=%s sess=%s rm=%s %s mail=%s sms=%s", resp, stop, m.JarLine(br), cookieTok(br), m.StoreLine(),
		strings.Join(mails, ";"), strings.Join(smss, ";"))
	m.LastOp, m.LastObs = op, obs
	for _, l := range r.LogLines {
		m.Out.Logs = append(m.Out.Logs, fmt.Sprintf("%d\t%s", len(m.Out.Ops), l))
	}
	if r.Panic != "" {
		m.Out.Logs = append(m.Out.Logs, fmt.Sprintf("%d\tPANIC %s", len(m.Out.Ops), r.Panic))
	}
	m.Out.Add(op, obs)
	if fault == nil || !r.Injected {
		m.check(b, route, a, pre, r)
	} else {
		m.checkFault(b, route, a, pre, r, fault)
	}
	m.trackSpent(pre, r.Injected, route, b)
	m.Out.Count("route:" + strings.SplitN(rt, ":", 2)[0])
	m.Out.Count("resp:" + strings.SplitN(resp, ":", 3)[0] + ":" + func() string {
		p := strings.SplitN(resp, ":", 3)
		if p[0] == "page" && len(p) > 1 {
			return p[1]
		}
		return ""
	}())
	return r
}

func (m *M) Advance(d time.Duration) {
	m.W.Advance(d)
	m.Out.Add(fmt.Sprintf("m adv %d", int64(d)), "ok "+m.StoreLine())
}

func (m *M) APILock(pid string) {
	m.W.Lock.Lock(nil, pid)
	m.Out.Add("m lock "+wire.Hex(pid), "ok "+m.StoreLine())
}

func (m *M) APIUnlock(pid string) {
	m.W.Lock.Unlock(nil, pid)
	m.Out.Add("m unlock "+wire.Hex(pid), "ok "+m.StoreLine())
}

func (m *M) APIUpdatePassword(pid, pw string) {
	m.learnPW(pw)
	u, err := m.W.Store.Load(nil, pid)
	var uerr error
	if err == nil {
		uerr = m.W.AB.UpdatePassword(nil, u.(authboss.AuthableUser), pw)
	}
	m.Out.Add("m updpw "+wire.Hex(pid)+" "+wire.Hex(pw), "ok "+m.StoreLine())
	if err == nil && uerr == nil {
		for ck, owner := range m.cookieOwner {
			if owner == pid {
				m.revoked[ck] = true
			}
		}
		if n := len(m.W.Store.Tokens[pid]); n != 0 {
			m.violate("C06", "update-tokens-kept", fmt.Sprintf("UpdatePassword(%q) reported success but %d remember token(s) of that account still work", pid, n), "")
		}
		if su := m.W.Store.Users[pid]; su == nil || bcrypt.CompareHashAndPassword([]byte(su.Password), []byte(pw)) != nil {
			m.violate("C06", "update-hash", "UpdatePassword reported success but the stored hash does not verify the new password", "")
		}
	}
}

// SetCookie lets the adversary plant an arbitrary rm cookie value ("" = remove).
func (m *M) SetCookie(b, val string, present bool) {
	br := m.W.B(b)
	tok := "none"
	if !present {
		delete(br.Cook, "rm")
	} else {
		br.Cook["rm"] = val
		tok = cookieTok(br)
	}
	m.Out.Add(fmt.Sprintf("m setcookie %s %s", b, tok), "ok "+m.StoreLine())
}

// TOTPCode for a secret at the current (fake) time.
func TOTPCode(secret string) string {
	c, _ := totp.GenerateCode(secret, time.Now())
	return c
}

// SeedUser plants an account in a reachable state directly in storage (same op for the model).
func (m *M) SeedUser(pid, pw string, confirmed bool, attempts int, last, locked time.Duration, hasLast, hasLocked bool, otps []string, totpSecret, sms string, rec []string) {
	m.SeedUserE(pid, pid, pw, confirmed, attempts, last, locked, hasLast, hasLocked, otps, totpSecret, sms, rec)
}

// SeedUserE: as SeedUser, with a contact e-mail address that may differ from the login identifier.
func (m *M) SeedUserE(pid, email, pw string, confirmed bool, attempts int, last, locked time.Duration, hasLast, hasLocked bool, otps []string, totpSecret, sms string, rec []string) {
	u := &world.User{PID: pid, Email: email, Confirmed: confirmed, AttemptCount: attempts, TOTPSecretKey: totpSecret, SMSPhoneNumber: sms}
	if pw != "" {
		h, _ := bcrypt.GenerateFromPassword([]byte(pw), bcrypt.MinCost)
		u.Password = string(h)
		m.learnPW(pw)
		m.bc[u.Password] = wire.Hex(pw)
	}
	lastS, lockedS := "z", "z"
	if hasLast {
		u.LastAttempt = m.W.Epoch.Add(last)
		lastS = strconv.FormatInt(int64(last), 10)
	}
	if hasLocked {
		u.Locked = m.W.Epoch.Add(locked)
		lockedS = strconv.FormatInt(int64(locked), 10)
	}
	var oh []string
	for _, o := range otps {
		m.learn(o, "otp")
		oh = append(oh, shaB64(o))
	}
	u.OTPs = strings.Join(oh, ",")
	var rh []string
	for _, c := range rec {
		h, _ := bcrypt.GenerateFromPassword([]byte(c), bcrypt.MinCost)
		rh = append(rh, string(h))
		m.bc[string(h)] = wire.Hex(c)
		m.Secrets[c] = "recovery-code"
	}
	u.RecoveryCodes = strings.Join(rh, ",")
	m.W.Store.Users[pid] = u
	kv := []string{"pid=" + wire.Hex(pid), "pw=" + wire.Hex(pw), "conf=" + wire.Bool(confirmed), fmt.Sprintf("att=%d", attempts), "last=" + lastS, "locked=" + lockedS}
	if email != pid {
		kv = append(kv, "email="+wire.Hex(email))
	}
	if len(otps) > 0 {
		kv = append(kv, "otps="+hexList(otps))
	}
	if totpSecret != "" {
		kv = append(kv, "totp="+wire.Hex(totpSecret))
	}
	if sms != "" {
		kv = append(kv, "sms="+wire.Hex(sms))
	}
	if len(rec) > 0 {
		kv = append(kv, "rec="+hexList(rec))
	}
	m.Out.Add("m seed "+strings.Join(kv, " "), "ok "+m.StoreLine())
}

// SetSession replaces a browser's session jar (harness shortcut, same op for the model).
func (m *M) SetSession(b string, sess map[string]string) {
	br := m.W.B(b)
	br.Sess = map[string]string{}
	var kv []string
	for _, k := range wire.SortedKeys(sess) {
		br.Sess[k] = sess[k]
		kv = append(kv, keyName(k)+"="+m.sessVal(k, sess[k]))
	}
	m.Out.Add(strings.TrimRight("m setsess "+b+" "+strings.Join(kv, " "), " "), "ok "+m.StoreLine())
}

// ShaB64 is base64(sha512(x)), the form one-time passwords and tokens are stored in.
func ShaB64(x string) string { return shaB64(x) }
