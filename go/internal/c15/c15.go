// Package c15 sends hostile return targets through the real redirector (form and JSON mode),
// the real password/TOTP/OAuth2 flows, and classifies where the browser would end up.
package c15

import (
	"verif/internal/urlspec"
	"encoding/json"
	"fmt"
	"math/rand"
	"net/http/httptest"
	"net/url"
	"strings"

	"github.com/volatiletech/authboss/v3"
	"github.com/volatiletech/authboss/v3/defaults"

	"verif/internal/mach"
	"verif/internal/wire"
	"verif/internal/world"
)

// ---- Go re-implementation of the Lean browser spec (diffed against the driver on every string)

// OffSite: the browser-side specification lives in package urlspec (shared with the machine monitors).
func OffSite(v string) bool { return urlspec.OffSite(v) }

var pieces = []string{"/%2F", "/%5C", "%2f%2f", "/", "//", "\\", "/\\", "\\\\", "evil.example", "https:", "http://", "javascript:", "://", "..", ".", "/a", "/b/", "?x=1", "#f",
	"%2F", "%5C", "@", "\t", "\n", "\r", " ", "\x00", "\x7f", "\x0b", "é", "\xff", "/home", "/../", "/./", "a=b&c=d"}

func gen(r *rand.Rand) string {
	if r.Intn(8) == 0 {
		n := r.Intn(12)
		b := make([]byte, n)
		for i := range b {
			b[i] = byte(r.Intn(256))
		}
		return string(b)
	}
	n := 1 + r.Intn(6)
	var sb strings.Builder
	if r.Intn(2) == 0 {
		sb.WriteString("/")
	}
	for i := 0; i < n; i++ {
		sb.WriteString(pieces[r.Intn(len(pieces))])
	}
	return sb.String()
}

type nullRenderer struct{}

func (nullRenderer) Load(...string) error { return nil }

func asciiOnly(s string) bool {
	for i := 0; i < len(s); i++ {
		if s[i] >= 0x80 {
			return false
		}
	}
	return true
}

// Run n strings.
func Run(seed int64, n int) *wire.Out {
	r := rand.New(rand.NewSource(seed))
	out := wire.NewOut("c15", seed)
	out.Meta.Rule = "return targets from a grammar of URL spellings (schemes, slash/backslash runs, control characters, dot segments, percent escapes, userinfo) plus random bytes, sent through the real Redirector in form and JSON mode and through the real password / OTP / OAuth2 / 2FA-hijack flows; non-trivial = value accepted by the guard or classified off-site; distinct by value"
	seen := map[string]bool{}
	red := defaults.NewRedirector(defaults.JSONRenderer{}, authboss.FormValueRedirect)
	ab := authboss.New()
	ab.Config.Storage.SessionState = nil
	for i := 0; i < n; i++ {
		v := gen(r)
		q := url.Values{"redir": {v}}
		// form mode
		req := httptest.NewRequest("POST", "http://site.test/auth/login?"+q.Encode(), nil)
		rec := httptest.NewRecorder()
		w := ab.NewResponse(rec)
		red.Redirect(w, req, authboss.RedirectOptions{Code: 307, RedirectPath: "/default", FollowRedirParam: true})
		loc := rec.Header().Get("Location")
		// json mode
		req2 := httptest.NewRequest("POST", "http://site.test/auth/login?"+q.Encode(), strings.NewReader("{}"))
		req2.Header.Set("Content-Type", "application/json")
		rec2 := httptest.NewRecorder()
		red.Redirect(ab.NewResponse(rec2), req2, authboss.RedirectOptions{Code: 307, RedirectPath: "/default", FollowRedirParam: true})
		var js map[string]interface{}
		json.Unmarshal(rec2.Body.Bytes(), &js)
		jloc, _ := js["location"].(string)

		followed := jloc != "/default" || v == "/default"
		u, perr := url.Parse(v)
		rel := perr == nil && u.Scheme == "" && u.Host == ""
		cmp := asciiOnly(v)
		locTok := "-"
		if followed && cmp {
			locTok = wire.Hex(loc)
		}
		out.Add(fmt.Sprintf("redir %s %s %s", wire.Hex(v), wire.Bool(rel), wire.Bool(cmp)),
			fmt.Sprintf("%s %s %s", wire.Bool(followed), wire.Bool(OffSite(v)), locTok))
		if (followed || OffSite(v)) && !seen[v] {
			seen[v] = true
			out.Meta.Distinct++
		}
		out.Count(fmt.Sprintf("followed:%v offsite:%v", followed, OffSite(v)))
		if OffSite(loc) {
			out.Violate(wire.Violation{Property: "C15", What: fmt.Sprintf("form mode: redir=%q sends the browser to Location %q", v, loc), Site: "redirectNonAPI", Replay: []string{"redir " + wire.Hex(v)}})
		}
		if OffSite(jloc) {
			out.Violate(wire.Violation{Property: "C15", What: fmt.Sprintf("JSON mode: redir=%q answers location %q", v, jloc), Site: "redirectAPI", Replay: []string{"redir " + wire.Hex(v)}})
		}
	}
	// the flows that follow the parameter, on the full instance
	flows(r, out, n/40+5)
	return out
}

func flows(r *rand.Rand, out *wire.Out, n int) {
	scratch := wire.NewOut("c15-flows", 0)
	for _, js := range []bool{false, true} {
		cfg := world.DefaultCfg()
		cfg.JSON = js
		cfg.Units = []string{"auth", "otp", "oauth2", "totp", "remember", "logout"}
		m, err := mach.New(cfg, scratch)
		if err != nil {
			panic(err)
		}
		m.SeedUser("a@x.com", "Passw0rd!", true, 0, 0, 0, false, false, []string{"o1", "o2", "o3", "o4", "o5"}, "", "", nil)
		m.SeedUser("t@x.com", "Passw0rd!", true, 0, 0, 0, false, false, nil, "JBSWY3DPEHPK3PXP", "", nil)
		for i := 0; i < n; i++ {
			v := gen(r)
			check := func(flow string, res *world.Result) {
				loc := res.Location
				if res.JSON != nil {
					if l, ok := res.JSON["location"].(string); ok {
						loc = l
					}
				}
				out.Count("flow:" + flow)
				if OffSite(loc) {
					out.Violate(wire.Violation{Property: "C15", What: fmt.Sprintf("%s flow (json=%v): redir=%q sends the browser to %q", flow, js, v, loc), Site: "flow:" + flow, Replay: []string{flow + " " + wire.Hex(v)}})
				}
			}
			check("password", m.HTTP("b1", "login", mach.Args{PID: "a@x.com", PW: "Passw0rd!", Redir: v}, nil))
			m.HTTP("b1", "logout", mach.Args{}, nil)
			// 2FA hijack passes the raw query through, then the validate step follows redir
			check("hijack", m.HTTP("b2", "login", mach.Args{PID: "t@x.com", PW: "Passw0rd!", Redir: v}, nil))
			check("totp", m.HTTP("b2", "totpvalidate", mach.Args{Code: mach.TOTPCode("JBSWY3DPEHPK3PXP"), Redir: v}, nil))
			m.HTTP("b2", "logout", mach.Args{}, nil)
			// OAuth2 round trip
			m.HTTP("b3", "ostart", mach.Args{Prov: "stub", Redir: v}, nil)
			code := fmt.Sprintf("c%d", i)
			m.W.OAuth[code] = map[string]string{"uid": "u1"}
			check("oauth2", m.HTTP("b3", "oend", mach.Args{Prov: "stub", OCode: code, State: m.W.B("b3").Sess["oauth2_state"]}, nil))
			m.HTTP("b3", "logout", mach.Args{}, nil)
			// … with the parameter repeated (a harmless first value) and with one more pass-along parameter
			m.HTTP("b3", "ostart", mach.Args{Prov: "stub", Redir: v, RedirFirst: "/welcome"}, nil)
			code2 := fmt.Sprintf("d%d", i)
			m.W.OAuth[code2] = map[string]string{"uid": "u1"}
			check("oauth2-repeated", m.HTTP("b3", "oend", mach.Args{Prov: "stub", OCode: code2, State: m.W.B("b3").Sess["oauth2_state"]}, nil))
			m.HTTP("b3", "logout", mach.Args{}, nil)
			m.HTTP("b3", "ostart", mach.Args{Prov: "stub", Redir: v, RMVal: "no"}, nil)
			code3 := fmt.Sprintf("e%d", i)
			m.W.OAuth[code3] = map[string]string{"uid": "u1"}
			check("oauth2-extra-param", m.HTTP("b3", "oend", mach.Args{Prov: "stub", OCode: code3, State: m.W.B("b3").Sess["oauth2_state"]}, nil))
			m.HTTP("b3", "logout", mach.Args{}, nil)
		}
	}
}
