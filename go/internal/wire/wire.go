// Package wire holds the line-protocol helpers shared by all streams.
package wire

import (
	"runtime"
	"encoding/hex"
	"encoding/json"
	"fmt"
	"os"
	"sort"
	"strings"
)

// Hex encodes a byte string the way the Lean driver expects ("-" = empty).
func Hex(s string) string {
	if len(s) == 0 {
		return "-"
	}
	return hex.EncodeToString([]byte(s))
}

// Bool token.
func Bool(b bool) string {
	if b {
		return "1"
	}
	return "0"
}

// Out collects the three artefacts every stream produces.
type Out struct {
	Logs []string // optional: "<line index>\t<log line>" for debugging
	Ops  []string // one line per case, fed to the Lean driver
	Obs  []string // what the real code did on the same case (same line numbers)
	Meta Meta
}

// Violation is a direct property failure observed on the real code (monitor hit).
type Violation struct {
	Property string   `json:"property"`
	What     string   `json:"what"`
	Site     string   `json:"site"`           // fingerprint for known-findings matching
	Replay   []string `json:"replay"`         // op lines / description sufficient to replay
}

// Meta is the measured distribution of a run.
type Meta struct {
	Stream     string         `json:"stream"`
	Seed       int64          `json:"seed"`
	Cases      int            `json:"cases"`
	Distinct   int            `json:"distinct_nontrivial"`
	Rule       string         `json:"rule"`
	Hist       map[string]int `json:"histogram"`
	Samples    []string       `json:"samples"`
	Violations []Violation    `json:"violations"`
	Exhaustive bool           `json:"exhaustive"`
	Notes      []string       `json:"notes,omitempty"`
}

func NewOut(stream string, seed int64) *Out {
	return &Out{Meta: Meta{Stream: stream, Seed: seed, Hist: map[string]int{}, Violations: []Violation{}, Samples: []string{}}}
}

func (o *Out) Add(op, obs string) {
	o.Ops = append(o.Ops, op)
	o.Obs = append(o.Obs, obs)
	o.Meta.Cases++
	// The harness runs with the background collector off (it deadlocks under the fake clock);
	// collect synchronously now and then so that long streams stay within memory.
	if o.Meta.Cases%GCEvery == 0 {
		runtime.GC()
	}
	if len(o.Meta.Samples) < 5 {
		o.Meta.Samples = append(o.Meta.Samples, op+"  =>  "+obs)
	}
}

// GCEvery: operations between two forced collections.
var GCEvery = 1000

func (o *Out) Count(k string) { o.Meta.Hist[k]++ }

func (o *Out) Violate(v Violation) { o.Meta.Violations = append(o.Meta.Violations, v) }

// Write dumps <dir>/<name>.ops, .goobs, .meta.json
func (o *Out) Write(dir, name string) error {
	ops, obs := strings.Join(o.Ops, "\n")+"\n", strings.Join(o.Obs, "\n")+"\n"
	if len(o.Ops) == 0 {
		ops, obs = "", "" // a stream without model operations (monitor only)
	}
	if err := os.WriteFile(dir+"/"+name+".ops", []byte(ops), 0o644); err != nil {
		return err
	}
	if err := os.WriteFile(dir+"/"+name+".goobs", []byte(obs), 0o644); err != nil {
		return err
	}
	if len(o.Logs) > 0 {
		os.WriteFile(dir+"/"+name+".log", []byte(strings.Join(o.Logs, "\n")+"\n"), 0o644)
	}
	b, _ := json.MarshalIndent(o.Meta, "", " ")
	return os.WriteFile(dir+"/"+name+".meta.json", b, 0o644)
}

// SortedKeys of a string map.
func SortedKeys(m map[string]string) []string {
	ks := make([]string, 0, len(m))
	for k := range m {
		ks = append(ks, k)
	}
	sort.Strings(ks)
	return ks
}

func Sprintf(f string, a ...interface{}) string { return fmt.Sprintf(f, a...) }
