package world

import (
	"bytes"
	"context"
	"encoding/json"
	"fmt"
	"net/http"
	"net/http/httptest"
	"net/url"
	"sort"
	"strings"
	"time"

	"github.com/volatiletech/authboss/v3"
	_ "github.com/volatiletech/authboss/v3/auth"
	"github.com/volatiletech/authboss/v3/confirm"
	"github.com/volatiletech/authboss/v3/defaults"
	"github.com/volatiletech/authboss/v3/expire"
	"github.com/volatiletech/authboss/v3/lock"
	_ "github.com/volatiletech/authboss/v3/logout"
	aboauth2 "github.com/volatiletech/authboss/v3/oauth2"
	_ "github.com/volatiletech/authboss/v3/otp"
	"github.com/volatiletech/authboss/v3/otp/twofactor"
	"github.com/volatiletech/authboss/v3/otp/twofactor/sms2fa"
	"github.com/volatiletech/authboss/v3/otp/twofactor/totp2fa"
	_ "github.com/volatiletech/authboss/v3/recover"
	_ "github.com/volatiletech/authboss/v3/register"
	"github.com/volatiletech/authboss/v3/remember"
	"golang.org/x/crypto/bcrypt"
	"golang.org/x/oauth2"
)

// Cfg is everything a stream may vary about the instance.
type Cfg struct {
	Units           []string      `json:"units"` // load order: modules and the explicit Setup()s (totp, sms, recovery, expire)
	JSON            bool          `json:"json"`  // API mode: JSON bodies in, JSON answers out
	LockAfter       int           `json:"lock_after"`
	LockWindow      time.Duration `json:"lock_window"`
	LockDuration    time.Duration `json:"lock_duration"`
	ExpireAfter     time.Duration `json:"expire_after"`
	RecoverDuration time.Duration `json:"recover_duration"`
	RecoverLogin    bool          `json:"recover_login"`
	EmailAuth       bool          `json:"email_auth"`
	Whitelist       []string      `json:"whitelist"`
	OneTime         bool          `json:"one_time"`
	LogoutMethod    string        `json:"logout_method"`
	Err500          bool          `json:"err500"` // error handler that writes a 500 instead of the silent default
	RememberMW      bool          `json:"remember_mw"`
	ExpireMW        bool          `json:"expire_mw"`
	Unauthed        int           `json:"unauthed"` // Modules.ResponseOnUnauthed
	MailMethod      string        `json:"mail_method"`
}

func DefaultCfg() Cfg {
	return Cfg{
		Units:     []string{"auth", "otp", "lock", "confirm", "remember", "recover", "register", "logout", "oauth2", "totp", "sms", "recovery", "expire"},
		LockAfter: 3, LockWindow: 5 * time.Minute, LockDuration: 12 * time.Hour,
		ExpireAfter: time.Hour, RecoverDuration: 24 * time.Hour,
		LogoutMethod: "DELETE", RememberMW: true, ExpireMW: false, MailMethod: "GET",
	}
}

func (c Cfg) Has(unit string) bool {
	for _, u := range c.Units {
		if u == unit {
			return true
		}
	}
	return false
}

type Mail struct {
	To    []string
	Kind  string // confirm | recover | verify
	Token string
	Body  string
}

type SMS struct{ Number, Code string }

type Browser struct {
	ID   string
	Sess map[string]string
	Cook map[string]string
}

type Probe struct {
	Ran     bool
	PID     string
	HasUser bool
	Seen    map[string]string // session keys visible downstream
}

type World struct {
	Cfg      Cfg
	AB       *authboss.Authboss
	Store    *Storer
	Mails    []Mail
	SMSs     []SMS
	Log      *bytes.Buffer
	Top      http.Handler
	Browsers map[string]*Browser
	Lock     *lock.Lock
	OAuth    map[string]map[string]string // code -> details returned by the provider stub
	Pages    []string                     // pages rendered during the current request
	Datas    []authboss.HTMLData
	Seen     []authboss.HTMLData // every data set handed to a renderer, also when the render then fails
	SeenSMS  []string            // every code handed to the SMS sender, also when sending fails
	Probe    *Probe
	Epoch    time.Time
}

// AllSessionKeys is every session key any package defines (kept in sync by Tie/Keys).
var AllSessionKeys = []string{
	authboss.SessionKey, authboss.SessionHalfAuthKey, authboss.SessionLastAction, authboss.Session2FA,
	authboss.Session2FAAuthToken, authboss.Session2FAAuthed, authboss.SessionOAuth2State, authboss.SessionOAuth2Params,
	totp2fa.SessionTOTPSecret, totp2fa.SessionTOTPPendingPID,
	sms2fa.SessionSMSNumber, sms2fa.SessionSMSSecret, sms2fa.SessionSMSLast, sms2fa.SessionSMSPendingPID,
	authboss.FlashSuccessKey, authboss.FlashErrorKey,
}

// ---- leaves ------------------------------------------------------------------

type mapState map[string]string

func (m mapState) Get(k string) (string, bool) { v, ok := m[k]; return v, ok }

type jarStore struct {
	w    *World
	kind string // "sess" | "cook"
}

func (j jarStore) ReadState(r *http.Request) (authboss.ClientState, error) {
	b := j.w.Browsers[r.Header.Get("X-Browser")]
	// a client that sent no session / no cookie at all: the store has no state for it (the library
	// accepts a nil ClientState; session stores of real applications return one for a new visitor)
	if b == nil || (j.kind == "sess" && len(b.Sess) == 0) || (j.kind == "cook" && len(b.Cook) == 0) {
		return nil, nil
	}
	m := mapState{}
	if b != nil {
		src := b.Sess
		if j.kind == "cook" {
			src = b.Cook
		}
		for k, v := range src {
			m[k] = v
		}
	}
	return m, nil
}

type jarEvent struct {
	K   int    `json:"k"`
	Key string `json:"key"`
	Val string `json:"val"`
}

func (j jarStore) WriteState(w http.ResponseWriter, st authboss.ClientState, evs []authboss.ClientStateEvent) error {
	out := make([]jarEvent, len(evs))
	for i, e := range evs {
		out[i] = jarEvent{int(e.Kind), e.Key, e.Value}
	}
	b, _ := json.Marshal(out)
	w.Header().Add("X-Jar-"+j.kind, string(b))
	return nil
}

func applyEvents(jar map[string]string, evs []jarEvent) {
	for _, e := range evs {
		switch authboss.ClientStateEventKind(e.K) {
		case authboss.ClientStateEventPut:
			jar[e.Key] = e.Val
		case authboss.ClientStateEventDel:
			delete(jar, e.Key)
		case authboss.ClientStateEventDelAll:
			keep := map[string]bool{}
			if e.Key != "" {
				for _, k := range strings.Split(e.Key, ",") {
					keep[k] = true
				}
			}
			for k := range jar {
				if !keep[k] {
					delete(jar, k)
				}
			}
		}
	}
}

type renderer struct {
	w    *World
	mail bool
}

func (r renderer) Load(names ...string) error { return nil }
func (r renderer) Render(ctx context.Context, page string, data authboss.HTMLData) ([]byte, string, error) {
	seen := authboss.HTMLData{}
	for k, v := range data {
		seen[k] = v
	}
	r.w.Seen = append(r.w.Seen, seen)
	if err := r.w.Store.Backend("Render"); err != nil {
		return nil, "", err
	}
	if !r.mail {
		r.w.Pages = append(r.w.Pages, page)
		cp := authboss.HTMLData{}
		for k, v := range data {
			cp[k] = v
		}
		r.w.Datas = append(r.w.Datas, cp)
	}
	return defaults.JSONRenderer{}.Render(ctx, page, data)
}

type mailer struct{ w *World }

func (m mailer) Send(ctx context.Context, e authboss.Email) error {
	if err := m.w.Store.Backend("Mail"); err != nil {
		return err
	}
	ml := Mail{To: append([]string(nil), e.To...), Body: e.TextBody}
	var d map[string]interface{}
	if json.Unmarshal([]byte(e.TextBody), &d) == nil {
		for _, key := range []string{"url", "recover_url"} {
			if s, ok := d[key].(string); ok {
				if u, err := url.Parse(s); err == nil {
					q := u.Query()
					switch {
					case q.Get("cnf") != "":
						ml.Kind, ml.Token = "confirm", q.Get("cnf")
					case strings.Contains(u.Path, "/recover/end"):
						ml.Kind, ml.Token = "recover", q.Get("token")
					case strings.Contains(u.Path, "/email/verify/end"):
						ml.Kind, ml.Token = "verify", q.Get("token")
					}
				}
			}
		}
	}
	m.w.Mails = append(m.w.Mails, ml)
	return nil
}

type smsSender struct{ w *World }

func (s smsSender) Send(ctx context.Context, number, text string) error {
	s.w.SeenSMS = append(s.w.SeenSMS, text)
	if err := s.w.Store.Backend("SMS"); err != nil {
		return err
	}
	s.w.SMSs = append(s.w.SMSs, SMS{number, text})
	return nil
}

type hasher struct {
	w     *World
	inner authboss.Hasher
}

func (h hasher) CompareHashAndPassword(hash, pw string) error {
	return h.inner.CompareHashAndPassword(hash, pw)
}
func (h hasher) GenerateHash(pw string) (string, error) {
	if err := h.w.Store.Backend("Hash"); err != nil {
		return "", err
	}
	return h.inner.GenerateHash(pw)
}

// bodyReader: the shipped HTTPBodyReader has no case for the otp module's "otplogin" page
// (an application has to supply one); the harness reads it exactly like "login".
type bodyReader struct{ inner authboss.BodyReader }

func (b bodyReader) Read(page string, r *http.Request) (authboss.Validator, error) {
	if page == "otplogin" {
		page = "login"
	}
	return b.inner.Read(page, r)
}

type err500 struct{ log authboss.Logger }

func (e err500) Wrap(h func(http.ResponseWriter, *http.Request) error) http.Handler {
	return http.HandlerFunc(func(w http.ResponseWriter, r *http.Request) {
		if err := h(w, r); err != nil {
			e.log.Error(fmt.Sprintf("request error: %+v", err))
			w.WriteHeader(http.StatusInternalServerError)
		}
	})
}

// ---- construction ------------------------------------------------------------

func New(cfg Cfg) (*World, error) {
	// whole-second epoch: the library formats some timestamps with second resolution
	if ns := time.Now().Nanosecond(); ns != 0 {
		time.Sleep(time.Duration(1000000000 - ns))
	}
	w := &World{Cfg: cfg, Log: &bytes.Buffer{}, Browsers: map[string]*Browser{}, OAuth: map[string]map[string]string{}, Epoch: time.Now()}
	w.Store = NewStorer(cfg.OneTime)
	ab := authboss.New()
	w.AB = ab
	ab.Config.Paths.RootURL = "http://site.test"
	ab.Config.Storage.Server = w.Store
	ab.Config.Storage.SessionState = jarStore{w, "sess"}
	ab.Config.Storage.CookieState = jarStore{w, "cook"}
	ab.Config.Storage.SessionStateWhitelistKeys = cfg.Whitelist
	ab.Config.Core.ViewRenderer = renderer{w, false}
	ab.Config.Core.MailRenderer = renderer{w, true}
	defaults.SetCore(&ab.Config, cfg.JSON, false)
	logger := defaults.NewLogger(w.Log)
	ab.Config.Core.Logger = logger
	ab.Config.Core.BodyReader = bodyReader{ab.Config.Core.BodyReader}
	if cfg.Err500 {
		ab.Config.Core.ErrorHandler = err500{logger}
	} else {
		ab.Config.Core.ErrorHandler = defaults.NewErrorHandler(logger)
	}
	ab.Config.Core.Mailer = mailer{w}
	ab.Config.Core.Hasher = hasher{w, authboss.NewBCryptHasher(bcrypt.MinCost)}
	ab.Config.Modules.BCryptCost = bcrypt.MinCost
	ab.Config.Modules.LockAfter = cfg.LockAfter
	ab.Config.Modules.LockWindow = cfg.LockWindow
	ab.Config.Modules.LockDuration = cfg.LockDuration
	ab.Config.Modules.ExpireAfter = cfg.ExpireAfter
	ab.Config.Modules.RecoverTokenDuration = cfg.RecoverDuration
	ab.Config.Modules.RecoverLoginAfterRecovery = cfg.RecoverLogin
	ab.Config.Modules.TwoFactorEmailAuthRequired = cfg.EmailAuth
	ab.Config.Modules.LogoutMethod = cfg.LogoutMethod
	ab.Config.Modules.MailNoGoroutine = true
	ab.Config.Modules.ResponseOnUnauthed = authboss.MWRespondOnFailure(cfg.Unauthed)
	if cfg.MailMethod != "" {
		ab.Config.Modules.MailRouteMethod = cfg.MailMethod
	}
	ab.Config.Modules.TOTP2FAIssuer = "verif"
	ab.Config.Modules.OAuth2Providers = map[string]authboss.OAuth2Provider{}
	for _, p := range []string{"stub", "other"} {
		ab.Config.Modules.OAuth2Providers[p] = authboss.OAuth2Provider{
			OAuth2Config: &oauth2.Config{ClientID: "id", ClientSecret: "s", Endpoint: oauth2.Endpoint{AuthURL: "https://provider.test/auth", TokenURL: "https://provider.test/token"}},
			FindUserDetails: func(ctx context.Context, c oauth2.Config, t *oauth2.Token) (map[string]string, error) {
				if err := w.Store.Backend("FindUserDetails"); err != nil {
					return nil, err
				}
				d, ok := w.OAuth[t.AccessToken]
				if !ok {
					return nil, fmt.Errorf("provider: unknown access token")
				}
				return d, nil
			},
		}
	}
	aboauth2.SetExchangerForVerif(func(c *oauth2.Config, ctx context.Context, code string, _ ...oauth2.AuthCodeOption) (*oauth2.Token, error) {
		if err := w.Store.Backend("Exchange"); err != nil {
			return nil, err
		}
		if _, ok := w.OAuth[code]; !ok {
			return nil, fmt.Errorf("provider: bad code")
		}
		return &oauth2.Token{AccessToken: code, Expiry: time.Now().Add(time.Hour)}, nil
	})

	for _, u := range cfg.Units {
		var err error
		switch u {
		case "totp":
			err = (&totp2fa.TOTP{Authboss: ab}).Setup()
		case "sms":
			err = (&sms2fa.SMS{Authboss: ab, Sender: smsSender{w}}).Setup()
		case "recovery":
			err = (&twofactor.Recovery{Authboss: ab}).Setup()
		case "expire":
			err = expire.Setup(ab)
		default:
			err = ab.Init(u)
		}
		if err != nil {
			return nil, fmt.Errorf("unit %s: %w", u, err)
		}
	}
	w.Lock = &lock.Lock{Authboss: ab}

	mux := http.NewServeMux()
	mux.Handle("/auth/", http.StripPrefix("/auth", ab.Config.Core.Router))
	probe := http.HandlerFunc(func(rw http.ResponseWriter, r *http.Request) {
		p := &Probe{Ran: true, Seen: map[string]string{}}
		p.PID, _ = ab.CurrentUserID(r)
		if u, err := ab.CurrentUser(r); err == nil && u != nil {
			p.HasUser = true
		}
		for _, k := range append(append([]string{}, AllSessionKeys...), "foreign", "app_pref") {
			if v, ok := authboss.GetSession(r, k); ok {
				p.Seen[k] = v
			}
		}
		w.Probe = p
		rw.WriteHeader(http.StatusOK)
		rw.Write([]byte("probe"))
	})
	for reqs := 0; reqs <= 3; reqs++ {
		for fail := 0; fail <= 3; fail++ {
			for mp := 0; mp <= 1; mp++ {
				mw := authboss.MountedMiddleware2(ab, mp == 1, authboss.MWRequirements(reqs), authboss.MWRespondOnFailure(fail))
				mux.Handle(fmt.Sprintf("/p/%d/%d/%d/", reqs, fail, mp), mw(probe))
			}
		}
	}
	mux.Handle("/open/", probe)
	mux.Handle("/lockmw/", lock.Middleware(ab)(probe))
	mux.Handle("/confirmmw/", confirm.Middleware(ab)(probe))
	// the site root behind both middlewares (ConfirmNotOK / LockNotOK point here by default)
	mux.Handle("/", confirm.Middleware(ab)(lock.Middleware(ab)(probe)))

	var h http.Handler = mux
	if cfg.ExpireMW {
		h = expire.Middleware(ab)(h)
	}
	if cfg.RememberMW && cfg.Has("remember") {
		h = remember.Middleware(ab)(h)
	}
	w.Top = ab.LoadClientStateMiddleware(h)
	return w, nil
}

// ---- serving -----------------------------------------------------------------

type Result struct {
	Status   int
	Header   http.Header // every response header as written (jar events travel in X-Jar-*)
	Location string
	Body     string
	JSON     map[string]interface{}
	Pages    []string
	Datas    []authboss.HTMLData
	Seen     []authboss.HTMLData // every data set handed to a renderer, also when the render then fails
	SeenSMS  []string            // every code handed to the SMS sender, also when sending fails
	Panic    string
	Probe    *Probe
	Calls    []string
	Injected bool
	NewMail  []Mail
	NewSMS   []SMS
	SessEv   []jarEvent
	CookEv   []jarEvent
	LogLines []string
	Wrote    bool
}

func (w *World) B(id string) *Browser {
	b := w.Browsers[id]
	if b == nil {
		b = &Browser{ID: id, Sess: map[string]string{}, Cook: map[string]string{}}
		w.Browsers[id] = b
	}
	return b
}

type recorder struct {
	*httptest.ResponseRecorder
	wrote bool
}

func (r *recorder) WriteHeader(c int)           { r.wrote = true; r.ResponseRecorder.WriteHeader(c) }
func (r *recorder) Write(b []byte) (int, error) { r.wrote = true; return r.ResponseRecorder.Write(b) }

// Do serves one request from browser b through the full stack.
func (w *World) Do(bid, method, path string, query url.Values, form map[string]string, fault Fault) *Result {
	b := w.B(bid)
	target := path
	if len(query) > 0 {
		target += "?" + query.Encode()
	}
	var body *bytes.Reader
	ct := ""
	if w.Cfg.JSON {
		if form == nil {
			form = map[string]string{}
		}
		js, _ := json.Marshal(form)
		body = bytes.NewReader(js)
		ct = "application/json"
	} else if method != "GET" && method != "DELETE" || form != nil && method == "DELETE" {
		vals := url.Values{}
		for k, v := range form {
			vals.Set(k, v)
		}
		body = bytes.NewReader([]byte(vals.Encode()))
		ct = "application/x-www-form-urlencoded"
	} else {
		body = bytes.NewReader(nil)
		if form != nil && method == "GET" {
			// GET forms travel in the query
			q := url.Values{}
			for k, v := range query {
				q[k] = v
			}
			for k, v := range form {
				q.Set(k, v)
			}
			target = path
			if len(q) > 0 {
				target += "?" + q.Encode()
			}
		}
	}
	return w.DoRaw(b, method, target, ct, body, fault)
}

// DoRaw serves a request with a literal target (path?rawquery) and body.
func (w *World) DoRaw(b *Browser, method, target, ct string, body *bytes.Reader, fault Fault) *Result {
	req := httptest.NewRequest(method, "http://site.test"+target, body)
	if ct != "" {
		req.Header.Set("Content-Type", ct)
	}
	req.Header.Set("X-Browser", b.ID)
	rec := &recorder{ResponseRecorder: httptest.NewRecorder()}
	w.Pages, w.Datas, w.Probe = nil, nil, nil
	w.Seen, w.SeenSMS = nil, nil
	w.Store.Calls, w.Store.CallLog, w.Store.fault, w.Store.Injected = 0, nil, fault, false
	nm, ns := len(w.Mails), len(w.SMSs)
	logStart := w.Log.Len()
	res := &Result{}
	func() {
		defer func() {
			if r := recover(); r != nil {
				res.Panic = fmt.Sprint(r)
			}
		}()
		w.Top.ServeHTTP(rec, req)
	}()
	w.Store.fault = Fault{At: -1}
	res.Status = rec.Code
	res.Wrote = rec.wrote
	res.Location = rec.Header().Get("Location")
	res.Header = rec.Header().Clone()
	res.Body = rec.Body.String()
	if strings.HasPrefix(rec.Header().Get("Content-Type"), "application/json") {
		// a handler chain may write more than one document; the first is the response
		json.NewDecoder(bytes.NewReader(rec.Body.Bytes())).Decode(&res.JSON)
	}
	res.Pages, res.Datas, res.Probe = w.Pages, w.Datas, w.Probe
	res.Seen, res.SeenSMS = w.Seen, w.SeenSMS
	res.Calls, res.Injected = w.Store.CallLog, w.Store.Injected
	res.NewMail = append([]Mail(nil), w.Mails[nm:]...)
	res.NewSMS = append([]SMS(nil), w.SMSs[ns:]...)
	for _, h := range rec.Header().Values("X-Jar-sess") {
		var evs []jarEvent
		json.Unmarshal([]byte(h), &evs)
		res.SessEv = append(res.SessEv, evs...)
	}
	for _, h := range rec.Header().Values("X-Jar-cook") {
		var evs []jarEvent
		json.Unmarshal([]byte(h), &evs)
		res.CookEv = append(res.CookEv, evs...)
	}
	applyEvents(b.Sess, res.SessEv)
	applyEvents(b.Cook, res.CookEv)
	if lg := w.Log.String()[logStart:]; lg != "" {
		res.LogLines = strings.Split(strings.TrimRight(lg, "\n"), "\n")
	}
	return res
}

// Advance moves the (fake) clock.
func (w *World) Advance(d time.Duration) {
	if d > 0 {
		time.Sleep(d)
	}
}

// Now in ns since the world's epoch.
func (w *World) Now() int64 { return int64(time.Since(w.Epoch)) }

func SortedKeys(m map[string]string) []string {
	ks := make([]string, 0, len(m))
	for k := range m {
		ks = append(ks, k)
	}
	sort.Strings(ks)
	return ks
}

// DoRawStr serves a request with a literal target and string body.
func (w *World) DoRawStr(bid, method, target, ct, body string, fault Fault) *Result {
	return w.DoRaw(w.B(bid), method, target, ct, bytes.NewReader([]byte(body)), fault)
}
