// Package world builds a complete, real authboss instance (shipped defaults for router,
// body reader, responder/redirector, error handler, logger; harness-owned leaves for
// storage, client state, mail, SMS, OAuth2 provider) and serves requests to it in-process.
package world

import (
	"context"
	"fmt"
	"sort"
	"sync"
	"time"

	"github.com/volatiletech/authboss/v3"
)

// User implements every user interface of authboss and its modules.
type User struct {
	PID, Email, Password             string
	Confirmed                        bool
	ConfirmSelector, ConfirmVerifier string
	AttemptCount                     int
	LastAttempt, Locked              time.Time
	RecoverSelector, RecoverVerifier string
	RecoverExpiry                    time.Time
	OTPs                             string
	TOTPSecretKey, TOTPLastCode      string
	SMSPhoneNumber                   string
	RecoveryCodes                    string
	OAuth2UID, OAuth2Provider        string
	OAuth2Token, OAuth2Refresh       string
	OAuth2Expiry                     time.Time
	Arbitrary                        map[string]string
	Secondary                        []string
}

func (u *User) clone() *User {
	c := *u
	if u.Arbitrary != nil {
		c.Arbitrary = map[string]string{}
		for k, v := range u.Arbitrary {
			c.Arbitrary[k] = v
		}
	}
	c.Secondary = append([]string(nil), u.Secondary...)
	return &c
}

func (u *User) GetPID() string                { return u.PID }
func (u *User) PutPID(s string)               { u.PID = s; if u.Email == "" { u.Email = s } }
func (u *User) GetPassword() string           { return u.Password }
func (u *User) PutPassword(s string)          { u.Password = s }
func (u *User) GetEmail() string              { return u.Email }
func (u *User) PutEmail(s string)             { u.Email = s }
func (u *User) GetConfirmed() bool            { return u.Confirmed }
func (u *User) PutConfirmed(b bool)           { u.Confirmed = b }
func (u *User) GetConfirmSelector() string    { return u.ConfirmSelector }
func (u *User) PutConfirmSelector(s string)   { u.ConfirmSelector = s }
func (u *User) GetConfirmVerifier() string    { return u.ConfirmVerifier }
func (u *User) PutConfirmVerifier(s string)   { u.ConfirmVerifier = s }
func (u *User) GetAttemptCount() int          { return u.AttemptCount }
func (u *User) PutAttemptCount(n int)         { u.AttemptCount = n }
func (u *User) GetLastAttempt() time.Time     { return u.LastAttempt }
func (u *User) PutLastAttempt(t time.Time)    { u.LastAttempt = t }
func (u *User) GetLocked() time.Time          { return u.Locked }
func (u *User) PutLocked(t time.Time)         { u.Locked = t }
func (u *User) GetRecoverSelector() string    { return u.RecoverSelector }
func (u *User) PutRecoverSelector(s string)   { u.RecoverSelector = s }
func (u *User) GetRecoverVerifier() string    { return u.RecoverVerifier }
func (u *User) PutRecoverVerifier(s string)   { u.RecoverVerifier = s }
func (u *User) GetRecoverExpiry() time.Time   { return u.RecoverExpiry }
func (u *User) PutRecoverExpiry(t time.Time)  { u.RecoverExpiry = t }
func (u *User) GetSecondaryEmails() []string  { return u.Secondary }
func (u *User) GetOTPs() string               { return u.OTPs }
func (u *User) PutOTPs(s string)              { u.OTPs = s }
func (u *User) GetTOTPSecretKey() string      { return u.TOTPSecretKey }
func (u *User) PutTOTPSecretKey(s string)     { u.TOTPSecretKey = s }
func (u *User) GetSMSPhoneNumber() string     { return u.SMSPhoneNumber }
func (u *User) PutSMSPhoneNumber(s string)    { u.SMSPhoneNumber = s }
func (u *User) GetRecoveryCodes() string      { return u.RecoveryCodes }
func (u *User) PutRecoveryCodes(s string)     { u.RecoveryCodes = s }
func (u *User) IsOAuth2User() bool            { return u.OAuth2UID != "" }
func (u *User) GetOAuth2UID() string          { return u.OAuth2UID }
func (u *User) GetOAuth2Provider() string     { return u.OAuth2Provider }
func (u *User) GetOAuth2AccessToken() string  { return u.OAuth2Token }
func (u *User) GetOAuth2RefreshToken() string { return u.OAuth2Refresh }
func (u *User) GetOAuth2Expiry() time.Time    { return u.OAuth2Expiry }
func (u *User) PutOAuth2UID(s string)         { u.OAuth2UID = s }
func (u *User) PutOAuth2Provider(s string)    { u.OAuth2Provider = s }
func (u *User) PutOAuth2AccessToken(s string) { u.OAuth2Token = s }
func (u *User) PutOAuth2RefreshToken(s string) { u.OAuth2Refresh = s }
func (u *User) PutOAuth2Expiry(t time.Time)   { u.OAuth2Expiry = t }
func (u *User) GetArbitrary() map[string]string { return u.Arbitrary }
func (u *User) PutArbitrary(m map[string]string) {
	u.Arbitrary = map[string]string{}
	for k, v := range m {
		u.Arbitrary[k] = v
	}
}

// UserOT additionally implements totp2fa.UserOneTime (replay protection).
type UserOT struct{ *User }

func (u *UserOT) GetTOTPLastCode() string  { return u.TOTPLastCode }
func (u *UserOT) PutTOTPLastCode(s string) { u.TOTPLastCode = s }

// Fault describes a storage/sender/hasher/renderer failure to inject.
type Fault struct {
	At   int    // backend call index within the current request (0-based); -1 = none
	Kind string // "generic" | "notfound" | "tokennotfound" | "userfound"
}

// Storer is the reference storage: values in, values out (no aliasing).
type Storer struct {
	mu      sync.Mutex
	Users   map[string]*User
	Tokens  map[string][]string
	OneTime bool

	// fault injection / call accounting (per request)
	Calls    int
	CallLog  []string
	fault    Fault
	Injected bool
}

func NewStorer(oneTime bool) *Storer {
	return &Storer{Users: map[string]*User{}, Tokens: map[string][]string{}, OneTime: oneTime, fault: Fault{At: -1}}
}

// Backend is called by every harness-owned backend leaf (storer, hasher, renderer, sms,
// mailer); it returns the error to inject at this call, if any.
func (s *Storer) Backend(name string, allowKinds ...string) error {
	idx := s.Calls
	s.Calls++
	s.CallLog = append(s.CallLog, name)
	if s.fault.At == idx {
		s.Injected = true
		switch s.fault.Kind {
		case "notfound":
			return authboss.ErrUserNotFound
		case "tokennotfound":
			return authboss.ErrTokenNotFound
		case "userfound":
			return authboss.ErrUserFound
		default:
			return fmt.Errorf("injected %s failure", name)
		}
	}
	return nil
}

func (s *Storer) wrap(u *User) authboss.User {
	if s.OneTime {
		return &UserOT{u}
	}
	return u
}

func unwrap(u interface{}) *User {
	switch x := u.(type) {
	case *User:
		return x
	case *UserOT:
		return x.User
	}
	panic(fmt.Sprintf("storer given foreign user type %T", u))
}

func (s *Storer) Load(ctx context.Context, key string) (authboss.User, error) {
	s.mu.Lock()
	defer s.mu.Unlock()
	if err := s.Backend("Load"); err != nil {
		return nil, err
	}
	u, ok := s.Users[key]
	if !ok {
		return nil, authboss.ErrUserNotFound
	}
	return s.wrap(u.clone()), nil
}

func (s *Storer) Save(ctx context.Context, user authboss.User) error {
	s.mu.Lock()
	defer s.mu.Unlock()
	if err := s.Backend("Save"); err != nil {
		return err
	}
	u := unwrap(user)
	s.Users[u.PID] = u.clone()
	return nil
}

func (s *Storer) New(ctx context.Context) authboss.User { return s.wrap(&User{}) }

func (s *Storer) Create(ctx context.Context, user authboss.User) error {
	s.mu.Lock()
	defer s.mu.Unlock()
	if err := s.Backend("Create"); err != nil {
		return err
	}
	u := unwrap(user)
	if _, ok := s.Users[u.PID]; ok {
		return authboss.ErrUserFound
	}
	s.Users[u.PID] = u.clone()
	return nil
}

func (s *Storer) LoadByConfirmSelector(ctx context.Context, sel string) (authboss.ConfirmableUser, error) {
	s.mu.Lock()
	defer s.mu.Unlock()
	if err := s.Backend("LoadByConfirmSelector"); err != nil {
		return nil, err
	}
	for _, pid := range s.sortedPIDs() {
		if u := s.Users[pid]; u.ConfirmSelector == sel {
			return s.wrap(u.clone()).(authboss.ConfirmableUser), nil
		}
	}
	return nil, authboss.ErrUserNotFound
}

func (s *Storer) LoadByRecoverSelector(ctx context.Context, sel string) (authboss.RecoverableUser, error) {
	s.mu.Lock()
	defer s.mu.Unlock()
	if err := s.Backend("LoadByRecoverSelector"); err != nil {
		return nil, err
	}
	for _, pid := range s.sortedPIDs() {
		if u := s.Users[pid]; u.RecoverSelector == sel {
			return s.wrap(u.clone()).(authboss.RecoverableUser), nil
		}
	}
	return nil, authboss.ErrUserNotFound
}

func (s *Storer) sortedPIDs() []string {
	ks := make([]string, 0, len(s.Users))
	for k := range s.Users {
		ks = append(ks, k)
	}
	sort.Strings(ks)
	return ks
}

func (s *Storer) AddRememberToken(ctx context.Context, pid, token string) error {
	s.mu.Lock()
	defer s.mu.Unlock()
	if err := s.Backend("AddRememberToken"); err != nil {
		return err
	}
	s.Tokens[pid] = append(s.Tokens[pid], token)
	return nil
}

func (s *Storer) DelRememberTokens(ctx context.Context, pid string) error {
	s.mu.Lock()
	defer s.mu.Unlock()
	if err := s.Backend("DelRememberTokens"); err != nil {
		return err
	}
	delete(s.Tokens, pid)
	return nil
}

func (s *Storer) UseRememberToken(ctx context.Context, pid, token string) error {
	s.mu.Lock()
	defer s.mu.Unlock()
	if err := s.Backend("UseRememberToken"); err != nil {
		return err
	}
	toks := s.Tokens[pid]
	for i, t := range toks {
		if t == token {
			s.Tokens[pid] = append(append([]string(nil), toks[:i]...), toks[i+1:]...)
			if len(s.Tokens[pid]) == 0 {
				delete(s.Tokens, pid)
			}
			return nil
		}
	}
	return authboss.ErrTokenNotFound
}

func (s *Storer) NewFromOAuth2(ctx context.Context, provider string, details map[string]string) (authboss.OAuth2User, error) {
	s.mu.Lock()
	defer s.mu.Unlock()
	if err := s.Backend("NewFromOAuth2"); err != nil {
		return nil, err
	}
	uid := details["uid"]
	pid := authboss.MakeOAuth2PID(provider, uid)
	if u, ok := s.Users[pid]; ok {
		c := u.clone()
		c.OAuth2UID = uid // the provider's details are authoritative
		return s.wrap(c).(authboss.OAuth2User), nil
	}
	u := &User{PID: pid, Email: uid + "@oauth.test", OAuth2UID: uid, Confirmed: details["confirmed"] != "false"}
	return s.wrap(u).(authboss.OAuth2User), nil
}

func (s *Storer) SaveOAuth2(ctx context.Context, user authboss.OAuth2User) error {
	s.mu.Lock()
	defer s.mu.Unlock()
	if err := s.Backend("SaveOAuth2"); err != nil {
		return err
	}
	u := unwrap(user)
	s.Users[u.PID] = u.clone()
	return nil
}
