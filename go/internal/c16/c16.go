// Package c16: paired runs. Two worlds are built identically (same configuration, same
// accounts, same clock); they receive one request each that differ only in the secret the
// property says must not be observable; everything the client can see of the two responses
// is compared byte for byte (status, every header incl. the jar events, body), after
// replacing the submitted identifier by a placeholder.
package c16

import (
	"fmt"
	"math/rand"
	"sort"
	"strings"
	"time"

	"verif/internal/mach"
	"verif/internal/wire"
	"verif/internal/world"
)

const pw = "Corr3ct!pw"

type side struct {
	pid, secret string
}

// observe: everything a client sees.
func observe(r *world.Result, pid string) string {
	var hs []string
	for k, vs := range r.Header {
		for _, v := range vs {
			hs = append(hs, k+": "+v)
		}
	}
	sort.Strings(hs)
	wrote := "written"
	if !r.Wrote {
		wrote = "nothing-written"
	}
	s := fmt.Sprintf("%s status=%d\n%s\n\n%s", wrote, r.Status, strings.Join(hs, "\n"), r.Body)
	if pid != "" {
		s = strings.ReplaceAll(s, pid, "<PID>")
		s = strings.ReplaceAll(s, strings.ReplaceAll(pid, "@", "%40"), "<PID>")
	}
	if r.Panic != "" {
		s += "\nPANIC " + r.Panic
	}
	return s
}

func firstDiff(a, b string) string {
	la, lb := strings.Split(a, "\n"), strings.Split(b, "\n")
	for i := 0; i < len(la) || i < len(lb); i++ {
		x, y := "<none>", "<none>"
		if i < len(la) {
			x = la[i]
		}
		if i < len(lb) {
			y = lb[i]
		}
		if x != y {
			if len(x) > 160 {
				x = x[:160]
			}
			if len(y) > 160 {
				y = y[:160]
			}
			return fmt.Sprintf("%q vs %q", x, y)
		}
	}
	return ""
}

func wrongPasswords(r *rand.Rand, hash string) string {
	switch r.Intn(8) {
	case 0:
		return pw[:len(pw)-1]
	case 1:
		return pw + "x"
	case 2:
		return strings.ToLower(pw)
	case 3:
		return hash // the stored hash replayed
	case 4:
		return " " + pw
	case 5:
		return "x"
	default:
		b := make([]byte, 4+r.Intn(12))
		for i := range b {
			b[i] = byte('a' + r.Intn(26))
		}
		return string(b)
	}
}

func cfgWith(r *rand.Rand, need ...string) world.Cfg {
	for {
		c := mach.RandomCfg(r)
		have := map[string]bool{}
		for _, u := range c.Units {
			have[u] = true
		}
		for _, n := range need {
			if !have[n] {
				c.Units = append(c.Units, n)
				r.Shuffle(len(c.Units), func(i, j int) { c.Units[i], c.Units[j] = c.Units[j], c.Units[i] })
			}
		}
		c.ExpireMW = false
		return c
	}
}

type acctState struct {
	noPassword        bool // the account has no password hash (created through OAuth2)
	confirmed         bool
	attempts          int
	last, locked      time.Duration
	hasLast, hasLock  bool
	otps              []string
	totp, sms         string
	rec               []string
	lockByHistory     int // this many failed logins before the pair
}

func (s acctState) seed(m *mach.M, pid string) {
	p := pw
	if s.noPassword {
		p = ""
	}
	m.SeedUser(pid, p, s.confirmed, s.attempts, s.last, s.locked, s.hasLast, s.hasLock, s.otps, s.totp, s.sms, s.rec)
}

// Run generates n pairs per kind.
func Run(seed int64, n int) *wire.Out {
	r := rand.New(rand.NewSource(seed))
	out := wire.NewOut("c16", seed)
	out.Meta.Rule = "paired runs on identically built worlds: (a) locked confirmed account, correct vs incorrect password / one-time password (locked by stored state or by a history of failures; every attempt counter 0..LockAfter+2); (b) recovery start for an existing vs a non-existing account (existing one in random lock/confirm/2FA states); (c) failed login for an unknown account vs a known one with a wrong password that does not lock it; random module subsets containing the named modules, random load order, form and JSON, both error handlers; non-trivial = every pair; distinct by (kind, configuration, account state)"
	seen := map[string]bool{}
	for i := 0; i < n; i++ {
		kind := []string{"a", "a-otp", "b", "c", "c-otp"}[i%5]
		var cfg world.Cfg
		switch kind {
		case "a":
			cfg = cfgWith(r, "auth", "lock")
		case "a-otp":
			cfg = cfgWith(r, "otp", "lock")
		case "b":
			cfg = cfgWith(r, "recover")
		case "c":
			cfg = cfgWith(r, "auth")
		case "c-otp":
			cfg = cfgWith(r, "otp")
		}
		hasLock := false
		for _, u := range cfg.Units {
			if u == "lock" {
				hasLock = true
			}
		}
		st := acctState{confirmed: true, otps: []string{"otp-one-1", "otp-two-2"}}
		if r.Intn(3) == 0 {
			st.totp = "JBSWY3DPEHPK3PXP"
		}
		if r.Intn(4) == 0 {
			st.sms = "+15550001"
		}
		st.attempts = r.Intn(cfg.LockAfter + 3)
		if r.Intn(2) == 0 {
			st.hasLast, st.last = true, -time.Duration(r.Intn(2*int(cfg.LockWindow/time.Second)+1))*time.Second
		}
		switch kind {
		case "a", "a-otp":
			if r.Intn(3) == 0 {
				st.lockByHistory = cfg.LockAfter
				st.attempts, st.hasLast = 0, false
			} else {
				st.hasLock, st.locked = true, time.Duration(1+r.Intn(3600))*time.Second
			}
		case "b":
			st.confirmed = r.Intn(4) != 0
			if r.Intn(3) == 0 {
				st.hasLock, st.locked = true, time.Duration(r.Intn(7200)-3600)*time.Second
			}
		case "c", "c-otp":
			// the attempt must not lock the account: keep the count it produces below the threshold
			if hasLock {
				if cfg.LockAfter == 1 {
					continue // every failure locks
				}
				st.attempts = r.Intn(cfg.LockAfter - 1)
			}
			if r.Intn(4) == 0 {
				st.confirmed = false
			}
			if kind == "c" && r.Intn(4) == 0 {
				st.noPassword = true
			}
		}
		known := fmt.Sprintf("known%d@x.com", r.Intn(3))
		unknown := fmt.Sprintf("ghost%d@x.com", r.Intn(3))
		route := "login"
		if strings.HasSuffix(kind, "-otp") {
			route = "otplogin"
		}
		var A, B side
		switch kind {
		case "a":
			A, B = side{known, pw}, side{known, wrongPasswords(r, "")}
		case "a-otp":
			A, B = side{known, "otp-one-1"}, side{known, "otp-nope-" + fmt.Sprint(r.Intn(100))}
		case "b":
			A, B = side{known, ""}, side{unknown, ""}
			route = "recstart"
		case "c":
			A, B = side{unknown, wrongPasswords(r, "")}, side{known, ""}
			B.secret = A.secret
		case "c-otp":
			A, B = side{unknown, "otp-nope"}, side{known, "otp-nope"}
		}
		extraQ := ""
		if r.Intn(4) == 0 {
			extraQ = "/after"
		}
		rm := r.Intn(3) == 0
		run := func(s side) (*world.Result, *mach.M) {
			m, err := mach.New(cfg, out)
			if err != nil {
				panic(err)
			}
			st.seed(m, known)
			m.SeedUser("other@x.com", "Other!pw1", true, 0, 0, 0, false, false, nil, "", "", nil)
			for k := 0; k < st.lockByHistory; k++ {
				m.HTTP("b9", "login", mach.Args{PID: known, PW: "history-bad"}, nil)
			}
			if r0 := st.lockByHistory; r0 > 0 {
				m.Advance(time.Second)
			}
			a := mach.Args{PID: s.pid, PW: s.secret, RM: rm, Redir: extraQ}
			return m.HTTP("b1", route, a, nil), m
		}
		ra, ma := run(A)
		opA, obsA := ma.LastOp, ma.LastObs
		rb, mb := run(B)
		opB, obsB := mb.LastOp, mb.LastObs
		out.Count("pair:" + kind)
		key := fmt.Sprintf("%s|%v|%+v", kind, cfg, st)
		if !seen[key] {
			seen[key] = true
			out.Meta.Distinct++
		}
		// precondition of (a): the account really is locked; of (c): it is not locked afterwards
		if kind == "a" || kind == "a-otp" {
			if u := ma.W.Store.Users[known]; u == nil || !u.Locked.After(time.Now()) {
				out.Count("skipped:not-locked")
				continue
			}
		}
		if kind == "c" || kind == "c-otp" {
			if u := mb.W.Store.Users[known]; u != nil && u.Locked.After(time.Now()) {
				out.Count("skipped:attempt-locked")
				continue
			}
		}
		oa, ob := observe(ra, A.pid), observe(rb, B.pid)
		if oa != ob {
			out.Violate(wire.Violation{Property: "C16", Site: "pair:" + kind + ":" + route,
				What:   fmt.Sprintf("(%s) the two responses differ: %s", kind, firstDiff(oa, ob)),
				Replay: []string{"cfg " + mach.CfgLine(cfg), fmt.Sprintf("account %+v", st), opA, obsA, opB, obsB, "--- response A", oa, "--- response B", ob}})
		}
		out.Count("resp:" + strings.SplitN(strings.SplitN(oa, "\n", 2)[0], " ", 2)[1])
	}
	return out
}
