// Package conc builds ONE authboss instance from the shipped default components (router,
// body reader, responder, redirector, error handler, logger, JSON renderer, SMTP or log
// mailer) over a goroutine-safe storer and stateless header-borne client state, and runs
// independent clients against it — concurrently and alone.  It is built with -race and
// real time (no fake clock).
package conc

import (
	"bufio"
	"bytes"
	"context"
	"encoding/json"
	"fmt"
	"io"
	"net"
	"net/http"
	"net/http/httptest"
	"net/url"
	"regexp"
	"sort"
	"strings"
	"sync"
	"time"

	"github.com/pquerna/otp/totp"
	"github.com/volatiletech/authboss/v3"
	_ "github.com/volatiletech/authboss/v3/auth"
	"github.com/volatiletech/authboss/v3/confirm"
	"github.com/volatiletech/authboss/v3/defaults"
	"github.com/volatiletech/authboss/v3/expire"
	"github.com/volatiletech/authboss/v3/lock"
	_ "github.com/volatiletech/authboss/v3/logout"
	aboauth2 "github.com/volatiletech/authboss/v3/oauth2"
	_ "github.com/volatiletech/authboss/v3/otp"
	"github.com/volatiletech/authboss/v3/otp/twofactor"
	"github.com/volatiletech/authboss/v3/otp/twofactor/sms2fa"
	"github.com/volatiletech/authboss/v3/otp/twofactor/totp2fa"
	_ "github.com/volatiletech/authboss/v3/recover"
	_ "github.com/volatiletech/authboss/v3/register"
	"github.com/volatiletech/authboss/v3/remember"
	"golang.org/x/crypto/bcrypt"
	"golang.org/x/oauth2"

	"verif/internal/world"
)

// ---- goroutine-safe sinks -------------------------------------------------------------

type safeWriter struct {
	mu sync.Mutex
	b  bytes.Buffer
}

func (s *safeWriter) Write(p []byte) (int, error) { s.mu.Lock(); defer s.mu.Unlock(); return s.b.Write(p) }
func (s *safeWriter) String() string              { s.mu.Lock(); defer s.mu.Unlock(); return s.b.String() }

// mailbox: mails by recipient (filled by the fake SMTP server or the log-mailer tap)
type mailbox struct {
	mu sync.Mutex
	ch map[string]chan string
}

func (m *mailbox) box(rcpt string) chan string {
	m.mu.Lock()
	defer m.mu.Unlock()
	if m.ch == nil {
		m.ch = map[string]chan string{}
	}
	c := m.ch[rcpt]
	if c == nil {
		c = make(chan string, 64)
		m.ch[rcpt] = c
	}
	return c
}

// ---- a minimal SMTP server on the loopback interface ------------------------------------

type smtpServer struct {
	ln   net.Listener
	mail *mailbox
}

func startSMTP(mb *mailbox) (*smtpServer, error) {
	ln, err := net.Listen("tcp", "127.0.0.1:0")
	if err != nil {
		return nil, err
	}
	s := &smtpServer{ln, mb}
	go func() {
		for {
			c, err := ln.Accept()
			if err != nil {
				return
			}
			go s.serve(c)
		}
	}()
	return s, nil
}

func (s *smtpServer) serve(c net.Conn) {
	defer c.Close()
	r := bufio.NewReader(c)
	say := func(x string) { fmt.Fprintf(c, "%s\r\n", x) }
	say("220 verif ESMTP")
	var rcpts []string
	for {
		line, err := r.ReadString('\n')
		if err != nil {
			return
		}
		up := strings.ToUpper(strings.TrimSpace(line))
		switch {
		case strings.HasPrefix(up, "EHLO"), strings.HasPrefix(up, "HELO"):
			say("250 verif")
		case strings.HasPrefix(up, "MAIL FROM"):
			say("250 ok")
		case strings.HasPrefix(up, "RCPT TO"):
			a := strings.TrimSpace(line[len("RCPT TO:"):])
			rcpts = append(rcpts, strings.Trim(a, "<> \r\n"))
			say("250 ok")
		case up == "DATA":
			say("354 go")
			var body bytes.Buffer
			for {
				l, err := r.ReadString('\n')
				if err != nil {
					return
				}
				if l == ".\r\n" {
					break
				}
				body.WriteString(l)
			}
			for _, rc := range rcpts {
				s.mail.box(rc) <- body.String()
			}
			rcpts = nil
			say("250 queued")
		case up == "QUIT":
			say("221 bye")
			return
		default:
			say("250 ok")
		}
	}
}

// logTap is the log the LogMailer writes to: an append-only sink whose Write calls are atomic
// (as a log file's are) and nothing more.  A reader of the log cuts it at the end-of-message
// boundary line and delivers each entry to the recipient it names; an entry that is not one
// whole message (another message's bytes in between) is delivered as torn to everyone named in it.
type logTap struct {
	mail *mailbox
	mu   *sync.Mutex
	buf  *bytes.Buffer
}

var toRe = regexp.MustCompile(`(?m)^To: (.*?)\r?$`)

const logEnd = "==--\r\n"

func (l logTap) Write(p []byte) (int, error) {
	l.mu.Lock()
	l.buf.Write(p)
	var entries []string
	for {
		b := l.buf.String()
		i := strings.Index(b, logEnd)
		if i < 0 {
			break
		}
		entries = append(entries, b[:i+len(logEnd)])
		l.buf.Reset()
		l.buf.WriteString(b[i+len(logEnd):])
	}
	l.mu.Unlock()
	for _, s := range entries {
		ms := toRe.FindAllStringSubmatch(s, -1)
		whole := len(ms) == 1 && strings.HasPrefix(s, "To: ") && strings.Count(s, "\nSubject: ") == 1
		for _, m := range ms {
			for _, rc := range strings.Split(m[1], ",") {
				rc = strings.TrimSpace(rc)
				if i := strings.Index(rc, "<"); i >= 0 {
					rc = strings.Trim(rc[i:], "<> ")
				}
				if whole {
					l.mail.box(rc) <- s
				} else {
					l.mail.box(rc) <- "TORN LOG ENTRY"
				}
			}
		}
	}
	return len(p), nil
}

// ---- stateless client state (travels in headers) -----------------------------------------

type mapState map[string]string

func (m mapState) Get(k string) (string, bool) { v, ok := m[k]; return v, ok }

type hdrJar struct{ kind string }

func (j hdrJar) ReadState(r *http.Request) (authboss.ClientState, error) {
	m := mapState{}
	if h := r.Header.Get("X-In-" + j.kind); h != "" {
		json.Unmarshal([]byte(h), &m)
	}
	return m, nil
}

type jarEvent struct {
	K   int    `json:"k"`
	Key string `json:"key"`
	Val string `json:"val"`
}

func (j hdrJar) WriteState(w http.ResponseWriter, st authboss.ClientState, evs []authboss.ClientStateEvent) error {
	out := make([]jarEvent, len(evs))
	for i, e := range evs {
		out[i] = jarEvent{int(e.Kind), e.Key, e.Value}
	}
	b, _ := json.Marshal(out)
	w.Header().Add("X-Jar-"+j.kind, string(b))
	return nil
}

// ---- the instance ---------------------------------------------------------------------------

type Inst struct {
	AB    *authboss.Authboss
	Store *world.Storer
	Top   http.Handler
	Mail  *mailbox
	SMS   *mailbox // codes by phone number
	Log   *safeWriter
	JSON  bool
	smtp  *smtpServer
}

type smsSender struct{ box *mailbox }

func (s smsSender) Send(ctx context.Context, number, text string) error {
	s.box.box(number) <- text
	return nil
}

// the OAuth2 provider stub is process-wide (the exchanger hook is a package variable)
var (
	oauthCodes sync.Map // code -> uid
	hookOnce   sync.Once
)

// GrantCode makes the provider stub accept `code` for the external user `uid`.
func GrantCode(code, uid string) { oauthCodes.Store(code, uid) }

type bodyReader struct{ inner authboss.BodyReader }

func (b bodyReader) Read(page string, r *http.Request) (authboss.Validator, error) {
	if page == "otplogin" {
		page = "login"
	}
	return b.inner.Read(page, r)
}

// New builds the instance. mailer: "smtp" | "log"; jsonMode: API mode (JSON bodies in and out).
func New(mailer string, jsonMode bool) (*Inst, error) {
	in := &Inst{Mail: &mailbox{}, SMS: &mailbox{}, Log: &safeWriter{}, JSON: jsonMode}
	in.Store = world.NewStorer(false)
	ab := authboss.New()
	in.AB = ab
	ab.Config.Paths.RootURL = "http://site.test"
	ab.Config.Storage.Server = in.Store
	ab.Config.Storage.SessionState = hdrJar{"sess"}
	ab.Config.Storage.CookieState = hdrJar{"cook"}
	ab.Config.Core.ViewRenderer = defaults.JSONRenderer{}
	ab.Config.Core.MailRenderer = defaults.JSONRenderer{}
	defaults.SetCore(&ab.Config, jsonMode, false)
	ab.Config.Core.Logger = defaults.NewLogger(in.Log)
	ab.Config.Core.ErrorHandler = defaults.NewErrorHandler(ab.Config.Core.Logger)
	ab.Config.Core.BodyReader = bodyReader{ab.Config.Core.BodyReader}
	switch mailer {
	case "smtp":
		s, err := startSMTP(in.Mail)
		if err != nil {
			return nil, err
		}
		in.smtp = s
		ab.Config.Core.Mailer = defaults.NewSMTPMailer(s.ln.Addr().String(), nil)
	default:
		ab.Config.Core.Mailer = defaults.NewLogMailer(logTap{in.Mail, &sync.Mutex{}, &bytes.Buffer{}})
	}
	ab.Config.Mail.From = "auth@site.test"
	ab.Config.Modules.BCryptCost = bcrypt.MinCost
	ab.Config.Modules.LockAfter = 3
	ab.Config.Modules.LockWindow = 5 * time.Minute
	ab.Config.Modules.LockDuration = time.Hour
	ab.Config.Modules.ExpireAfter = time.Hour
	ab.Config.Modules.RecoverTokenDuration = time.Hour
	ab.Config.Modules.LogoutMethod = "DELETE"
	ab.Config.Modules.MailNoGoroutine = false // the library's own mail goroutines are part of the subject
	if jsonMode {
		ab.Config.Modules.MailRouteMethod = "POST" // API clients submit the mailed token in a JSON body
	}
	ab.Config.Modules.TOTP2FAIssuer = "verif"
	ab.Config.Modules.OAuth2Providers = map[string]authboss.OAuth2Provider{
		"stub": {
			OAuth2Config: &oauth2.Config{ClientID: "id", ClientSecret: "s", Endpoint: oauth2.Endpoint{AuthURL: "https://provider.test/auth", TokenURL: "https://provider.test/token"}},
			FindUserDetails: func(ctx context.Context, c oauth2.Config, t *oauth2.Token) (map[string]string, error) {
				uid, ok := oauthCodes.Load(t.AccessToken)
				if !ok {
					return nil, fmt.Errorf("provider: unknown access token")
				}
				return map[string]string{"uid": uid.(string)}, nil
			},
		},
	}
	hookOnce.Do(func() {
		aboauth2.SetExchangerForVerif(func(c *oauth2.Config, ctx context.Context, code string, _ ...oauth2.AuthCodeOption) (*oauth2.Token, error) {
			if _, ok := oauthCodes.Load(code); !ok {
				return nil, fmt.Errorf("provider: bad code")
			}
			return &oauth2.Token{AccessToken: code, Expiry: time.Now().Add(time.Hour)}, nil
		})
	})
	for _, u := range []string{"auth", "otp", "lock", "confirm", "remember", "recover", "register", "logout", "oauth2"} {
		if err := ab.Init(u); err != nil {
			return nil, fmt.Errorf("unit %s: %w", u, err)
		}
	}
	if err := (&totp2fa.TOTP{Authboss: ab}).Setup(); err != nil {
		return nil, err
	}
	if err := (&sms2fa.SMS{Authboss: ab, Sender: smsSender{in.SMS}}).Setup(); err != nil {
		return nil, err
	}
	if err := (&twofactor.Recovery{Authboss: ab}).Setup(); err != nil {
		return nil, err
	}
	if err := expire.Setup(ab); err != nil {
		return nil, err
	}
	mux := http.NewServeMux()
	mux.Handle("/auth/", http.StripPrefix("/auth", ab.Config.Core.Router))
	probe := http.HandlerFunc(func(rw http.ResponseWriter, r *http.Request) {
		pid, _ := ab.CurrentUserID(r)
		rw.WriteHeader(http.StatusOK)
		fmt.Fprintf(rw, "probe pid=%s", pid)
	})
	mux.Handle("/p/", authboss.Middleware2(ab, authboss.RequireNone, authboss.RespondUnauthorized)(probe))
	mux.Handle("/full/", authboss.Middleware2(ab, authboss.RequireFullAuth, authboss.RespondUnauthorized)(probe))
	mux.Handle("/open/", probe)
	mux.Handle("/r/", authboss.Middleware2(ab, authboss.RequireNone, authboss.RespondRedirect)(probe))
	mux.Handle("/", confirm.Middleware(ab)(lock.Middleware(ab)(probe)))
	var h http.Handler = mux
	h = authboss.ModuleListMiddleware(ab)(h) // as in the documented middleware stack
	h = expire.Middleware(ab)(h)
	h = remember.Middleware(ab)(h)
	in.Top = ab.LoadClientStateMiddleware(h)
	return in, nil
}

func (in *Inst) Close() {
	if in.smtp != nil {
		in.smtp.ln.Close()
	}
}

// ---- a client ---------------------------------------------------------------------------------

type Client struct {
	in         *Inst
	ID         int
	Sess, Cook map[string]string
	Transcript []string
	vol        map[string]string // volatile value -> placeholder
}

func (in *Inst) NewClient(id int) *Client {
	return &Client{in: in, ID: id, Sess: map[string]string{}, Cook: map[string]string{}, vol: map[string]string{}}
}

var volatileKeys = map[string]string{
	"rm": "<rm>", "oauth2_state": "<state>", "totp_secret": "<totp-secret>", "last_action": "<time>",
	"twofactor_auth_token": "<tok>", "sms_secret": "<code>", "sms_last": "<time>",
}

func (c *Client) canon(s string) string {
	// longest first, so that a value containing another is replaced whole
	ks := make([]string, 0, len(c.vol))
	for k := range c.vol {
		ks = append(ks, k)
	}
	sort.Slice(ks, func(i, j int) bool { return len(ks[i]) > len(ks[j]) })
	for _, k := range ks {
		if k != "" {
			s = strings.ReplaceAll(s, k, c.vol[k])
			s = strings.ReplaceAll(s, url.QueryEscape(k), c.vol[k])
		}
	}
	return s
}

func apply(jar map[string]string, evs []jarEvent) {
	for _, e := range evs {
		switch authboss.ClientStateEventKind(e.K) {
		case authboss.ClientStateEventPut:
			jar[e.Key] = e.Val
		case authboss.ClientStateEventDel:
			delete(jar, e.Key)
		case authboss.ClientStateEventDelAll:
			keep := map[string]bool{}
			for _, k := range strings.Split(e.Key, ",") {
				keep[k] = true
			}
			for k := range jar {
				if !keep[k] {
					delete(jar, k)
				}
			}
		}
	}
}

// Do sends one request; the canonical form of everything the client sees goes to the transcript.
func (c *Client) Do(label, method, target string, form url.Values) (int, map[string]interface{}) {
	var body io.Reader
	ct := ""
	if form != nil {
		if c.in.JSON {
			m := map[string]string{}
			for k := range form {
				m[k] = form.Get(k)
			}
			b, _ := json.Marshal(m)
			body, ct = bytes.NewReader(b), "application/json"
		} else {
			body, ct = strings.NewReader(form.Encode()), "application/x-www-form-urlencoded"
		}
	}
	req := httptest.NewRequest(method, "http://site.test"+target, body)
	if ct != "" {
		req.Header.Set("Content-Type", ct)
	}
	sj, _ := json.Marshal(c.Sess)
	cj, _ := json.Marshal(c.Cook)
	req.Header.Set("X-In-sess", string(sj))
	req.Header.Set("X-In-cook", string(cj))
	rec := httptest.NewRecorder()
	pan := ""
	func() {
		defer func() {
			if r := recover(); r != nil {
				pan = fmt.Sprint(r)
			}
		}()
		c.in.Top.ServeHTTP(rec, req)
	}()
	var evLines []string
	for _, kind := range []string{"sess", "cook"} {
		jar := c.Sess
		if kind == "cook" {
			jar = c.Cook
		}
		for _, h := range rec.Header().Values("X-Jar-" + kind) {
			var evs []jarEvent
			json.Unmarshal([]byte(h), &evs)
			for _, e := range evs {
				if ph, ok := volatileKeys[e.Key]; ok && e.Val != "" {
					c.vol[e.Val] = ph
				}
				evLines = append(evLines, fmt.Sprintf("%s:%d:%s=%s", kind, e.K, e.Key, e.Val))
			}
			apply(jar, evs)
		}
	}
	var js map[string]interface{}
	if strings.HasPrefix(rec.Header().Get("Content-Type"), "application/json") {
		json.NewDecoder(bytes.NewReader(rec.Body.Bytes())).Decode(&js)
		for _, k := range []string{"otp", "totp_secret", "qr"} {
			if v, ok := js[k].(string); ok {
				c.vol[v] = "<" + k + ">"
			}
		}
		if rc, ok := js["recovery_codes"].([]interface{}); ok {
			for i, v := range rc {
				if s, ok := v.(string); ok {
					c.vol[s] = fmt.Sprintf("<reccode%d>", i)
				}
			}
		}
	}
	hs := []string{}
	for k, vs := range rec.Header() {
		if strings.HasPrefix(k, "X-Jar-") {
			continue
		}
		for _, v := range vs {
			hs = append(hs, k+": "+v)
		}
	}
	sort.Strings(hs)
	line := fmt.Sprintf("%s -> %d | %s | %s | %s", label, rec.Code, strings.Join(hs, "; "), strings.Join(evLines, ", "), strings.TrimSpace(rec.Body.String()))
	if pan != "" {
		line += " PANIC " + pan
	}
	c.Transcript = append(c.Transcript, c.canon(line))
	return rec.Code, js
}

var tokRe = regexp.MustCompile(`(cnf|token)=([A-Za-z0-9_\-=%]+)`)

// WaitMail blocks for the next mail to rcpt and returns the token in its link.
func (c *Client) WaitMail(rcpt string) string {
	select {
	case m := <-c.in.Mail.box(rcpt):
		m = strings.ReplaceAll(m, "\\u0026", "&")
		if g := tokRe.FindStringSubmatch(m); g != nil {
			t, _ := url.QueryUnescape(g[2])
			c.vol[t] = "<mail-token>"
			c.Transcript = append(c.Transcript, "mail to "+rcpt+" with token")
			return t
		}
		c.Transcript = append(c.Transcript, "mail to "+rcpt+" WITHOUT token")
		return ""
	case <-time.After(20 * time.Second):
		c.Transcript = append(c.Transcript, "NO MAIL for "+rcpt)
		return ""
	}
}

// WaitSMS blocks for the next text message to number.
func (c *Client) WaitSMS(number string) string {
	select {
	case code := <-c.in.SMS.box(number):
		c.vol[code] = "<sms-code>"
		c.Transcript = append(c.Transcript, "sms to "+number)
		return code
	case <-time.After(20 * time.Second):
		c.Transcript = append(c.Transcript, "NO SMS for "+number)
		return ""
	}
}

// Script: one client's whole life on its own accounts.
func (c *Client) Script(rounds int) {
	for round := 0; round < rounds; round++ {
		me := fmt.Sprintf("c%dr%d@x.com", c.ID, round)
		pw, pw2 := fmt.Sprintf("Passw0rd!%d", c.ID), fmt.Sprintf("N3w!Passw%d", c.ID)
		f := func(kv ...string) url.Values {
			v := url.Values{}
			for i := 0; i+1 < len(kv); i += 2 {
				v.Set(kv[i], kv[i+1])
			}
			return v
		}
		// not logged in yet: a protected page in redirect mode sends to the login page with *this* request's return address
		c.Do("redirect-unauthed", "GET", fmt.Sprintf("/r/c%d/round%d?doc=%d&tab=%d", c.ID, round, c.ID*100+round, c.ID), nil)
		c.Do("register", "POST", "/auth/register", f("email", me, "password", pw, "confirm_password", pw))
		if t := c.WaitMail(me); t != "" {
			if c.in.JSON {
				c.Do("confirm", "POST", "/auth/confirm", f("cnf", t))
			} else {
				c.Do("confirm", "GET", "/auth/confirm?cnf="+url.QueryEscape(t), nil)
			}
		}
		c.Do("logout0", "DELETE", "/auth/logout", nil)
		c.Do("login-bad", "POST", "/auth/login", f("email", me, "password", "wrong"))
		c.Do("login", "POST", "/auth/login", f("email", me, "password", pw, "rm", "true"))
		c.Do("protected", "GET", "/p/x", nil)
		c.Do("root", "GET", "/", nil)
		_, js := c.Do("otp-add", "POST", "/auth/otp/add", nil)
		otp, _ := js["otp"].(string)
		// remember cookie in a new session
		saved := c.Sess
		c.Sess = map[string]string{}
		c.Do("remember", "GET", "/open/x", nil)
		c.Do("full-needs-reauth", "GET", "/full/x", nil)
		c.Sess = saved
		c.Do("logout", "DELETE", "/auth/logout", nil)
		c.Do("otp-login", "POST", "/auth/otp/login", f("email", me, "password", otp))
		c.Do("otp-login-again", "POST", "/auth/otp/login", f("email", me, "password", otp))
		c.Do("logout2", "DELETE", "/auth/logout", nil)
		c.Do("recover-start", "POST", "/auth/recover", f("email", me))
		if t := c.WaitMail(me); t != "" {
			c.Do("recover-end", "POST", "/auth/recover/end", f("token", t, "password", pw2, "confirm_password", pw2))
		}
		c.Do("login-old-pw", "POST", "/auth/login", f("email", me, "password", pw))
		c.Do("login-new-pw", "POST", "/auth/login", f("email", me, "password", pw2))
		// TOTP enrolment and a second-factor login
		// (recovery codes are bcrypt cost 10, slow under the race detector: once per client)
		if round == 0 {
			c.Do("totp-setup", "POST", "/auth/2fa/totp/setup", nil)
		}
		if sec := c.Sess["totp_secret"]; sec != "" && round == 0 {
			code, _ := totp.GenerateCode(sec, time.Now())
			c.vol[code] = "<totp-code>"
			c.Do("totp-confirm", "POST", "/auth/2fa/totp/confirm", f("code", code))
			c.Do("logout3", "DELETE", "/auth/logout", nil)
			c.Do("login-2fa", "POST", "/auth/login", f("email", me, "password", pw2))
			code2, _ := totp.GenerateCode(sec, time.Now())
			c.vol[code2] = "<totp-code>"
			c.Do("totp-validate", "POST", "/auth/2fa/totp/validate", f("code", code2))
		}
		// SMS second factor on the round-1 account (number of its own)
		if round == 1 {
			phone := fmt.Sprintf("+1555%04d%02d", c.ID, round)
			c.Do("sms-setup", "POST", "/auth/2fa/sms/setup", f("phone_number", phone))
			if code := c.WaitSMS(phone); code != "" {
				c.Do("sms-confirm", "POST", "/auth/2fa/sms/confirm", f("code", code))
				c.Do("logout-sms", "DELETE", "/auth/logout", nil)
				c.Do("login-sms", "POST", "/auth/login", f("email", me, "password", pw2))
				if code2 := c.WaitSMS(phone); code2 != "" {
					c.Do("sms-validate", "POST", "/auth/2fa/sms/validate", f("code", code2))
					c.Do("protected-after-sms", "GET", "/p/x", nil)
				}
			}
		}
		c.Do("logout4", "DELETE", "/auth/logout", nil)
		// OAuth2 round trip on an account of its own
		code := fmt.Sprintf("code-c%dr%d", c.ID, round)
		GrantCode(code, fmt.Sprintf("ext-c%dr%d", c.ID, round))
		c.Do("oauth2-start", "GET", "/auth/oauth2/stub?rm=true", nil)
		c.Do("oauth2-callback", "GET", "/auth/oauth2/callback/stub?code="+code+"&state="+url.QueryEscape(c.Sess["oauth2_state"]), nil)
		c.Do("protected-oauth", "GET", "/p/x", nil)
		c.Do("logout5", "DELETE", "/auth/logout", nil)
		c.Sess, c.Cook = map[string]string{}, map[string]string{}
	}
}
