// Package c18 enumerates backend faults: for every flow script, the clean run counts the
// backend calls (storage, hasher, renderer, mailer, SMS sender, OAuth2 provider) the target
// request makes; then the request is re-run once per call index and error kind with that
// call failing, under both the silent default error handler and one that writes a 500.
// Every faulted run goes to the Lean model as well (same fault oracle).
package c18

import (
	"encoding/base64"
	"fmt"
	"strings"

	"verif/internal/mach"
	"verif/internal/wire"
	"verif/internal/world"
)

const pw = "Passw0rd!"
const secret = "JBSWY3DPEHPK3PXP"

type script struct {
	name   string
	cfg    func(*world.Cfg)
	prefix func(m *mach.M) // brings the world to the state before the target request
	target func(m *mach.M, f *world.Fault) *world.Result
	route  string
}

func seedPlain(m *mach.M)  { m.SeedUser("a@x.com", pw, true, 0, 0, 0, false, false, []string{"o1-aaaa", "o2-bbbb"}, "", "", nil) }
func seedTotp(m *mach.M)   { m.SeedUser("t@x.com", pw, true, 0, 0, 0, false, false, []string{"o3-cccc"}, secret, "", []string{"abcde-fghij", "kmnop-qrstu"}) }
func seedSms(m *mach.M)    { m.SeedUser("s@x.com", pw, true, 0, 0, 0, false, false, nil, "", "+15550001", []string{"vwxyz-01234"}) }
func seedUnconf(m *mach.M) { m.SeedUser("u@x.com", pw, false, 0, 0, 0, false, false, nil, "", "", nil) }

func login(m *mach.M, b, pid string, rm bool) { m.HTTP(b, "login", mach.Args{PID: pid, PW: pw, RM: rm}, nil) }

func scripts() []script {
	return []script{
		{"register", nil, func(m *mach.M) {}, func(m *mach.M, f *world.Fault) *world.Result {
			return m.HTTP("b1", "register", mach.Args{PID: "n@x.com", PW: pw, PW2: pw}, f)
		}, "register"},
		{"register-existing", nil, seedPlain, func(m *mach.M, f *world.Fault) *world.Result {
			return m.HTTP("b1", "register", mach.Args{PID: "a@x.com", PW: pw, PW2: pw}, f)
		}, "register"},
		{"login-ok-rm", nil, seedPlain, func(m *mach.M, f *world.Fault) *world.Result {
			return m.HTTP("b1", "login", mach.Args{PID: "a@x.com", PW: pw, RM: true}, f)
		}, "login"},
		{"login-bad", nil, seedPlain, func(m *mach.M, f *world.Fault) *world.Result {
			return m.HTTP("b1", "login", mach.Args{PID: "a@x.com", PW: "wrong"}, f)
		}, "login"},
		{"login-unconfirmed", nil, seedUnconf, func(m *mach.M, f *world.Fault) *world.Result {
			return m.HTTP("b1", "login", mach.Args{PID: "u@x.com", PW: pw}, f)
		}, "login"},
		{"login-totp-hijack", nil, seedTotp, func(m *mach.M, f *world.Fault) *world.Result {
			return m.HTTP("b1", "login", mach.Args{PID: "t@x.com", PW: pw}, f)
		}, "login"},
		{"login-sms-hijack", nil, seedSms, func(m *mach.M, f *world.Fault) *world.Result {
			return m.HTTP("b1", "login", mach.Args{PID: "s@x.com", PW: pw}, f)
		}, "login"},
		{"otplogin-ok", nil, seedPlain, func(m *mach.M, f *world.Fault) *world.Result {
			return m.HTTP("b1", "otplogin", mach.Args{PID: "a@x.com", PW: "o1-aaaa"}, f)
		}, "otplogin"},
		{"otpadd", nil, func(m *mach.M) { seedPlain(m); login(m, "b1", "a@x.com", false) }, func(m *mach.M, f *world.Fault) *world.Result {
			return m.HTTP("b1", "otpadd", mach.Args{}, f)
		}, "otpadd"},
		{"otpclear", nil, func(m *mach.M) { seedPlain(m); login(m, "b1", "a@x.com", false) }, func(m *mach.M, f *world.Fault) *world.Result {
			return m.HTTP("b1", "otpclear", mach.Args{}, f)
		}, "otpclear"},
		{"confirm-ok", nil, func(m *mach.M) { m.HTTP("b1", "register", mach.Args{PID: "n@x.com", PW: pw, PW2: pw}, nil) }, func(m *mach.M, f *world.Fault) *world.Result {
			return m.HTTP("b2", "confirm", mach.Args{Token: lastMail(m, "confirm")}, f)
		}, "confirm"},
		{"recstart", nil, seedPlain, func(m *mach.M, f *world.Fault) *world.Result {
			return m.HTTP("b1", "recstart", mach.Args{PID: "a@x.com"}, f)
		}, "recstart"},
		{"recstart-missing", nil, seedPlain, func(m *mach.M, f *world.Fault) *world.Result {
			return m.HTTP("b1", "recstart", mach.Args{PID: "ghost@x.com"}, f)
		}, "recstart"},
		{"recend-ok", nil, func(m *mach.M) { seedPlain(m); login(m, "b3", "a@x.com", true); m.HTTP("b1", "recstart", mach.Args{PID: "a@x.com"}, nil) }, func(m *mach.M, f *world.Fault) *world.Result {
			return m.HTTP("b1", "recend", mach.Args{Token: lastMail(m, "recover"), PW: "N3w!Passw", PW2: "N3w!Passw"}, f)
		}, "recend"},
		{"recend-login", func(c *world.Cfg) { c.RecoverLogin = true }, func(m *mach.M) { seedPlain(m); m.HTTP("b1", "recstart", mach.Args{PID: "a@x.com"}, nil) }, func(m *mach.M, f *world.Fault) *world.Result {
			return m.HTTP("b1", "recend", mach.Args{Token: lastMail(m, "recover"), PW: "N3w!Passw", PW2: "N3w!Passw"}, f)
		}, "recend"},
		{"logout", nil, func(m *mach.M) { seedPlain(m); login(m, "b1", "a@x.com", true) }, func(m *mach.M, f *world.Fault) *world.Result {
			return m.HTTP("b1", "logout", mach.Args{}, f)
		}, "logout"},
		{"oauth2-callback-rm", nil, func(m *mach.M) { m.HTTP("b1", "ostart", mach.Args{Prov: "stub", RM: true}, nil); m.W.OAuth["c1"] = map[string]string{"uid": "u1"} }, func(m *mach.M, f *world.Fault) *world.Result {
			return m.HTTP("b1", "oend", mach.Args{Prov: "stub", OCode: "c1", State: m.W.B("b1").Sess["oauth2_state"]}, f)
		}, "oend"},
		{"remember-mw", nil, func(m *mach.M) { seedPlain(m); login(m, "b1", "a@x.com", true); m.SetCookie("b2", m.W.B("b1").Cook["rm"], true) }, func(m *mach.M, f *world.Fault) *world.Result {
			return m.HTTP("b2", "open", mach.Args{}, f)
		}, "open"},
		{"protected", nil, func(m *mach.M) { seedPlain(m); login(m, "b1", "a@x.com", false) }, func(m *mach.M, f *world.Fault) *world.Result {
			return m.HTTP("b1", "prot", mach.Args{Reqs: 1, Fail: 1, MP: 0, Path: "/x"}, f)
		}, "prot"},
		{"totp-setup", nil, func(m *mach.M) { seedPlain(m); login(m, "b1", "a@x.com", false) }, func(m *mach.M, f *world.Fault) *world.Result {
			return m.HTTP("b1", "totpsetup", mach.Args{}, f)
		}, "totpsetup"},
		{"totp-confirm", nil, func(m *mach.M) { seedPlain(m); login(m, "b1", "a@x.com", false); m.HTTP("b1", "totpsetup", mach.Args{}, nil) }, func(m *mach.M, f *world.Fault) *world.Result {
			return m.HTTP("b1", "totpconfirm", mach.Args{Code: mach.TOTPCode(m.W.B("b1").Sess["totp_secret"])}, f)
		}, "totpconfirm"},
		{"totp-validate", nil, func(m *mach.M) { seedTotp(m); login(m, "b1", "t@x.com", false) }, func(m *mach.M, f *world.Fault) *world.Result {
			return m.HTTP("b1", "totpvalidate", mach.Args{Code: mach.TOTPCode(secret)}, f)
		}, "totpvalidate"},
		{"totp-validate-reccode", func(c *world.Cfg) { c.OneTime = true }, func(m *mach.M) { seedTotp(m); login(m, "b1", "t@x.com", false) }, func(m *mach.M, f *world.Fault) *world.Result {
			return m.HTTP("b1", "totpvalidate", mach.Args{RCode: "abcde-fghij"}, f)
		}, "totpvalidate"},
		{"totp-remove", nil, func(m *mach.M) { seedTotp(m); login(m, "b1", "t@x.com", false); m.HTTP("b1", "totpvalidate", mach.Args{Code: mach.TOTPCode(secret)}, nil) }, func(m *mach.M, f *world.Fault) *world.Result {
			return m.HTTP("b1", "totpremove", mach.Args{RCode: "kmnop-qrstu"}, f)
		}, "totpremove"},
		{"sms-setup", nil, func(m *mach.M) { seedPlain(m); login(m, "b1", "a@x.com", false) }, func(m *mach.M, f *world.Fault) *world.Result {
			return m.HTTP("b1", "smssetup", mach.Args{Phone: "+15550009"}, f)
		}, "smssetup"},
		{"sms-confirm", nil, func(m *mach.M) { seedPlain(m); login(m, "b1", "a@x.com", false); m.HTTP("b1", "smssetup", mach.Args{Phone: "+15550009"}, nil) }, func(m *mach.M, f *world.Fault) *world.Result {
			return m.HTTP("b1", "smsconfirm", mach.Args{Code: m.W.B("b1").Sess["sms_secret"]}, f)
		}, "smsconfirm"},
		{"sms-validate", nil, func(m *mach.M) { seedSms(m); login(m, "b1", "s@x.com", false) }, func(m *mach.M, f *world.Fault) *world.Result {
			return m.HTTP("b1", "smsvalidate", mach.Args{Code: m.W.B("b1").Sess["sms_secret"]}, f)
		}, "smsvalidate"},
		{"sms-validate-reccode", nil, func(m *mach.M) { seedSms(m); login(m, "b1", "s@x.com", false) }, func(m *mach.M, f *world.Fault) *world.Result {
			return m.HTTP("b1", "smsvalidate", mach.Args{RCode: "vwxyz-01234"}, f)
		}, "smsvalidate"},
		{"regen", nil, func(m *mach.M) { seedPlain(m); login(m, "b1", "a@x.com", false) }, func(m *mach.M, f *world.Fault) *world.Result {
			return m.HTTP("b1", "regen", mach.Args{}, f)
		}, "regen"},
		{"email-verify-start", func(c *world.Cfg) { c.EmailAuth = true }, func(m *mach.M) { seedPlain(m); login(m, "b1", "a@x.com", false) }, func(m *mach.M, f *world.Fault) *world.Result {
			return m.HTTP("b1", "vstart", mach.Args{Kind: "totp"}, f)
		}, "vstart"},
		{"confirm-middleware", nil, func(m *mach.M) { seedPlain(m); login(m, "b1", "a@x.com", false) }, func(m *mach.M, f *world.Fault) *world.Result {
			return m.HTTP("b1", "confirmmw", mach.Args{}, f)
		}, "confirmmw"},
		{"root-middleware", nil, func(m *mach.M) { seedPlain(m); login(m, "b1", "a@x.com", false) }, func(m *mach.M, f *world.Fault) *world.Result {
			return m.HTTP("b1", "rootmw", mach.Args{}, f)
		}, "rootmw"},
		{"otplogin-totp-hijack", nil, seedTotp, func(m *mach.M, f *world.Fault) *world.Result {
			return m.HTTP("b1", "otplogin", mach.Args{PID: "t@x.com", PW: "o3-cccc"}, f)
		}, "otplogin"},
		{"recend-bad-token", nil, func(m *mach.M) { seedPlain(m); m.HTTP("b1", "recstart", mach.Args{PID: "a@x.com"}, nil) }, func(m *mach.M, f *world.Fault) *world.Result {
			t := lastMail(m, "recover")
			return m.HTTP("b1", "recend", mach.Args{Token: t[:len(t)-4] + "AAAA", PW: "N3w!Passw", PW2: "N3w!Passw"}, f)
		}, "recend"},
		{"oauth2-start", nil, func(m *mach.M) {}, func(m *mach.M, f *world.Fault) *world.Result {
			return m.HTTP("b1", "ostart", mach.Args{Prov: "stub", RM: true, Redir: "/x"}, f)
		}, "ostart"},
		{"sms-validate-resend", nil, func(m *mach.M) { seedSms(m); login(m, "b1", "s@x.com", false); m.Advance(11_000_000_000) }, func(m *mach.M, f *world.Fault) *world.Result {
			return m.HTTP("b1", "smsvalidate", mach.Args{}, f)
		}, "smsvalidate"},
		{"sms-remove", nil, func(m *mach.M) { seedSms(m); login(m, "b1", "s@x.com", false); m.HTTP("b1", "smsvalidate", mach.Args{Code: m.W.B("b1").Sess["sms_secret"]}, nil); m.HTTP("b1", "smsremove", mach.Args{}, nil) }, func(m *mach.M, f *world.Fault) *world.Result {
			return m.HTTP("b1", "smsremove", mach.Args{Code: m.W.B("b1").Sess["sms_secret"]}, f)
		}, "smsremove"},
		{"email-verify-end", func(c *world.Cfg) { c.EmailAuth = true }, func(m *mach.M) { seedPlain(m); login(m, "b1", "a@x.com", false); m.HTTP("b1", "vstart", mach.Args{Kind: "totp"}, nil) }, func(m *mach.M, f *world.Fault) *world.Result {
			return m.HTTP("b1", "vend", mach.Args{Kind: "totp", Token: lastMail(m, "verify")}, f)
		}, "vend"},
		{"login-locks", nil, func(m *mach.M) { seedPlain(m); m.HTTP("b1", "login", mach.Args{PID: "a@x.com", PW: "bad"}, nil); m.HTTP("b1", "login", mach.Args{PID: "a@x.com", PW: "bad"}, nil) }, func(m *mach.M, f *world.Fault) *world.Result {
			return m.HTTP("b1", "login", mach.Args{PID: "a@x.com", PW: "bad"}, f)
		}, "login"},
		{"login-while-locked", nil, func(m *mach.M) { seedPlain(m); m.APILock("a@x.com") }, func(m *mach.M, f *world.Fault) *world.Result {
			return m.HTTP("b1", "login", mach.Args{PID: "a@x.com", PW: pw}, f)
		}, "login"},
		{"lock-middleware", nil, func(m *mach.M) { seedPlain(m); login(m, "b1", "a@x.com", false) }, func(m *mach.M, f *world.Fault) *world.Result {
			return m.HTTP("b1", "lockmw", mach.Args{}, f)
		}, "lockmw"},
	}
}

func lastMail(m *mach.M, kind string) string {
	for i := len(m.W.Mails) - 1; i >= 0; i-- {
		if m.W.Mails[i].Kind == kind {
			return m.W.Mails[i].Token
		}
	}
	return ""
}

func kindsFor(call string) []string {
	switch call {
	case "Load", "LoadByConfirmSelector", "LoadByRecoverSelector":
		return []string{"generic", "notfound"}
	case "UseRememberToken":
		return []string{"generic", "tokennotfound"}
	case "Create":
		return []string{"generic", "userfound"}
	}
	return []string{"generic"}
}

type state struct {
	users  map[string]world.User
	tokens map[string][]string
}

func snap(m *mach.M) state {
	s := state{users: map[string]world.User{}, tokens: map[string][]string{}}
	for k, u := range m.W.Store.Users {
		s.users[k] = *u
	}
	for k, t := range m.W.Store.Tokens {
		s.tokens[k] = append([]string(nil), t...)
	}
	return s
}

func contains(l []string, x string) bool {
	for _, y := range l {
		if y == x {
			return true
		}
	}
	return false
}

// Run enumerates (tier: quick = a subset of scripts, silent handler + 500 handler).
func Run(seed int64, n int) *wire.Out {
	out := wire.NewOut("c18", seed)
	out.Meta.Rule = "per flow script: clean run, then one run per backend call index and error kind (generic; not-found / token-not-found / user-found where the interface allows), under the silent default error handler and a 500-writing one, form and JSON mode alternating; exhaustive over call indices of every script; non-trivial = every faulted run; distinct by (script, handler, index, kind)"
	out.Meta.Exhaustive = true
	sc := scripts()
	for si, s := range sc {
		if n > 0 && si >= n {
			break
		}
		for _, e500 := range []bool{false, true} {
			build := func() *mach.M {
				cfg := world.DefaultCfg()
				cfg.Err500 = e500
				cfg.JSON = si%3 == 2
				cfg.LockAfter = 3
				if s.cfg != nil {
					s.cfg(&cfg)
				}
				m, err := mach.New(cfg, out)
				if err != nil {
					panic(err)
				}
				s.prefix(m)
				return m
			}
			m := build()
			cleanPre := m.StoreLine()
			clean := s.target(m, nil)
			cleanPost, cleanResp := m.StoreLine(), respOf(m.LastObs)
			calls := clean.Calls
			out.Count(fmt.Sprintf("script:%s calls:%d", s.name, len(calls)))
			for i, call := range calls {
				for _, kind := range kindsFor(call) {
					m := build()
					pre := snap(m)
					storeLine0 := m.StoreLine()
					preJar := map[string]string{}
					b := "b1"
					if s.name == "remember-mw" || s.name == "confirm-ok" {
						b = "b2"
					}
					for k, v := range m.W.B(b).Sess {
						preJar[k] = v
					}
					r := s.target(m, &world.Fault{At: i, Kind: kind})
					out.Meta.Distinct++
					out.Count("fault:" + call + ":" + kind)
					tag := fmt.Sprintf("%s/e500=%v/call %d (%s) %s", s.name, e500, i, call, kind)
					rep := []string{tag, out.Ops[len(out.Ops)-1]}
					// ---- monitors -------------------------------------------------------------
					// (panics, unconsumed credentials, resurrected credentials and weakened state are flagged by
					// the generic C18 monitors of package mach, which run inside m.HTTP)
					post := snap(m)
					newU := m.W.B(b).Sess["uid"]
					// a failed request never makes a spent or rejected credential acceptable again
					for pid, u1 := range post.users {
						u0, existed := pre.users[pid]
						if !existed {
							continue
						}
						for _, h := range strings.Split(u1.OTPs, ",") {
							if h != "" && !strings.Contains(u0.OTPs, h) && s.route != "otpadd" {
								out.Violate(wire.Violation{Property: "C18", What: "a one-time password appeared in storage after a failed request: " + tag, Site: "resurrect:otp", Replay: rep})
							}
						}
						if u1.Confirmed && !u0.Confirmed && s.route != "confirm" {
							out.Violate(wire.Violation{Property: "C18", What: "account became confirmed by a failing " + s.route + " request: " + tag, Site: "weaken:confirmed", Replay: rep})
						}
						if u0.Locked.After(u1.Locked) && !u1.Locked.Equal(u0.Locked) {
							out.Violate(wire.Violation{Property: "C18", What: "a lock was shortened by a failing request: " + tag, Site: "weaken:lock", Replay: rep})
						}
						if u1.TOTPSecretKey == "" && u0.TOTPSecretKey != "" && s.route != "totpremove" {
							out.Violate(wire.Violation{Property: "C18", What: "TOTP was switched off by a failing " + s.route + " request: " + tag, Site: "weaken:totp", Replay: rep})
						}
					}
					// no fake success: a response that reports the change although it was not saved
					tok := m.LastObs
					success := strings.Contains(tok, "resp=redir:") && !strings.Contains(tok, ":-:-") && strings.Contains(tok, ":-") && !strings.HasPrefix(afterResp(tok), "redir:2f:-:") ||
						strings.Contains(tok, "_success:")
					_ = success
					switch s.route {
					case "recend":
						if strings.Contains(tok, "RecoverSuccessMsg") || strings.Contains(tok, "RecoverAndLoginSuccessMsg") {
							if post.users["a@x.com"].Password == pre.users["a@x.com"].Password {
								out.Violate(wire.Violation{Property: "C18", What: "recovery reported success but the password was not changed: " + tag, Site: "fake-success:recend", Replay: rep})
							}
						}
					case "confirm":
						if strings.Contains(tok, "ConfrimationSuccess") && !post.users["n@x.com"].Confirmed {
							out.Violate(wire.Violation{Property: "C18", What: "confirmation reported success but was not saved: " + tag, Site: "fake-success:confirm", Replay: rep})
						}
					case "register":
						if strings.Contains(tok, "RegisteredAndLoggedIn") || newU == "n@x.com" {
							if _, ok := post.users["n@x.com"]; !ok {
								out.Violate(wire.Violation{Property: "C18", What: "registration reported success / logged in but no account was created: " + tag, Site: "fake-success:register", Replay: rep})
							}
						}
					case "totpconfirm":
						if strings.Contains(tok, "totp2fa_confirm_success") && post.users["a@x.com"].TOTPSecretKey == "" {
							out.Violate(wire.Violation{Property: "C18", What: "TOTP enrolment reported success but was not saved: " + tag, Site: "fake-success:totpconfirm", Replay: rep})
						}
					case "smsconfirm":
						if strings.Contains(tok, "sms2fa_confirm_success") && post.users["a@x.com"].SMSPhoneNumber == "" {
							out.Violate(wire.Violation{Property: "C18", What: "SMS enrolment reported success but was not saved: " + tag, Site: "fake-success:smsconfirm", Replay: rep})
						}
					case "otpadd":
						if strings.Contains(tok, "page:otpadd:otp ") && post.users["a@x.com"].OTPs == pre.users["a@x.com"].OTPs {
							out.Violate(wire.Violation{Property: "C18", What: "a new one-time password was shown but not saved: " + tag, Site: "fake-success:otpadd", Replay: rep})
						}
					}
					// generic form: the response of the clean run (which changed storage) given although nothing was stored
					if cleanPre != cleanPost && respOf(tok) == cleanResp && r.Panic == "" && storeLine0 == m.StoreLine() && reportsSuccess(cleanResp) && kind != "notfound" && kind != "tokennotfound" {
						out.Violate(wire.Violation{Property: "C18", What: "the response is the one of the successful run (" + cleanResp + ") although nothing was saved: " + tag, Site: "fake-success:" + s.route, Replay: rep})
					}
					// no session on the strength of a one-time credential whose consumption was not saved
					if newU != "" && newU != preJar["uid"] {
						switch s.name {
						case "otplogin-ok":
							if strings.Contains(post.users["a@x.com"].OTPs, shaB64("o1-aaaa")) {
								out.Violate(wire.Violation{Property: "C18", What: "session issued on a one-time password that is still in storage: " + tag, Site: "unconsumed:otp", Replay: rep})
							}
						case "remember-mw":
							raw, _ := base64.URLEncoding.DecodeString(m.W.B("b1").Cook["rm"])
							if contains(post.tokens["a@x.com"], shaB64(string(raw))) {
								out.Violate(wire.Violation{Property: "C18", What: "session issued on a remember token that is still in storage: " + tag, Site: "unconsumed:remember", Replay: rep})
							}
						case "totp-validate-reccode", "sms-validate-reccode":
							if nonEmpty(post.users[newU].RecoveryCodes) >= nonEmpty(pre.users[newU].RecoveryCodes) {
								out.Violate(wire.Violation{Property: "C18", What: "session issued on a recovery code whose removal was not saved: " + tag, Site: "unconsumed:reccode", Replay: rep})
							}
						}
					}
				}
			}
		}
	}
	return out
}

func nonEmpty(csv string) int {
	n := 0
	for _, x := range strings.Split(csv, ",") {
		if x != "" {
			n++
		}
	}
	return n
}

func firstLine(s string) string {
	if i := strings.Index(s, "\n"); i >= 0 {
		return s[:i]
	}
	return s
}

// reportsSuccess: a redirect carrying a success flash, or a page that is not an error page.
// ("not found" kinds are excluded by the caller: an absent account is an answer, not a failure,
// and recover deliberately answers it like a present one.)
func reportsSuccess(resp string) bool {
	f := strings.Split(resp, ":")
	switch f[0] {
	case "redir":
		return len(f) >= 4 && f[2] != "-"
	case "page":
		return !strings.Contains(resp, ":error:")
	}
	return false
}

func respOf(obs string) string {
	r := afterResp(obs)
	if i := strings.Index(r, " "); i >= 0 {
		return r[:i]
	}
	return r
}

func afterResp(obs string) string {
	if i := strings.Index(obs, "resp="); i >= 0 {
		return obs[i+5:]
	}
	return obs
}

func shaB64(x string) string { return mach.ShaB64(x) }
