// Package c11 drives the real authboss.ClientStateResponseWriter with random
// handler programs and records what reaches the stores and the underlying writer.
package c11

import (
	"fmt"
	"math/rand"
	"net/http"
	"net/http/httptest"
	"strings"

	"github.com/volatiletech/authboss/v3"

	"verif/internal/wire"
)

type ev = authboss.ClientStateEvent

type trace struct{ toks []string }

func (t *trace) add(s string) { t.toks = append(t.toks, s) }

type mapState map[string]string

func (m mapState) Get(k string) (string, bool) { v, ok := m[k]; return v, ok }

type recStore struct {
	tag    string
	tr     *trace
	fail   bool
	loaded mapState
}

func (s *recStore) ReadState(*http.Request) (authboss.ClientState, error) { return s.loaded, nil }
func (s *recStore) WriteState(w http.ResponseWriter, st authboss.ClientState, evs []ev) error {
	parts := make([]string, len(evs))
	for i, e := range evs {
		switch e.Kind {
		case authboss.ClientStateEventPut:
			parts[i] = "p:" + wire.Hex(e.Key) + ":" + wire.Hex(e.Value)
		case authboss.ClientStateEventDel:
			parts[i] = "d:" + wire.Hex(e.Key)
		case authboss.ClientStateEventDelAll:
			parts[i] = "a:" + wire.Hex(e.Key)
		}
	}
	s.tr.add(s.tag + "[" + strings.Join(parts, ",") + "]")
	// a real store sets headers here; do so through the writer we were given
	w.Header().Add("X-Store", s.tag)
	if s.fail {
		return fmt.Errorf("store %s failed", s.tag)
	}
	return nil
}

// underlying writer
type under struct {
	tr *trace
	h  http.Header
}

func (u *under) Header() http.Header { return u.h }
func (u *under) WriteHeader(c int)   { u.tr.add(fmt.Sprintf("hdr:%d", c)) }
func (u *under) Write(b []byte) (int, error) {
	u.tr.add("body:" + wire.Hex(string(b)))
	return len(b), nil
}

// two kinds of wrappers authboss knows how to see through
type uw struct{ http.ResponseWriter }

func (u uw) UnderlyingResponseWriter() http.ResponseWriter { return u.ResponseWriter }

type ww struct{ http.ResponseWriter }

func (u ww) Unwrap() http.ResponseWriter { return u.ResponseWriter }

type op struct {
	kind string // ps pc ds dc da wh w
	k, v string
	code int
	wrap int // through how many of the wrappers (0..depth) the call is made
}

func (o op) tok() string {
	switch o.kind {
	case "ps", "pc":
		return o.kind + ":" + wire.Hex(o.k) + ":" + wire.Hex(o.v)
	case "ds", "dc", "da":
		return o.kind + ":" + wire.Hex(o.k)
	case "wh":
		return fmt.Sprintf("wh:%d", o.code)
	default:
		return "w:" + wire.Hex(o.v)
	}
}

var keys = []string{"uid", "halfauth", "last_action", "twofactor", "rm", "oauth2_state", "k;1", "", "a,b", "\x00\xff"}

func randStr(r *rand.Rand) string {
	if r.Intn(3) > 0 {
		return keys[r.Intn(len(keys))]
	}
	n := r.Intn(6)
	b := make([]byte, n)
	for i := range b {
		b[i] = byte(r.Intn(256))
	}
	return string(b)
}

func genProgram(r *rand.Rand, maxLen int) []op {
	n := r.Intn(maxLen + 1)
	// writes are rarer than state ops so that programs have a meaningful prefix
	p := make([]op, n)
	wprob := []int{2, 8, 25}[r.Intn(3)]
	for i := range p {
		x := r.Intn(100)
		switch {
		case x < wprob/2:
			p[i] = op{kind: "wh", code: []int{200, 302, 307, 404, 500}[r.Intn(5)]}
		case x < wprob:
			p[i] = op{kind: "w", v: randStr(r)}
		default:
			switch r.Intn(10) {
			case 0, 1, 2:
				p[i] = op{kind: "ps", k: randStr(r), v: randStr(r)}
			case 3, 4:
				p[i] = op{kind: "pc", k: randStr(r), v: randStr(r)}
			case 5, 6:
				p[i] = op{kind: "ds", k: randStr(r)}
			case 7:
				p[i] = op{kind: "dc", k: randStr(r)}
			default:
				p[i] = op{kind: "da", k: strings.Join([]string{randStr(r), randStr(r)}[:r.Intn(3)], ",")}
			}
		}
		p[i].wrap = r.Intn(5)
	}
	return p
}

type cfg struct{ sr, cr, sf, cf bool }

// exec runs the program against the real writer. Returns the trace and read-snapshot violations.
func exec(c cfg, depth int, kinds []bool, p []op) (toks []string, readViol string) {
	tr := &trace{}
	ab := authboss.New()
	sLoaded := mapState{"uid": "loaded-user", "k;1": "v0"}
	cLoaded := mapState{"rm": "loaded-cookie"}
	if c.sr {
		ab.Config.Storage.SessionState = &recStore{tag: "S", tr: tr, fail: c.sf, loaded: sLoaded}
	}
	if c.cr {
		ab.Config.Storage.CookieState = &recStore{tag: "C", tr: tr, fail: c.cf, loaded: cLoaded}
	}
	u := &under{tr: tr, h: http.Header{}}
	csrw := ab.NewResponse(u)
	req := httptest.NewRequest("GET", "/", nil)
	req, err := ab.LoadClientState(csrw, req)
	if err != nil {
		panic(err)
	}
	// writers[i] = csrw wrapped i times
	writers := []http.ResponseWriter{csrw}
	var cur http.ResponseWriter = csrw
	for i := 0; i < depth; i++ {
		if kinds[i] {
			cur = uw{cur}
		} else {
			cur = ww{cur}
		}
		writers = append(writers, cur)
	}
	func() {
		defer func() {
			if rec := recover(); rec != nil {
				tr.add("panic")
			}
		}()
		for _, o := range p {
			w := writers[o.wrap%len(writers)]
			switch o.kind {
			case "ps":
				authboss.PutSession(w, o.k, o.v)
			case "pc":
				authboss.PutCookie(w, o.k, o.v)
			case "ds":
				authboss.DelSession(w, o.k)
			case "dc":
				authboss.DelCookie(w, o.k)
			case "da":
				var wl []string
				if o.k != "" {
					wl = strings.Split(o.k, ",")
				}
				// strings.Join(strings.Split(k, ","), ",") == k for non-empty k
				authboss.DelAllSession(w, wl)
			case "wh":
				w.WriteHeader(o.code)
			case "w":
				if _, err := w.Write([]byte(o.v)); err != nil {
					tr.add("werr")
				}
			}
			// reads always see the snapshot loaded at request start
			if c.sr {
				for k, v := range sLoaded {
					if got, ok := authboss.GetSession(req, k); !ok || got != v {
						readViol = fmt.Sprintf("GetSession(%q)=%q,%v after %s", k, got, ok, o.tok())
					}
				}
				if _, ok := authboss.GetSession(req, "never-loaded"); ok {
					readViol = "GetSession(never-loaded) present"
				}
			}
			if c.cr {
				if got, ok := authboss.GetCookie(req, "rm"); !ok || got != "loaded-cookie" {
					readViol = fmt.Sprintf("GetCookie(rm)=%q,%v after %s", got, ok, o.tok())
				}
			}
		}
	}()
	return tr.toks, readViol
}

// monitor states C11 directly on the real trace, independent of the Lean model.
func monitor(c cfg, p []op, toks []string) string {
	nS, nC := 0, 0
	seenByte := false
	for _, t := range toks {
		isCall := strings.HasPrefix(t, "S[") || strings.HasPrefix(t, "C[")
		if isCall && seenByte {
			return "store call after a header/body byte"
		}
		if strings.HasPrefix(t, "S[") {
			nS++
		} else if strings.HasPrefix(t, "C[") {
			nC++
		} else if strings.HasPrefix(t, "hdr:") || strings.HasPrefix(t, "body:") {
			seenByte = true
		}
	}
	if nS > 1 || nC > 1 {
		return "a store received more than one WriteState"
	}
	// content: ops before first write, per store, in order
	var se, ce []string
	wrote := false
	for _, o := range p {
		if o.kind == "wh" || o.kind == "w" {
			wrote = true
			break
		}
		switch o.kind {
		case "ps":
			se = append(se, "p:"+wire.Hex(o.k)+":"+wire.Hex(o.v))
		case "ds":
			se = append(se, "d:"+wire.Hex(o.k))
		case "da":
			se = append(se, "a:"+wire.Hex(o.k))
		case "pc":
			ce = append(ce, "p:"+wire.Hex(o.k)+":"+wire.Hex(o.v))
		case "dc":
			ce = append(ce, "d:"+wire.Hex(o.k))
		}
	}
	wantS := "S[" + strings.Join(se, ",") + "]"
	wantC := "C[" + strings.Join(ce, ",") + "]"
	for _, t := range toks {
		if strings.HasPrefix(t, "S[") && t != wantS {
			return "session call content differs from the pre-write session ops: " + t + " vs " + wantS
		}
		if strings.HasPrefix(t, "C[") && t != wantC {
			return "cookie call content differs from the pre-write cookie ops: " + t + " vs " + wantC
		}
	}
	if !wrote && len(toks) != 0 {
		return "output without any write op"
	}
	if wrote && c.sr && len(se) > 0 && nS != 1 {
		return "pending session changes were not delivered"
	}
	if wrote && c.cr && len(ce) > 0 && nC != 1 && !(c.sr && c.sf && len(se) > 0) {
		return "pending cookie changes were not delivered"
	}
	return ""
}

// Run generates n programs.
func Run(seed int64, n, maxLen int) *wire.Out {
	r := rand.New(rand.NewSource(seed))
	out := wire.NewOut("c11", seed)
	out.Meta.Rule = "random handler programs over put/del/delAll on both stores, header and body writes, each call made through 0..4 nested wrappers of both kinds; non-trivial = program has a write op AND a state op before it; distinct by op-token line"
	seen := map[string]bool{}
	for i := 0; i < n; i++ {
		c := cfg{sr: true, cr: true}
		switch r.Intn(12) {
		case 0:
			c.sf = true
		case 1:
			c.cf = true
		case 2:
			c.sr = false
		case 3:
			c.cr = false
		case 4:
			c.sf, c.cf = true, true
		}
		depth := r.Intn(5)
		kinds := make([]bool, depth)
		for j := range kinds {
			kinds[j] = r.Intn(2) == 0
		}
		p := genProgram(r, maxLen)
		toks, rv := exec(c, depth, kinds, p)
		optoks := make([]string, len(p))
		nontriv, hasW, pre := false, false, 0
		for j, o := range p {
			optoks[j] = o.tok()
			if o.kind == "wh" || o.kind == "w" {
				if !hasW && pre > 0 {
					nontriv = true
				}
				hasW = true
			} else if !hasW {
				pre++
			}
			out.Count("op:" + o.kind)
		}
		line := fmt.Sprintf("csrw %s %s %s %s %s", wire.Bool(c.sr), wire.Bool(c.cr), wire.Bool(c.sf), wire.Bool(c.cf), strings.Join(optoks, " "))
		line = strings.TrimRight(line, " ")
		out.Add(line, strings.Join(toks, " "))
		out.Count(fmt.Sprintf("cfg:sr%v,cr%v,sf%v,cf%v", c.sr, c.cr, c.sf, c.cf))
		out.Count(fmt.Sprintf("wrapdepth:%d", depth))
		if nontriv && !seen[line] {
			seen[line] = true
			out.Meta.Distinct++
		}
		if m := monitor(c, p, toks); m != "" {
			out.Violate(wire.Violation{Property: "C11", What: m, Site: "client_state", Replay: []string{line, "go: " + strings.Join(toks, " ")}})
		}
		if rv != "" {
			out.Violate(wire.Violation{Property: "C11", What: "read snapshot changed: " + rv, Site: "client_state.read", Replay: []string{line}})
		}
	}
	return out
}
