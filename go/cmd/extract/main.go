// extract: the T1 translator.  Parses the working tree of /repo (go/parser only, no
// type checking, stdlib only) and emits Lean data describing it:
//
//   - every string/int constant of every library package
//   - a canonical skeleton of every function/method (printed AST, comments and
//     logger statements removed) — the unit the model's handlers are written against
//   - every logger call with its format string and printed argument expressions
//   - every package-level variable
//   - every Events.Before/After registration and every Router.Get/Post/Delete route
//   - every PutSession/DelSession/PutCookie/DelCookie/DelAllSession call site
//
// Output: one Lean file, namespace Generated.  Tie/*.lean compares it to Tie/Expected.lean.
package main

import (
	"bytes"
	"flag"
	"fmt"
	"go/ast"
	"go/parser"
	"go/printer"
	"go/token"
	"os"
	"path/filepath"
	"sort"
	"strings"
)

var pkgs = []string{
	".", "auth", "confirm", "defaults", "expire", "lock", "logout", "oauth2", "otp",
	"otp/twofactor", "otp/twofactor/sms2fa", "otp/twofactor/totp2fa", "recover", "register", "remember",
}

func leanStr(s string) string {
	var b strings.Builder
	b.WriteByte('"')
	for _, r := range s {
		switch r {
		case '\\':
			b.WriteString("\\\\")
		case '"':
			b.WriteString("\\\"")
		case '\n':
			b.WriteString("\\n")
		case '\t':
			b.WriteString("\\t")
		case '\r':
			b.WriteString("\\r")
		default:
			if r < 0x20 || r == 0x7f {
				fmt.Fprintf(&b, "\\x%02x", r)
			} else {
				b.WriteRune(r)
			}
		}
	}
	b.WriteByte('"')
	return b.String()
}

func ident(s string) string {
	var b strings.Builder
	for _, r := range s {
		if r >= 'a' && r <= 'z' || r >= 'A' && r <= 'Z' || r >= '0' && r <= '9' || r == '_' {
			b.WriteRune(r)
		} else {
			b.WriteByte('_')
		}
	}
	return b.String()
}

func pkgName(dir string) string {
	if dir == "." {
		return "authboss"
	}
	return strings.ReplaceAll(dir, "/", "_")
}

func show(fset *token.FileSet, n ast.Node) string {
	var buf bytes.Buffer
	cfg := printer.Config{Mode: printer.RawFormat, Tabwidth: 1}
	cfg.Fprint(&buf, fset, n)
	// collapse whitespace runs so formatting never matters
	return strings.Join(strings.Fields(buf.String()), " ")
}

func isLoggerCall(fset *token.FileSet, e ast.Expr) (string, *ast.CallExpr, bool) {
	call, ok := e.(*ast.CallExpr)
	if !ok {
		return "", nil, false
	}
	sel, ok := call.Fun.(*ast.SelectorExpr)
	if !ok {
		return "", nil, false
	}
	switch sel.Sel.Name {
	case "Infof", "Errorf", "Info", "Error":
	default:
		return "", nil, false
	}
	recv := show(fset, sel.X)
	lr := strings.ToLower(recv)
	if strings.Contains(lr, "log") {
		return sel.Sel.Name, call, true
	}
	return "", nil, false
}

// stripLogs removes logger statements (and `logger := ...` definitions) from a block, recursively.
func stripLogs(fset *token.FileSet, n ast.Node) {
	ast.Inspect(n, func(x ast.Node) bool {
		switch b := x.(type) {
		case *ast.BlockStmt:
			b.List = filterStmts(fset, b.List)
		case *ast.CaseClause:
			b.Body = filterStmts(fset, b.Body)
		case *ast.CommClause:
			b.Body = filterStmts(fset, b.Body)
		}
		return true
	})
}

func filterStmts(fset *token.FileSet, in []ast.Stmt) []ast.Stmt {
	out := in[:0:0]
	for _, s := range in {
		if es, ok := s.(*ast.ExprStmt); ok {
			if _, _, isLog := isLoggerCall(fset, es.X); isLog {
				continue
			}
		}
		if as, ok := s.(*ast.AssignStmt); ok && len(as.Lhs) == 1 && len(as.Rhs) == 1 {
			if id, ok := as.Lhs[0].(*ast.Ident); ok && (id.Name == "logger" || id.Name == "log") {
				r := show(fset, as.Rhs[0])
				if strings.Contains(r, "RequestLogger(") || strings.Contains(r, ".Logger(") {
					continue
				}
			}
		}
		out = append(out, s)
	}
	return out
}

type kv struct{ k, v string }

func main() {
	repo := flag.String("repo", "/repo", "repository root")
	outp := flag.String("out", "Facts.lean", "output Lean file")
	flag.Parse()

	var consts, funcs, logs, vars, events, routes, state []kv

	for _, dir := range pkgs {
		fset := token.NewFileSet()
		full := filepath.Join(*repo, dir)
		parsed, err := parser.ParseDir(fset, full, func(fi os.FileInfo) bool {
			return !strings.HasSuffix(fi.Name(), "_test.go")
		}, parser.SkipObjectResolution|parser.ParseComments)
		if err != nil {
			fmt.Fprintln(os.Stderr, "parse error:", err)
			os.Exit(1)
		}
		pn := pkgName(dir)
		var files []*ast.File
		var names []string
		for _, p := range parsed {
			for fn := range p.Files {
				names = append(names, fn)
			}
			sort.Strings(names)
			for _, fn := range names {
				files = append(files, p.Files[fn])
			}
		}
		for _, f := range files {
			// files guarded by the verif build tag are hooks, not library code
			guarded := false
			for _, cg := range f.Comments {
				if cg.Pos() < f.Package && strings.Contains(cg.Text(), "go:build verif") {
					guarded = true
				}
			}
			for _, c := range f.Comments {
				for _, l := range c.List {
					if strings.HasPrefix(l.Text, "//go:build") && strings.Contains(l.Text, "verif") {
						guarded = true
					}
				}
			}
			if guarded {
				continue
			}
			for _, d := range f.Decls {
				switch d := d.(type) {
				case *ast.GenDecl:
					if d.Tok == token.CONST {
						for _, sp := range d.Specs {
							vs := sp.(*ast.ValueSpec)
							for i, nm := range vs.Names {
								val := "<iota-or-implicit>"
								if i < len(vs.Values) {
									val = show(fset, vs.Values[i])
								}
								consts = append(consts, kv{pn + "." + nm.Name, val})
							}
						}
					}
					if d.Tok == token.VAR {
						for _, sp := range d.Specs {
							vs := sp.(*ast.ValueSpec)
							for i, nm := range vs.Names {
								val := ""
								if i < len(vs.Values) {
									val = show(fset, vs.Values[i])
								} else if vs.Type != nil {
									val = ":" + show(fset, vs.Type)
								}
								vars = append(vars, kv{pn + "." + nm.Name, val})
							}
						}
					}
				case *ast.FuncDecl:
					name := d.Name.Name
					if d.Recv != nil && len(d.Recv.List) > 0 {
						t := show(fset, d.Recv.List[0].Type)
						t = strings.TrimPrefix(t, "*")
						name = t + "." + name
					}
					fq := pn + "." + name
					if d.Body == nil {
						continue
					}
					// side tables first (on the unmodified body)
					ast.Inspect(d.Body, func(x ast.Node) bool {
						call, ok := x.(*ast.CallExpr)
						if !ok {
							return true
						}
						if kind, c, isLog := isLoggerCall(fset, call); isLog {
							args := make([]string, len(c.Args))
							for i, a := range c.Args {
								args[i] = show(fset, a)
							}
							logs = append(logs, kv{fq, kind + "(" + strings.Join(args, " | ") + ")"})
						}
						fun := show(fset, call.Fun)
						short := fun
						if i := strings.LastIndex(fun, "."); i >= 0 {
							short = fun[i+1:]
						}
						switch short {
						case "Before", "After":
							if strings.HasSuffix(fun, "Events."+short) && len(call.Args) == 2 {
								events = append(events, kv{fq, short + " " + show(fset, call.Args[0]) + " " + show(fset, call.Args[1])})
							}
						case "Get", "Post", "Delete":
							if strings.Contains(fun, "Router.") && len(call.Args) == 2 {
								routes = append(routes, kv{fq, short + " " + show(fset, call.Args[0]) + " " + show(fset, call.Args[1])})
							}
						case "PutSession", "DelSession", "PutCookie", "DelCookie", "DelAllSession", "DelKnownSession", "DelKnownCookie":
							args := make([]string, 0, len(call.Args))
							for i, a := range call.Args {
								if i == 0 {
									continue
								}
								args = append(args, show(fset, a))
							}
							state = append(state, kv{fq, short + "(" + strings.Join(args, ", ") + ")"})
						case "callbackMethod", "routerMethod", "logoutRouteMethod":
							if len(call.Args) == 2 {
								routes = append(routes, kv{fq, short + " " + show(fset, call.Args[0]) + " " + show(fset, call.Args[1])})
							}
						}
						return true
					})
					stripLogs(fset, d.Body)
					sig := show(fset, d.Type)
					funcs = append(funcs, kv{fq, sig + " " + show(fset, d.Body)})
				}
			}
		}
	}

	var b strings.Builder
	b.WriteString("/- GENERATED by /verif/go/cmd/extract from the working tree of /repo. Do not edit. -/\n")
	b.WriteString("namespace Generated\n\n")
	emitTable := func(name string, rows []kv) {
		fmt.Fprintf(&b, "def %s : List (String × String) := [\n", name)
		for i, r := range rows {
			sep := ","
			if i == len(rows)-1 {
				sep = ""
			}
			fmt.Fprintf(&b, "  (%s, %s)%s\n", leanStr(r.k), leanStr(r.v), sep)
		}
		b.WriteString("]\n\n")
	}
	// one table per (kind, package) so that a tie depends on exactly one source unit
	perPkg := func(name string, rows []kv) {
		for _, dir := range pkgs {
			pn := pkgName(dir)
			var sub []kv
			for _, r := range rows {
				if strings.HasPrefix(r.k, pn+".") {
					sub = append(sub, r)
				}
			}
			emitTable(name+"_"+pn, sub)
		}
	}
	perPkg("consts", consts)
	perPkg("logCalls", logs)
	perPkg("pkgVars", vars)
	perPkg("eventRegs", events)
	perPkg("routes", routes)
	perPkg("stateCalls", state)
	// functions individually, so that each tie names one unit
	sort.SliceStable(funcs, func(i, j int) bool { return funcs[i].k < funcs[j].k })
	seen := map[string]int{}
	var fnames []string
	for _, f := range funcs {
		id := "fn_" + ident(f.k)
		seen[id]++
		if seen[id] > 1 {
			id = fmt.Sprintf("%s_%d", id, seen[id])
		}
		fmt.Fprintf(&b, "def %s : String := %s\n", id, leanStr(f.v))
		fnames = append(fnames, f.k)
	}
	b.WriteString("\n")
	fmt.Fprintf(&b, "def funcNames : List String := [\n")
	for i, n := range fnames {
		sep := ","
		if i == len(fnames)-1 {
			sep = ""
		}
		fmt.Fprintf(&b, "  %s%s\n", leanStr(n), sep)
	}
	b.WriteString("]\n\nend Generated\n")
	if err := os.WriteFile(*outp, []byte(b.String()), 0o644); err != nil {
		fmt.Fprintln(os.Stderr, err)
		os.Exit(1)
	}
	fmt.Printf("extract: %d consts, %d funcs, %d log calls, %d vars, %d event regs, %d routes, %d state calls\n",
		len(consts), len(funcs), len(logs), len(vars), len(events), len(routes), len(state))
}
