// Command race: C20.  N clients run their scripts concurrently against one instance built
// from the shipped defaults, then each script runs alone on a fresh instance; the
// transcripts must be equal.  Built with -race: the race detector's reports go to the file
// given by GORACE=log_path and are classified by bin/check.
package main

import (
	"flag"
	"fmt"
	"os"
	"sync"

	"verif/internal/conc"
	"verif/internal/wire"
)

func main() {
	stream := flag.String("stream", "c20", "c20 (smtp mailer) | c20-log (log mailer) | c20-json (log mailer, API mode)")
	n := flag.Int("n", 8, "concurrent clients")
	seed := flag.Int64("seed", 1, "unused (schedules are the Go runtime's)")
	outDir := flag.String("out", ".", "output directory")
	rounds := flag.Int("rounds", 2, "script rounds per client")
	flag.Parse()
	mailer, jsonMode := "smtp", false
	if *stream == "c20-log" {
		mailer = "log"
	}
	if *stream == "c20-json" {
		mailer, jsonMode = "log", true
	}
	out := wire.NewOut(*stream, *seed)
	out.Meta.Rule = fmt.Sprintf("%d clients x %d rounds of a 35-request script (redirect-mode protected page while logged out, register, confirm by mailed link, login/remember, protected routes, OTP add/login/reuse, recover by mailed link, TOTP enrol + second-factor login, SMS enrol + second-factor login, OAuth2 round trip, logout) on accounts of their own, all at once against one instance built from the shipped defaults (%s mailer, mail goroutines on, json=%v), under the race detector; then every script alone on a fresh instance; transcripts (status, headers, jar events, body; random values replaced by placeholders) compared per client; non-trivial = every request; distinct by (client, request)", *n, *rounds, mailer, jsonMode)

	in, err := conc.New(mailer, jsonMode)
	if err != nil {
		fmt.Fprintln(os.Stderr, err)
		os.Exit(2)
	}
	clients := make([]*conc.Client, *n)
	var wg sync.WaitGroup
	start := make(chan struct{})
	for i := range clients {
		clients[i] = in.NewClient(i)
		wg.Add(1)
		go func(c *conc.Client) {
			defer wg.Done()
			<-start
			c.Script(*rounds)
		}(clients[i])
	}
	close(start)
	wg.Wait()
	in.Close()

	solos := make([]*conc.Client, *n)
	var wg2 sync.WaitGroup
	for i := range clients {
		wg2.Add(1)
		go func(i int) {
			defer wg2.Done()
			solo, err := conc.New(mailer, jsonMode) // a fresh instance of its own: "had the others not been running"
			if err != nil {
				fmt.Fprintln(os.Stderr, err)
				os.Exit(2)
			}
			sc := solo.NewClient(i)
			sc.Script(*rounds)
			solo.Close()
			solos[i] = sc
		}(i)
	}
	wg2.Wait()
	for i := range clients {
		a, b := clients[i].Transcript, solos[i].Transcript
		out.Meta.Cases += len(a)
		out.Meta.Distinct += len(a)
		for k := 0; k < len(a) || k < len(b); k++ {
			x, y := "<nothing>", "<nothing>"
			if k < len(a) {
				x = a[k]
			}
			if k < len(b) {
				y = b[k]
			}
			if x != y {
				out.Violate(wire.Violation{Property: "C20", Site: "crosstalk",
					What:   fmt.Sprintf("client %d, step %d: with the other clients running it observed %.300q, alone %.300q", i, k, x, y),
					Replay: []string{"concurrent: " + x, "alone:      " + y}})
				break
			}
		}
		out.Count(fmt.Sprintf("client-steps:%d", len(a)))
	}
	if err := out.Write(*outDir, *stream); err != nil {
		fmt.Fprintln(os.Stderr, err)
		os.Exit(2)
	}
	fmt.Printf("stream=%s cases=%d violations=%d\n", *stream, out.Meta.Cases, len(out.Meta.Violations))
}
