// harness: runs a named stream against the real authboss code in /repo and writes
// <out>/<stream>.ops (lines for the Lean driver), .goobs (real observations), .meta.json.
package main

import (
	"runtime"
	"flag"
	"fmt"
	"os"
	"runtime/debug"

	"verif/internal/c04"
	"verif/internal/c08"
	"verif/internal/c11"
	"verif/internal/c14"
	"verif/internal/c15"
	"verif/internal/c16"
	"verif/internal/c17"
	"verif/internal/c18"
	"verif/internal/c19"
	"verif/internal/mach"
	"verif/internal/wire"
)

func main() {
	stream := flag.String("stream", "", "stream name")
	seed := flag.Int64("seed", 1, "PRNG seed")
	n := flag.Int("n", 1000, "number of cases")
	outDir := flag.String("out", ".", "output directory")
	flag.Parse()
	// The garbage collector can deadlock under -tags faketime (its background workers wait
	// on timers that only fire when every goroutine is idle).  Runs are chunked by bin/check,
	// so memory stays bounded without it.
	debug.SetGCPercent(-1)
	// one P: under the fake clock a collection (wire.Out forces one now and then) can wait for ever
	// for an idle P to acknowledge it; with a single P there is nobody to wait for.  Streams are run
	// in parallel as separate processes.
	runtime.GOMAXPROCS(1)

	var o *wire.Out
	switch *stream {
	case "c11":
		o = c11.Run(*seed, *n, 40)
	case "c11-long":
		o = c11.Run(*seed, *n, 300)
	case "c04":
		o = c04.Run(*seed, *n, 30)
	case "c08":
		o = c08.Run(*seed, *n)
	case "c19":
		o = c19.Run(*seed, *n)
	case "c18":
		o = c18.Run(*seed, *n)
	case "c14":
		o = c14.Run(*seed, *n)
	case "c17":
		o = c17.Run(*seed, *n)
	case "c16":
		o = c16.Run(*seed, *n)
	case "c15":
		o = c15.Run(*seed, *n)
	case "mach":
		o = mach.RunRandom("mach", *seed, *n, 60, nil)
	case "c18r":
		o = mach.RunRandom("c18r", *seed, *n, 60, func(g *mach.Gen) { g.FaultP = 30 })
		o.Meta.Rule = "as the mach stream, with a backend failure injected into 30% of the requests at a random call index 0..6 (generic / not-found / token-not-found / user-found); " + o.Meta.Rule
	default:
		fmt.Fprintln(os.Stderr, "unknown stream", *stream)
		os.Exit(2)
	}
	if err := o.Write(*outDir, *stream); err != nil {
		fmt.Fprintln(os.Stderr, err)
		os.Exit(2)
	}
	fmt.Printf("stream=%s cases=%d distinct=%d violations=%d\n", *stream, o.Meta.Cases, o.Meta.Distinct, len(o.Meta.Violations))
}
