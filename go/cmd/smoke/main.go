package main

import (
	"fmt"
	"net/url"
	"os"
	"time"

	"verif/internal/world"
)

func main() {
	f, _ := os.Create(os.Args[1])
	defer f.Close()
	for _, js := range []bool{false, true} {
		cfg := world.DefaultCfg()
		cfg.JSON = js
		w, err := world.New(cfg)
		if err != nil {
			fmt.Fprintln(f, "ERR", err)
			return
		}
		nf := world.Fault{At: -1}
		show := func(tag string, r *world.Result) {
			fmt.Fprintf(f, "%s: status=%d loc=%q pages=%v panic=%q body=%.200q calls=%v mail=%v sms=%v\n   sess=%v cook=%v\n", tag, r.Status, r.Location, r.Pages, r.Panic, r.Body, r.Calls, r.NewMail, r.NewSMS, w.B("b1").Sess, w.B("b1").Cook)
			for _, l := range r.LogLines {
				fmt.Fprintln(f, "      log:", l)
			}
		}
		r := w.Do("b1", "POST", "/auth/register", nil, map[string]string{"email": "a@x.com", "password": "Passw0rd!", "confirm_password": "Passw0rd!"}, nf)
		show("register", r)
		tok := ""
		if len(r.NewMail) > 0 {
			tok = r.NewMail[0].Token
		}
		r = w.Do("b1", "POST", "/auth/login", nil, map[string]string{"email": "a@x.com", "password": "Passw0rd!"}, nf)
		show("login-unconfirmed", r)
		r = w.Do("b1", "GET", "/auth/confirm", nil, map[string]string{"cnf": tok}, nf)
		show("confirm", r)
		r = w.Do("b1", "POST", "/auth/login", url.Values{"redir": {"/home"}}, map[string]string{"email": "a@x.com", "password": "Passw0rd!", "rm": "true"}, nf)
		show("login", r)
		r = w.Do("b1", "GET", "/p/1/1/0/secret", url.Values{"x": {"1"}}, nil, nf)
		show("protected", r)
		fmt.Fprintf(f, "   probe=%+v\n", r.Probe)
		w.Advance(2 * time.Hour)
		r = w.Do("b1", "DELETE", "/auth/logout", nil, nil, nf)
		show("logout", r)
		r = w.Do("b1", "GET", "/p/1/1/0/secret", url.Values{"x": {"1"}}, nil, nf)
		show("protected-after-logout", r)
		for pid, u := range w.Store.Users {
			fmt.Fprintf(f, "   user %s: %+v\n", pid, *u)
		}
	}
}
